"""C13 Lazy row views are indistinguishable from the eager table they describe.

case = {
  "kind": "dense" | "sparse",
  "base": {"wrap": "plain"|"tuple"|"lazy"|"arff", "loader": bool,
           "enc": [enc…] | null      (dense lazy: per column; sparse lazy: [[key,enc]…]),
           "hdr": [name…] | null     (dense lazy: column names; sparse lazy: names of the integer keys 0..n-1),
           "cols": [{"name","t":"num"|"str"|"cat","lv":[…]}…]   (wrap == "arff": the real ArffReader builds the rows)},
  "rows": dense  [[cell…]…]   sparse [[[key,cell]…]…]      (rectangular for dense)
  "stages": [{"op":"head","names":[…]} | {"op":"head","map":[[name,key]…]}
             {"op":"encode","seq":[enc…]} | {"op":"encode","map":[[key,enc]…]}
             {"op":"drop","cols":[key…],"pred":null|{"p":"missing"}|{"p":"eq","k":key,"v":cell}}
             {"op":"label","k":key,"t":"c"|"r"|"m"|null}
             {"op":"enccat","t":"onehot"|"onehot_tuple"|"string"|null}],
  "ri": index of the observed row among the rows that survive the row predicates,
  "acc": [access…], "perm": [indices into acc: order used on the second, fresh copy]}
cell = int | str | null | {"cat": s, "lv": [levels]}      key = int | str
enc  = "id"|"int"|"str"|"inc"|"dbl"|"anum"|"astr"|{"acat":[levels]}
access = {"a":"pos","i":n} | {"a":"name","k":key} | {"a":"iter"} | {"a":"len"} | {"a":"keys"} | {"a":"items"}
       | {"a":"copy"} | {"a":"headers"} | {"a":"eq","o":"same"|"lazy"|"refl"|"diff"} | {"a":"label"} | {"a":"tipe"}
       | {"a":"feats","sub":access}
       | {"a":"take","n":k}      (phase 6: next() k times on a fresh iter(row), then the iterator is abandoned; dense rows)
"""
import json
import os
import re
import sys
from fractions import Fraction

from core.engine import Property, F

# ------------------------------------------------------------------ values
INT_RE = re.compile(r"^-?[0-9]+$")


class Cat:
    """eager-side stand-in for coba's Categorical (a str with levels)"""
    __slots__ = ("s", "lv")

    def __init__(self, s, lv):
        self.s, self.lv = s, list(lv)

    def __eq__(self, o):
        return isinstance(o, Cat) and (o.s, o.lv) == (self.s, self.lv)

    def __hash__(self):
        return hash(self.s)

    def __repr__(self):
        return "Cat(%r,%r)" % (self.s, self.lv)


class ErrCell:
    """a cell whose (lazy, per access) encoder raises; eagerly the stage itself would have raised"""
    __slots__ = ("kind",)

    def __init__(self, kind):
        self.kind = kind

    def __repr__(self):
        return "ErrCell(%s)" % self.kind


def cell_from_json(c):
    if isinstance(c, dict):
        if "list" in c:
            return [cell_from_json(x) for x in c["list"]]
        if "dict" in c:
            return {k: cell_from_json(x) for k, x in c["dict"]}
        return Cat(c["cat"], c["lv"])
    return c


def real_from_json(c):
    if isinstance(c, dict):
        if "list" in c:
            return [real_from_json(x) for x in c["list"]]
        if "dict" in c:
            return {k: real_from_json(x) for k, x in c["dict"]}
        from coba.primitives import Categorical
        return Categorical(c["cat"], list(c["lv"]))
    return c


def canon_val(v):
    """canonical JSON of a value coming from the real code or from the eager model"""
    if v is None:
        return None
    if isinstance(v, ErrCell):
        return ["err"]
    if isinstance(v, Cat):
        return ["c", v.s, list(v.lv)]
    if isinstance(v, bool):
        return ["b", v]
    if isinstance(v, int):
        return ["n", v, 1]
    if isinstance(v, float):
        if v != v or v in (float("inf"), float("-inf")):
            return ["f", repr(v)]
        fr = Fraction(v)
        return ["n", fr.numerator, fr.denominator]
    if isinstance(v, str):
        lv = getattr(v, "levels", None)
        if lv is not None and type(v).__name__ == "Categorical":
            return ["c", str(v), [str(x) for x in lv]]
        return ["s", str(v)]
    if isinstance(v, tuple):
        return ["t", [canon_val(x) for x in v]]
    if isinstance(v, list):
        return ["l", [canon_val(x) for x in v]]
    if isinstance(v, dict):
        return ["d", sorted(([canon_val(k), canon_val(x)] for k, x in v.items()), key=lambda p: json.dumps(p[0]))]
    return ["?", type(v).__name__]


def canon_key(k):
    return canon_val(k)


def sort_pairs(pairs):
    return sorted(pairs, key=lambda p: json.dumps(p[0]))


# ------------------------------------------------------------------ encoders (eager side, plain python)
def enc_apply(enc, v):
    """the eager meaning of an encoder; returns a value or ErrCell"""
    if isinstance(v, ErrCell):
        return v
    if isinstance(enc, dict):
        lv = enc["acat"]
        s = v.s if isinstance(v, Cat) else v
        if isinstance(s, str) and s in lv:
            return Cat(s, lv)
        return ErrCell("CobaException")
    if enc == "id":
        return v
    if enc == "int":
        if isinstance(v, (int, float)):
            return int(v)
        s = v.s if isinstance(v, Cat) else v
        if isinstance(s, str):
            return int(s) if INT_RE.match(s) else ErrCell("ValueError")
        return ErrCell("TypeError")
    if enc == "str":
        if isinstance(v, Cat):
            return v.s
        if isinstance(v, tuple):
            return ErrCell("unmodelled")
        return str(v)
    if enc == "inc":
        return v + 1 if isinstance(v, (int, float)) else ErrCell("TypeError")
    if enc == "dbl":
        if isinstance(v, (int, float)):
            return v * 2
        if isinstance(v, Cat):
            return v.s * 2
        if isinstance(v, (str, tuple)):
            return v * 2
        return ErrCell("TypeError")
    if enc == "anum":       # float(): the tokens are integer literals, the value is an integer-valued float
        if isinstance(v, (int, float)):
            return float(v)
        s = v.s if isinstance(v, Cat) else v
        if isinstance(s, str):
            return float(int(s)) if INT_RE.match(s) else ErrCell("ValueError")
        return ErrCell("TypeError")
    if enc == "astr":
        return None if v == "?" else v
    raise ValueError("enc %r" % (enc,))


def lazy_enc_apply(enc, v):
    """LazyDense/LazySparse per-access encoding: a failing encoder on '?' / '' means a missing value"""
    r = enc_apply(enc, v)
    if isinstance(r, ErrCell) and isinstance(v, str) and not isinstance(v, Cat) and v in ("?", ""):
        return None
    return r


def _enc_id(x):
    return x


def _enc_inc(x):
    return x + 1


def _enc_dbl(x):
    return x * 2


def _enc_astr(x):
    return None if x == "?" else x


class Loader:
    """a picklable loader for LazyDense / LazySparse (`row()` returns a fresh copy of the stored list / dict)"""
    def __init__(self, data):
        self.data = data

    def __call__(self):
        return list(self.data) if isinstance(self.data, list) else dict(self.data)


def real_enc(enc, sparse=False):
    if isinstance(enc, dict):
        from coba.encodings import CategoricalEncoder
        from coba.pipes.readers import ArffAttrReader
        return ArffAttrReader.CategoricalDict(CategoricalEncoder(list(enc["acat"]))._categoricals).__getitem__
    if enc == "id":
        return _enc_id
    if enc == "int":
        return int
    if enc == "str":
        return str
    if enc == "inc":
        return _enc_inc
    if enc == "dbl":
        return _enc_dbl
    if enc == "anum":
        return float
    if enc == "astr":
        return _enc_astr
    raise ValueError("enc %r" % (enc,))


def enc_zero_nonzero(enc):
    """EncodeRows / ArffReader: is the encoded sparse zero ('0') different from 0 (=> the column is 'not sparse')"""
    r = enc_apply(enc, "0")
    if isinstance(r, ErrCell):
        return False
    return not (isinstance(r, (int, float)) and r == 0)


# ------------------------------------------------------------------ eager model (plain lists / dicts)
class ED:
    """eager dense row: list of cells, optional header map name->index, optional label (index, tipe)"""

    def __init__(self, vals, hdr=None, lab=None):
        self.vals, self.hdr, self.lab = list(vals), hdr, lab


class ES:
    """eager sparse row: dict, optional label (key, tipe), the header map raw key -> name the table is keyed by ({} = raw keys)"""

    def __init__(self, d, lab=None, inv=None):
        self.d, self.lab, self.inv = dict(d), lab, dict(inv or {})


class HarnessBug(Exception):
    pass


class Undefined(Exception):
    """the eager operation has no value (raises) for this table: outside the value part of the property"""


def arff_sparse_levels(lv):
    return ["0"] + list(lv)


def col_enc(col, sparse):
    if col["t"] == "num":
        return "anum"
    if col["t"] == "str":
        return "astr"
    return {"acat": arff_sparse_levels(col["lv"]) if sparse else list(col["lv"])}


def eager_base(case, raw):
    base = case["base"]
    if case["kind"] == "dense":
        vals = [cell_from_json(c) for c in raw]
        hdr = None
        if base["wrap"] == "arff":
            encs = [col_enc(c, False) for c in base["cols"]]
            names = [c["name"] for c in base["cols"]]
            if len(names) > len(vals) or len(set(names)) != len(names):
                raise Undefined("header names must be distinct and not more than the columns")
            vals = [lazy_enc_apply(e, v) for e, v in zip(encs, vals)]
            hdr = {n: i for i, n in enumerate(names)}
        elif base["wrap"] == "lazy":
            if base.get("enc"):
                encs = base["enc"]
                if len(encs) != len(vals):
                    raise Undefined("encoder count")
                vals = [lazy_enc_apply(e, v) for e, v in zip(encs, vals)]
            if base.get("hdr") is not None:
                if len(base["hdr"]) > len(vals) or len(set(base["hdr"])) != len(base["hdr"]):
                    raise Undefined("header names must be distinct and not more than the columns")
                hdr = {n: i for i, n in enumerate(base["hdr"])}
        return ED(vals, hdr)
    d = {k: cell_from_json(c) for k, c in raw}
    if base["wrap"] == "arff":
        cols = base["cols"]
        encs = {i: col_enc(c, True) for i, c in enumerate(cols)}
        names = {i: c["name"] for i, c in enumerate(cols)}
        nsp = [i for i, e in encs.items() if enc_zero_nonzero(e)]
        out = {}
        for k, v in d.items():
            out[names[k]] = lazy_enc_apply(encs[k], v)
        for k in nsp:
            if k not in d:
                out[names[k]] = lazy_enc_apply(encs[k], "0")
        return ES(out, None, names)
    if base["wrap"] == "lazy":
        encs = dict((k, e) for k, e in (base.get("enc") or []))
        names = base.get("hdr")
        inv = {i: n for i, n in enumerate(names)} if names is not None else {}
        out = {}
        if names is not None and len(set(names)) != len(names):
            raise Undefined("header does not name every column exactly once")
        for k, v in d.items():
            if names is not None and k not in inv:
                raise Undefined("a key without a header name")
            out[inv.get(k, k)] = lazy_enc_apply(encs[k], v) if k in encs else v
        return ES(out, None, inv)
    return ES(d)


def eager_stage(kind, e, st):
    """returns the new eager row, or None when the row predicate drops the row; raises Undefined"""
    op = st["op"]
    if kind == "dense":
        n = len(e.vals)
        if op == "head":
            # a header names every column exactly once (a mapping lists the columns in order)
            if "map" in st:
                # a mapping names the columns in any order (name -> position), every column exactly once
                # a mapping name -> column, in any order, for all or only some of the columns: distinct names, distinct existing columns
                pairs = st["map"]
                ks = [k for _, k in pairs]
                if any(not isinstance(k, int) or not (0 <= k < n) for k in ks) or len(set(ks)) != len(ks) or len(set(nm for nm, _ in pairs)) != len(pairs):
                    raise Undefined("header mapping: names and columns must be distinct and the columns must exist")
                return ED(e.vals, {name: k for name, k in pairs}, e.lab)
            names = list(st["names"])
            if len(names) > n or len(set(names)) != len(names):
                raise Undefined("header names must be distinct and not more than the columns")
            return ED(e.vals, {name: i for i, name in enumerate(names)}, e.lab)
        if op == "encode":
            if "seq" in st:
                if len(st["seq"]) != n:
                    raise Undefined("encoder count")
                encs = list(st["seq"])
            else:
                order_hit = not hdr_plain(e)
                m = {}
                for k, en in st["map"]:
                    m[k] = en
                names = {i: nm for nm, i in (e.hdr or {}).items()}
                encs = []
                for i in range(n):
                    if i in names and names[i] in m:
                        encs.append(m[names[i]])
                    elif i in m:
                        encs.append(m[i])
                    else:
                        encs.append("id")
            vals = [enc_apply(en, v) for en, v in zip(encs, e.vals)]
            out = ED(vals, e.hdr, e.lab)
            out.order_hit = getattr(e, "order_hit", False) or ("map" in st and order_hit)
            return out
        if op == "drop":
            if not pred_keep(kind, e, st.get("pred")):
                return None
            cols = st["cols"]
            if not cols:
                return e
            order_hit = not hdr_plain(e)
            names = {i: nm for nm, i in (e.hdr or {}).items()}
            keep = [i for i in range(n) if i not in cols and not (i in names and names[i] in cols)]
            pos = {old: new for new, old in enumerate(keep)}
            hdr = None
            if e.hdr is not None:
                hdr = {nm: pos[i] for nm, i in e.hdr.items() if i in pos}
            lab = None
            if e.lab is not None:
                if e.lab[0] not in pos:
                    raise Undefined("label column dropped")
                lab = (pos[e.lab[0]], e.lab[1])
            out = ED([e.vals[i] for i in keep], hdr, lab)
            out.order_hit = getattr(e, "order_hit", False) or order_hit
            return out
        if op == "label":
            k = st["k"]
            if isinstance(k, str):
                if e.hdr is None or k not in e.hdr:
                    raise Undefined("label header unknown")
                k = e.hdr[k]
            if not (0 <= k < n):
                raise Undefined("label index out of range")
            return ED(e.vals, e.hdr, (k, st.get("t")))
        if op == "enccat":
            t = st.get("t")
            if t is None:
                return e
            if not any(isinstance(v, Cat) or has_nested_cat(v) for v in e.vals):
                return e
            if any(isinstance(v, ErrCell) for v in e.vals):
                raise Undefined("error cell")
            out = []
            for v in e.vals:
                if isinstance(v, (list, dict)):
                    out.append(enc_nested(v, t))
                elif isinstance(v, Cat):
                    hot = tuple(1 if l == v.s else 0 for l in v.lv)
                    if t == "string":
                        out.append(v.s)
                    elif t == "onehot":
                        out.extend(hot)
                    else:
                        out.append(hot)
                else:
                    out.append(v)
            return ED(out, None, None)
    else:
        if op == "head":
            if "map" in st:
                fwd = {}
                for name, k in st["map"]:
                    fwd[name] = k
            else:
                fwd = {name: i for i, name in enumerate(st["names"])}
            inv = {k: name for name, k in fwd.items()}
            if len(inv) != len(fwd) or len(fwd) != len(st.get("map") or st["names"]):
                raise Undefined("names and keys of a header map must be pairwise distinct")
            out = {}
            for k, v in e.d.items():
                if k not in inv:
                    raise Undefined("key without a header")
                out[inv[k]] = v
            lab = None
            if e.lab is not None:
                if e.lab[0] not in inv:
                    raise Undefined("label without a header")
                lab = (inv[e.lab[0]], e.lab[1])
            return ES(out, lab, inv)
        if op == "encode":
            if "seq" in st:
                m = {i: en for i, en in enumerate(st["seq"])}
            else:
                m = {}
                for k, en in st["map"]:
                    m[k] = en
            out = {k: (enc_apply(m[k], v) if k in m else v) for k, v in e.d.items()}
            for k, en in m.items():
                if k not in out and enc_zero_nonzero(en):
                    out[k] = enc_apply(en, "0")
            return ES(out, e.lab, e.inv)
        if op == "drop":
            if not pred_keep(kind, e, st.get("pred")):
                return None
            cols = st["cols"]
            if not cols:
                return e
            if e.lab is not None and e.lab[0] in cols:
                raise Undefined("label column dropped")
            return ES({k: v for k, v in e.d.items() if k not in cols}, e.lab, e.inv)
        if op == "label":
            k = st["k"]
            if not isinstance(k, str):
                k = e.inv.get(k, k)      # a table keyed by header names: an int label denotes the column with that raw key
            d = dict(e.d)
            if k not in d:
                d[k] = 0
            return ES(d, (k, st.get("t")), e.inv)
        if op == "enccat":
            t = st.get("t")
            if t is None:
                return e
            if not any(isinstance(v, Cat) for v in e.d.values()):
                return e
            if any(isinstance(v, ErrCell) for v in e.d.values()):
                raise Undefined("error cell")
            out = {}
            tail = {}
            for k, v in e.d.items():
                if isinstance(v, Cat):
                    hot = tuple(1 if l == v.s else 0 for l in v.lv)
                    if t == "string":
                        out[k] = v.s
                    elif t == "onehot":
                        # EncodeCatRows' own flat encoding of a dict entry, taken as given (it is the eager operation):
                        # for i>=1 the key "<k>_<bit i>" receives i  (a one-hot "<k>_<index>":1 only for two levels)
                        for i, bit in enumerate(hot):
                            if i != 0:
                                tail["%s_%d" % (k, bit)] = i
                    else:
                        out[k] = hot
                else:
                    out[k] = v
            out.update(tail)
            return ES(out, None, {})
    raise ValueError("stage %r" % (st,))


def hdr_plain(e):
    """the header map lists every column, in column order (what every reader builds): the only kind of map for which the unrepaired
    EncodeRows(mapping) / DropRows(columns) (`enumerate(first.headers)`) pair names with the right columns (recorded C13-F10)"""
    return e.hdr is None or list(e.hdr.values()) == list(range(len(e.vals)))


def order_sensitive(case):
    """structural over-approximation of the above, used when the eager table is undefined: a dense table with some header map and a
    later EncodeRows(mapping) / DropRows(columns) (the unrepaired code sizes its arguments by the number of header entries)"""
    if case["kind"] != "dense":
        return False
    hdr = case["base"].get("hdr") is not None or case["base"]["wrap"] == "arff"
    for st in case["stages"]:
        if st["op"] == "head":
            hdr = True
        elif hdr and ((st["op"] == "encode" and "map" in st) or (st["op"] == "drop" and st["cols"])):
            return True
    return False


def has_nested_cat(v):
    if isinstance(v, list):
        return any(isinstance(x, Cat) for x in v)
    if isinstance(v, dict):
        return any(isinstance(x, Cat) for x in v.values())
    return False


def enc_nested(v, t):
    """EncodeCatRows one level down: a list / dict cell holding categoricals is encoded like a row of its own (a fresh object)"""
    def hot(c):
        return tuple(1 if l == c.s else 0 for l in c.lv)
    if isinstance(v, list):
        out = []
        for x in v:
            if isinstance(x, Cat):
                if t == "string":
                    out.append(x.s)
                elif t == "onehot":
                    out.extend(hot(x))
                else:
                    out.append(hot(x))
            else:
                out.append(x)
        return out
    out, tail = {}, {}
    for k, x in v.items():
        if isinstance(x, Cat):
            if t == "string":
                out[k] = x.s
            elif t == "onehot":
                for i, bit in enumerate(hot(x)):
                    if i != 0:
                        tail["%s_%d" % (k, bit)] = i
            else:
                out[k] = hot(x)
        else:
            out[k] = x
    out.update(tail)
    return out


def pred_keep(kind, e, pred):
    """row predicate of DropRows: True = the row stays"""
    if not pred:
        return True
    if pred["p"] == "missing":
        if e_missing(e) is None:
            raise Undefined("the rows have no `missing` attribute")
        return not bool(e_missing(e))
    if pred["p"] == "eq":
        k = pred["k"]
        want = cell_from_json(pred["v"])
        if kind == "dense":
            if isinstance(k, str):
                if e.hdr is None or k not in e.hdr:
                    raise Undefined("predicate header unknown")
                k = e.hdr[k]
            if not (0 <= k < len(e.vals)):
                raise Undefined("predicate index")
            v = e.vals[k]
        else:
            if k not in e.d:
                raise Undefined("predicate key absent")
            v = e.d[k]
        if isinstance(v, ErrCell):
            raise Undefined("predicate on error cell")
        return not py_eq(v, want)
    raise ValueError(pred)


def e_missing(e):
    return getattr(e, "missing", False)


def py_eq(a, b):
    """python == on eager values (Cat compares like the str it is)"""
    if isinstance(a, Cat):
        a = a.s
    if isinstance(b, Cat):
        b = b.s
    return a == b


class ETable(list):
    """the eager rows of a table; order_hit: some row met EncodeRows(mapping) / DropRows(columns) under a header map that is not the plain
    in-order, complete one (area of C13-F10)"""
    order_hit = False


def eager_table(case):
    """the eager table: list of eager rows after all stages (rows dropped by predicates removed)"""
    kind = case["kind"]
    out = ETable()
    for raw in case["rows"]:
        e = eager_base(case, raw)
        # only LazyDense / LazySparse rows carry the `missing` attribute of their source line
        e.missing = raw_missing(kind, raw) if case["base"]["wrap"] in ("lazy", "arff") else None
        if has_err(e):
            raise Undefined("a base encoder raises on a cell: the eager load itself fails")
        for st in case["stages"]:
            m = e.missing
            prev = e
            if kind == "dense" and ((st["op"] == "encode" and "map" in st) or (st["op"] == "drop" and st["cols"])) and not hdr_plain(e):
                out.order_hit = True        # also for rows that a predicate removes at this very stage
            e = eager_stage(kind, e, st)
            if e is None:
                break
            if getattr(prev, "order_hit", False):
                e.order_hit = True
            if st["op"] == "enccat" and e is not prev:
                m = None        # EncodeCatRows materialised the row: a plain list / dict has no `missing`
            if has_err(e):
                raise Undefined("an encoder raises on a cell: the eager stage itself fails")
            e.missing = m
        if e is not None:
            if kind == "sparse":
                # by-key access of an absent key must raise KeyError like the eager dict; raw integer keys of a header-carrying base are exempt
                e.absent_raises = True
                e.leaky = case["base"]["wrap"] == "arff" or (case["base"]["wrap"] == "lazy" and case["base"].get("hdr") is not None)
            out.append(e)
    return out


def raw_missing(kind, raw):
    cells = raw if kind == "dense" else [c for _, c in raw]
    return any(c == "?" for c in cells if isinstance(c, str))


def has_err(e):
    cells = e.vals if isinstance(e, ED) else list(e.d.values())
    return any(isinstance(v, ErrCell) for v in cells)


def eager_feats(e):
    if e.lab is None:
        raise Undefined("no label")
    if isinstance(e, ED):
        i = e.lab[0]
        hdr = None
        if e.hdr is not None:
            hdr = {nm: (j if j < i else j - 1) for nm, j in e.hdr.items() if j != i}
        return ED(e.vals[:i] + e.vals[i + 1:], hdr)
    f = ES({k: v for k, v in e.d.items() if k != e.lab[0]})
    f.absent_raises, f.leaky = getattr(e, "absent_raises", False), getattr(e, "leaky", True)
    return f


UNDEF = {"u": 1}
_OPEN = None


def BF(key, what, sig):
    """a (B) failure of one table; key names the place (T = table level, a<j> = access j, o<j> = access order at j)"""
    f = F("B", what, sig)
    f["_k"] = key
    return f


def open_sig(sig):
    """is the recorded finding with this signature still open (known/C13.json)? While it is, the (A) comparison is suspended
    where the model (which mirrors the repaired code) necessarily differs from the unrepaired code."""
    global _OPEN
    if _OPEN is None:
        _OPEN = set()
        path = os.path.join(os.path.dirname(os.path.dirname(os.path.dirname(os.path.abspath(__file__)))), "known", "C13.json")
        if os.path.exists(path):
            with open(path, encoding="utf-8") as f:
                for k in json.load(f).get("findings", []):
                    if k.get("status", "open") == "open":
                        _OPEN.add(k["sig"])
    return sig in _OPEN


def val(v):
    return {"v": v}


def eager_access(e, acc):
    """what the eager row gives for this access: {"v":canon} | {"e":1} (must raise) | {"u":1} (no claim)"""
    a = acc["a"]
    dense = isinstance(e, ED)
    if a == "clone":
        return eager_access(e, acc["sub"])
    if a == "feats":
        try:
            f = eager_feats(e)
        except Undefined:
            return UNDEF
        return eager_access(f, acc["sub"])
    if a == "label":
        if e.lab is None:
            return UNDEF
        v = e.vals[e.lab[0]] if dense else e.d[e.lab[0]]
        return UNDEF if isinstance(v, ErrCell) else val(canon_val(v))
    if a == "tipe":
        if e.lab is None:
            return UNDEF
        return val(canon_val(e.lab[1]))
    if a == "len":
        return val(len(e.vals) if dense else len(e.d))
    if a == "headers":
        if not dense:
            return UNDEF
        if e.hdr is None:
            return {"e": 1}
        return val(sort_pairs([[canon_key(k), i] for k, i in e.hdr.items()]))
    if a == "pos":
        if not dense:
            return UNDEF
        i = acc["i"]
        if i >= len(e.vals):
            return {"e": 1}
        v = e.vals[i]
        return UNDEF if isinstance(v, ErrCell) else val(canon_val(v))
    if a == "name":
        k = acc["k"]
        if dense:
            if e.hdr is None or k not in e.hdr or not (0 <= e.hdr[k] < len(e.vals)):
                return UNDEF
            v = e.vals[e.hdr[k]]
        else:
            if k not in e.d:
                # a plain dict raises KeyError for an absent key (theorems sparse_get / lazy_error_eq_eager_error_sparse); no claim for a raw
                # integer key of a row whose base carries a header map (the hidden keys `leak` of the model, sparse_get_counterexample)
                if getattr(e, "absent_raises", False) and not (isinstance(k, int) and not isinstance(k, bool) and getattr(e, "leaky", True)):
                    return {"e": 1, "cls": "KeyError"}
                return UNDEF
            v = e.d[k]
        return UNDEF if isinstance(v, ErrCell) else val(canon_val(v))
    if has_err(e):
        return UNDEF
    if a == "take":
        # a consumer that stops early sees the first k cells of the eager list (theorem partial_iteration); dict iteration order: no claim
        return val([canon_val(v) for v in e.vals[:acc["n"]]]) if dense else UNDEF
    if a in ("iter", "copy"):
        if dense:
            return val([canon_val(v) for v in e.vals])
        if a == "iter":
            return val(sorted((canon_key(k) for k in e.d), key=json.dumps))
        return val(sort_pairs([[canon_key(k), canon_val(v)] for k, v in e.d.items()]))
    if a == "keys":
        if dense:
            return UNDEF
        return val(sorted((canon_key(k) for k in e.d), key=json.dumps))
    if a == "items":
        if dense:
            return UNDEF
        return val(sort_pairs([[canon_key(k), canon_val(v)] for k, v in e.d.items()]))
    if a == "eq":
        return val(acc["o"] != "diff" and acc["o"] not in LENGTH_EQ)
    raise ValueError(acc)


# ------------------------------------------------------------------ the real code
class RowList(list):
    """the base rows of a table; `.sources` = the python containers they are / read from (for the source-not-modified check)"""
    sources = None


def base_rows(case):
    """the base rows of one table (plain lists/dicts, LazyDense/LazySparse, or what ArffReader yields)"""
    import coba.pipes.rows as R
    kind, base = case["kind"], case["base"]
    rows = RowList()
    rows.sources = []
    if base["wrap"] == "arff":
        from coba.pipes.readers import ArffReader
        rows = list(ArffReader().filter(arff_lines(case)))
    else:
        for raw in case["rows"]:
            if kind == "dense":
                vals = [real_from_json(c) for c in raw]
                rows.sources.append(vals)
                if base["wrap"] == "plain":
                    rows.append(vals)
                elif base["wrap"] == "tuple":
                    rows.append(tuple(vals))
                else:
                    enc = [real_enc(e) for e in base["enc"]] if base.get("enc") else None
                    hdr = {n: i for i, n in enumerate(base["hdr"])} if base.get("hdr") is not None else None
                    src = Loader(vals) if base.get("loader") else vals
                    rows.append(R.LazyDense(src, enc, hdr, raw_missing(kind, raw)))
            else:
                d = {k: real_from_json(c) for k, c in raw}
                rows.sources.append(d)
                if base["wrap"] == "plain":
                    rows.append(d)
                else:
                    src = Loader(d) if base.get("loader") else d
                    kw = {}
                    if base.get("enc"):
                        kw["enc"] = {k: real_enc(e) for k, e in base["enc"]}
                    if base.get("hdr") is not None:
                        kw["fwd"] = {n: i for i, n in enumerate(base["hdr"])}
                        kw["inv"] = {i: n for i, n in enumerate(base["hdr"])}
                    rows.append(R.LazySparse(src, missing=raw_missing(kind, raw), **kw))
    return rows


def make_filters(stages):
    """one filter object per stage; the same objects are then applied to every table of the case"""
    import coba.pipes.rows as R
    return [make_filter(R, st) for st in stages]


def run_pipeline(filters, rows):
    for f in filters:
        rows = f.filter(rows)
    return list(rows)


def build_real(case):
    """run the real pipeline of one table with fresh filter objects; returns the list of row objects"""
    return run_pipeline(make_filters(case["stages"]), base_rows(case))


def arff_token(cell, qs):
    """the text of one dense ARFF cell: a value holding a double quote is written in single quotes, one holding a single quote in double
    quotes, one holding a blank or a comma in the table's default quote (base["qs"]: "s" = single, else double); everything else bare.
    Deterministic in (cell, qs), so shrinking rows keeps the text of the others."""
    if not isinstance(cell, str) or cell in ("?", ""):
        return cell
    if '"' in cell:
        return "'" + cell + "'"
    if "'" in cell:
        return '"' + cell + '"'
    if " " in cell or "," in cell:
        q = "'" if qs == "s" else '"'
        return q + cell + q
    return cell


def touch_rows(table, ri, mode):
    """read the OTHER rows of the table completely before the observed one ("fwd": ascending, "rev": descending row order).
    Rows of one read share objects (ArffReader: one line reader for all rows; filters: one closure for all rows); what a row
    answers must not depend on which of its siblings were loaded before it."""
    if mode not in ("fwd", "rev"):
        return
    idx = [j for j in range(len(table)) if j != ri]
    if mode == "rev":
        idx.reverse()
    for j in idx:
        try:
            r = table[j]
            list(r.items()) if hasattr(r, "items") else list(r)
        except Exception:
            pass


def arff_lines(case):
    lines = ["@relation t"]
    for c in case["base"]["cols"]:
        if c["t"] == "num":
            lines.append("@attribute %s numeric" % c["name"])
        elif c["t"] == "str":
            lines.append("@attribute %s string" % c["name"])
        else:
            lines.append("@attribute %s {%s}" % (c["name"], ",".join(c["lv"])))
    lines.append("@data")
    for raw in case["rows"]:
        if case["kind"] == "dense":
            lines.append(",".join(arff_token(c, case["base"].get("qs")) for c in raw))
        else:
            lines.append("{" + ", ".join("%d %s" % (k, v) for k, v in raw) + "}")
    return lines


def real_pred(pred):
    if not pred:
        return None
    if pred["p"] == "missing":
        from operator import attrgetter
        return attrgetter("missing")
    k, want = pred["k"], real_from_json(pred["v"])
    return lambda row: row[k] == want


class _CustomMapping:
    pass


def mapping_flavour(d, flavour):
    """the same header map as a dict / MappingProxyType / ChainMap / a user-defined collections.abc.Mapping"""
    if flavour == "proxy":
        import types
        return types.MappingProxyType(d)
    if flavour == "chain":
        import collections
        ks = list(d)
        return collections.ChainMap({k: d[k] for k in ks[len(ks) // 2:]}, {k: d[k] for k in ks[:len(ks) // 2]}) if False else collections.ChainMap(dict(d))
    if flavour == "custom":
        from collections import abc

        class M(abc.Mapping):
            def __init__(self, d):
                self._d = d

            def __getitem__(self, k):
                return self._d[k]

            def __iter__(self):
                return iter(self._d)

            def __len__(self):
                return len(self._d)
        return M(d)
    return d


def make_filter(R, st):
    op = st["op"]
    if op == "head":
        if "map" in st:
            return R.HeadRows(mapping_flavour({name: k for name, k in st["map"]}, st.get("flavour")))
        return R.HeadRows(list(st["names"]))
    if op == "encode":
        if "seq" in st:
            return R.EncodeRows([real_enc(e) for e in st["seq"]])
        return R.EncodeRows({k: real_enc(e) for k, e in st["map"]})
    if op == "drop":
        return R.DropRows(list(st["cols"]), real_pred(st.get("pred")))
    if op == "label":
        return R.LabelRows(st["k"], st.get("t"))
    if op == "enccat":
        return R.EncodeCatRows(st.get("t"))
    raise ValueError(st)


def eager_plain(e):
    """the eager row as the plain python object (list / dict) used as the other side of =="""
    def pv(v):
        if isinstance(v, Cat):
            from coba.primitives import Categorical
            return Categorical(v.s, list(v.lv))
        return v
    if isinstance(e, ED):
        return [pv(v) for v in e.vals]
    return {k: pv(v) for k, v in e.d.items()}


def perturb(plain, how):
    if isinstance(plain, list):
        if how % 3 == 0 or not plain:
            return plain + [0]
        if how % 3 == 1:
            return plain[:-1]
        i = (how // 3) % len(plain)
        return plain[:i] + ["~"] + plain[i + 1:]
    d = dict(plain)
    if how % 3 == 0 or not d:
        d["~extra"] = 1
        return d
    ks = list(d)
    k = ks[(how // 3) % len(ks)]
    if how % 3 == 1:
        del d[k]
    else:
        d[k] = "~"
    return d


LENGTH_EQ = ("pad", "cut")      # == against the eager row with n surplus None cells / without its last n cells: never equal (another length)


def other_plain(plain, acc):
    """the other side of an == access built from the eager row: diff = perturbed; pad = n more cells (list: None, dict: keys ~pad<i> -> None);
    cut = the last n cells removed (an empty row is padded instead, so the length always differs)"""
    o = acc["o"]
    if o == "diff":
        return perturb(plain, acc.get("h", 0))
    if o in LENGTH_EQ:
        n = max(1, int(acc.get("n", 1)))
        if o == "cut" and len(plain) > 0:
            n = min(n, len(plain))
            return plain[:-n] if isinstance(plain, list) else dict(list(plain.items())[:-n])
        if isinstance(plain, list):
            return plain + [None] * n
        return dict(plain, **{"~pad%d" % i: None for i in range(n)})
    return plain


def real_access(r, acc, e):
    """perform one access on the real row object; e = the eager row (only used to build the other side of ==)"""
    import coba.pipes.rows as R
    a = acc["a"]
    if a == "clone":
        import copy as _copy
        import pickle as _pickle
        how = acc["how"]
        try:
            if how == "copy":
                dup = _copy.copy(r)
            elif how == "deepcopy":
                dup = _copy.deepcopy(r)
            else:
                try:
                    blob = _pickle.dumps(r)
                except Exception:
                    return UNDEF        # this row object cannot be pickled (lambda / closure inside): no claim
                dup = _pickle.loads(blob)
        except Exception as ex:
            if "mappingproxy" in str(ex):
                return UNDEF            # the header map handed to HeadRows is a MappingProxyType, which Python itself cannot copy / pickle
            return {"e": "%s-failed:%s" % (how, type(ex).__name__)}
        return real_access(dup, acc["sub"], e)
    try:
        if a == "feats":
            f = r.feats
            fe = None
            if e is not None:
                try:
                    fe = eager_feats(e)
                except Undefined:
                    fe = None
            return real_access(f, acc["sub"], fe)
        if a == "label":
            return val(canon_val(r.label))
        if a == "tipe":
            return val(canon_val(r.tipe))
        if a == "len":
            return val(len(r))
        if a == "headers":
            h = r.headers
            return val(sort_pairs([[canon_key(k), i] for k, i in dict(h).items()]))
        if a == "pos":
            return val(canon_val(r[acc["i"]]))
        if a == "name":
            return val(canon_val(r[acc["k"]]))
        if a == "iter":
            xs = list(r)
            if isinstance(r, dict) or hasattr(r, "keys"):
                if len(set(xs)) != len(xs):
                    return val(["dup-keys", sorted((canon_key(k) for k in xs), key=json.dumps)])
                return val(sorted((canon_key(k) for k in xs), key=json.dumps))
            return val([canon_val(v) for v in xs])
        if a == "take":
            if isinstance(r, dict) or hasattr(r, "keys"):
                return UNDEF
            return val([canon_val(v) for v in take_n(r, acc["n"])])
        if a == "copy":
            c = r.copy() if hasattr(r, "copy") else list(r)
            if isinstance(c, dict):
                res = sort_pairs([[canon_key(k), canon_val(v)] for k, v in c.items()])
            elif not isinstance(c, list):
                return val(["not-a-list", type(c).__name__])
            else:
                res = [canon_val(v) for v in c]
            return val(handed_out(r, c, res))
        if a == "keys":
            kv = r.keys()
            ks = list(kv)
            if len(set(ks)) != len(ks):
                return val(["dup-keys"])
            res = sorted((canon_key(k) for k in ks), key=json.dumps)
            if isinstance(kv, set) and not isinstance(r, dict):
                # a set handed out by keys() is the caller's: adding to / removing from it must not change the row
                kv.add("~mut")
                for k in ks[:1]:
                    kv.discard(k)
                again = sorted((canon_key(k) for k in r.keys()), key=json.dumps)
                if again != res:
                    return val(["row-changed-by-mutating-the-set-its-keys()-returned", res, again])
            return val(res)
        if a == "items":
            its = list(r.items())
            if len(dict(its)) != len(its):
                return val(["dup-keys", sort_pairs([[canon_key(k), canon_val(v)] for k, v in its])])
            return val(sort_pairs([[canon_key(k), canon_val(v)] for k, v in its]))
        if a == "eq":
            if e is None or has_err(e) or type(r) in (list, tuple, dict):
                return UNDEF
            plain = eager_plain(e)
            o = acc["o"]
            if o == "diff" or o in LENGTH_EQ:
                plain = other_plain(plain, acc)
                return val(bool(r == plain))
            if o == "same":
                return val(bool(r == plain))
            if o == "refl":
                return val(bool(plain == r))
            if o == "lazy":
                other = R.LazyDense(lambda: list(plain)) if isinstance(plain, list) else R.LazySparse(lambda: dict(plain))
                return val(bool(r == other))
        raise HarnessBug(acc)
    except HarnessBug:
        raise
    except Exception as ex:  # the row access raised
        return {"e": type(ex).__name__}


def handed_out(r, c, res):
    """phase 6 (aliasing of handed-out data): the list / dict returned by row.copy() is the caller's, like `list(l)` / `dict(d)` of the eager row:
    overwriting its first entry and adding one must not change what the row answers.  -> res, or a marker value when the row changed"""
    if type(r) in (list, tuple, dict):
        return res
    try:
        if isinstance(c, list):
            if c:
                c[0] = "~mut0"
            c.append("~mut")
        else:
            for k in list(c)[:1]:
                c[k] = "~mut0"
            c["~mut"] = "~mut"
    except Exception as ex:
        return ["copy-cannot-be-modified", type(ex).__name__]
    c2 = r.copy()
    again = sort_pairs([[canon_key(k), canon_val(v)] for k, v in c2.items()]) if isinstance(c2, dict) else [canon_val(v) for v in c2]
    if again != res:
        return ["row-changed-by-mutating-its-copy", res, again]
    return res


def take_n(row, n):
    """`next()` n times on a fresh `iter(row)`, then the iterator is abandoned (dropped un-exhausted: generators get GeneratorExit)"""
    it = iter(row)
    xs = []
    for _ in range(n):
        try:
            xs.append(next(it))
        except StopIteration:
            break
    del it
    return xs


WALK_MAX = 12


def real_walk(row):
    """[take n for n = 0 .. len+1], each on a fresh iterator that is abandoned afterwards: {"vals":[...], "err": class name | None}
    (model: DRow.takeN = pull n stream; theorems partial_iteration, takeN_prefix, abandoned_iteration)"""
    out = []
    for n in range(WALK_MAX + 2):
        it = None
        xs = []
        err = None
        try:
            it = iter(row)
            for _ in range(n):
                try:
                    xs.append(canon_val(next(it)))
                except StopIteration:
                    break
        except Exception as ex:
            err = type(ex).__name__
        del it
        out.append({"vals": xs, "err": err})
        if err is None and len(xs) < n:
            break           # exhausted: one entry beyond the end was recorded
    return out


def real_walks(row):
    o = {"row": real_walk(row)}
    try:
        f = row.feats
    except Exception:
        f = None
    if f is not None:
        o["feats"] = real_walk(f)
    return o


def real_probe(row, kind):
    """`headers` / `missing` (dense) or `_inv` / `missing` (sparse) of the row seen through d = 0..3 further wrapping views, each put on by a fresh
    `EncodeRows({})` (an EncodeDense with identity encoders / an EncodeSparse without encoders): attribute forwarding through chains of `__getattr__`
    (model: probeD / probeS, theorems probe_depth_independent, forwarding_depth_independent)"""
    import coba.pipes.rows as R
    out = []
    w = row
    for d in range(4):
        if d > 0:
            try:
                w = next(iter(R.EncodeRows({}).filter([w])))
            except Exception as ex:
                out.append({"wrap_err": type(ex).__name__})
                break
        o = {}
        try:
            m = w.missing
            o["missing"] = {"v": bool(m)} if isinstance(m, bool) else {"v": ["not-a-bool", repr(m)[:40]]}
        except Exception:
            o["missing"] = {"e": 1}
        if kind == "dense":
            try:
                o["headers"] = val(sort_pairs([[canon_key(k), i] for k, i in dict(w.headers).items()]))
            except Exception:
                o["headers"] = {"e": 1}
            try:
                o["len"] = len(w)
            except Exception as ex:
                o["len"] = type(ex).__name__
        else:
            try:
                inv = getattr(w, "_inv", None) or {}
                o["inv"] = sort_pairs([[canon_key(k), canon_key(n)] for k, n in dict(inv).items()])
            except Exception as ex:
                o["inv"] = ["raises", type(ex).__name__]
        out.append(o)
    return out


TABLE_KEYS = ("kind", "base", "rows", "ri", "acc", "perm", "nonuniform", "nested", "touch")


def tables_of(case):
    """the tables of a case as single-table cases: the main one, then `others`; all share the filter objects of `stages`;
    a table may have stages of its own applied first by fresh filter objects (`pre`); t["stages"] = pre + shared"""
    out = []
    for t in [case] + list(case.get("others") or []):
        pre = list(t.get("pre") or [])
        out.append(dict({k: t[k] for k in TABLE_KEYS if k in t}, stages=pre + list(case["stages"]), pre=pre, shared=list(case["stages"])))
    return out


def run_real_multi(case):
    """the SAME filter objects (one set per copy) are applied to the tables one after the other; every table is
    observed on its own.  -> [(out, eager_table) per table]"""
    f1, f2 = make_filters(case["stages"]), make_filters(case["stages"])
    return [run_real(t, f1, f2) for t in tables_of(case)]


def run_real(case, f1=None, f2=None):
    """one table. -> {"pipe_err": name} | {"n": rows, "first": [results], "second": [results in original indexing], "again": [...]}
    f1 / f2: the filter objects to use for the first / second copy (fresh ones when not given)"""
    try:
        et = eager_table(case)
        eager_err = None
    except Undefined as u:
        et, eager_err = None, str(u)
    out = {"eager_err": eager_err}
    pre = case.get("pre") or []
    src1 = src2 = None
    try:
        src1 = base_rows(case)
        t1 = run_pipeline((make_filters(pre) + f1) if f1 is not None else make_filters(case["stages"]), src1)
    except Exception as ex:
        out["pipe_err"] = type(ex).__name__
        t1 = None
    try:
        src2 = base_rows(case)
        t2 = run_pipeline((make_filters(pre) + f2) if f2 is not None else make_filters(case["stages"]), src2)
    except Exception as ex:
        out["pipe_err"] = type(ex).__name__
        t2 = None
    out["_src"] = (src1, src2)
    if t1 is None or t2 is None:
        out["src_mutated"] = source_mutated(case, src1) or source_mutated(case, src2)
        out.pop("_src")
        return out, et
    out["n"] = len(t1)
    ri = case["ri"]
    if ri >= len(t1):
        out["no_row"] = True
        out["src_mutated"] = source_mutated(case, src1) or source_mutated(case, src2)
        out.pop("_src")
        return out, et
    e = et[ri] if (et is not None and ri < len(et)) else None
    r1, r2 = t1[ri], t2[ri]
    acc = case["acc"]
    touch = case.get("touch") or {}
    touch_rows(t1, ri, touch.get("first"))
    touch_rows(t2, ri, touch.get("second"))
    out["first"] = [real_access(r1, a, e) for a in acc]
    second = [None] * len(acc)
    for j in case.get("perm") or []:
        second[j] = real_access(r2, acc[j], e)
    out["second"] = second
    out["again"] = [real_access(r2, a, e) for a in acc]
    if case["kind"] == "dense" and not case.get("nested"):
        out["walk"] = real_walks(r2)
        out["after_walk"] = [real_access(r2, a, e) for a in acc]
    out["probe"] = real_probe(r2, case["kind"])
    out["src_mutated"] = source_mutated(case, src1) or source_mutated(case, src2)
    out.pop("_src")
    return out, et


def run_fork(case):
    """two pipelines forked from ONE table: the stages before the last one are run once, then the last stage of the case and the
    alternative last stage case["fork"]["stage"] (same filter class, other parameters) are applied by filter objects of their own to the
    very same row objects.  The rows of the two forks are compared pairwise with ==, in both directions (and their .feats when both
    forks end in LabelRows): lazy_a == lazy_b iff eager_a == eager_b.
    -> None (no fork) | {"skip": why} | {"pipe_err": name} | {"cmp": [{"i", "what", "exp", "ab", "ba"}]}"""
    fk = case.get("fork")
    if not fk or not case["stages"] or case.get("nonuniform") or case.get("nested"):
        return None
    t = tables_of(case)[0]
    stages = t["stages"]
    alt = fk["stage"]
    try:
        ea = eager_table(dict(t, stages=stages))
        eb = eager_table(dict(t, stages=stages[:-1] + [alt]))
    except Undefined as u:
        return {"skip": "eager-undefined"}
    if len(ea) != len(eb):
        return {"skip": "row-count"}
    try:
        mid = run_pipeline(make_filters(stages[:-1]), base_rows(t))
        ra = run_pipeline(make_filters(stages[-1:]), list(mid))
        rb = run_pipeline(make_filters([alt]), list(mid))
    except Exception as ex:
        return {"pipe_err": type(ex).__name__}
    if len(ra) != len(ea) or len(rb) != len(eb):
        return {"skip": "row-count"}
    both_label = stages[-1]["op"] == "label" and alt["op"] == "label"

    def cmp(x, y):
        try:
            return bool(x == y)
        except Exception as ex:
            return "raises " + type(ex).__name__
    out = []
    for i, (x, y, p, q) in enumerate(zip(ra, rb, ea, eb)):
        if has_err(p) or has_err(q):
            continue
        todo = [("row", x, y, p, q)]
        if both_label:
            try:
                todo.append(("feats", x.feats, y.feats, eager_feats(p), eager_feats(q)))
            except (Undefined, AttributeError):
                pass
        for what, a, b, pa, pb in todo:
            if has_err(pa) or has_err(pb):
                continue
            out.append({"i": i, "what": what, "exp": bool(eager_plain(pa) == eager_plain(pb)), "ab": cmp(a, b), "ba": cmp(b, a)})
    return {"cmp": out}


def fork_stage(rng, st):
    """the same filter class with other parameters (None: no variation for this stage)"""
    op = st["op"]
    if op == "drop" and st["cols"]:
        cols = list(st["cols"])
        how = rng.below(3)
        if how == 0 and len(cols) > 1:
            del cols[rng.below(len(cols))]
        elif how == 1:
            extra = rng.choice([0, 1, 2] if isinstance(cols[0], int) else ["a", "b", "c"])
            cols = cols + [extra] if extra not in cols else [c for c in cols if c != extra] or cols + [1 if extra != 1 else 0]
        else:
            j = rng.below(len(cols))
            c = cols[j]
            cols[j] = (c + 1 if c == 0 or rng.chance(0.5) else c - 1) if isinstance(c, int) else rng.choice([n for n in NAMES[:4] if n != c])
        if len(set(map(str, cols))) != len(cols) or cols == st["cols"]:
            return None
        return dict(st, cols=cols)
    if op == "encode":
        if "seq" in st and st["seq"]:
            seq = list(st["seq"])
            j = rng.below(len(seq))
            seq[j] = rng.choice([e for e in ENCS if e != seq[j]])
            return dict(st, seq=seq)
        if st.get("map"):
            m = [list(kv) for kv in st["map"]]
            j = rng.below(len(m))
            if len(m) > 1 and rng.chance(0.3):
                del m[j]
            else:
                m[j][1] = rng.choice([e for e in ENCS if e != m[j][1]])
            return dict(st, map=m)
        return None
    if op == "label":
        k = st["k"]
        if isinstance(k, int):
            return dict(st, k=k + 1 if k == 0 or rng.chance(0.5) else k - 1)
        return dict(st, k=rng.choice([n for n in NAMES[:4] if n != k]))
    if op == "head":
        if "names" in st and len(st["names"]) > 1:
            names = list(st["names"])
            i, j = rng.below(len(names)), rng.below(len(names))
            if i == j:
                return None
            names[i], names[j] = names[j], names[i]
            return dict(st, names=names)
        if st.get("map") and len(st["map"]) > 1:
            m = [list(kv) for kv in st["map"]]
            i, j = rng.below(len(m)), rng.below(len(m))
            if i == j:
                return None
            m[i][1], m[j][1] = m[j][1], m[i][1]
            return dict(st, map=m)
    return None


def source_snapshot(rows):
    """canonical form of the source containers behind the base rows (the plain lists / dicts themselves, or the list / dict a
    LazyDense / LazySparse holds or loads from), nested cells included"""
    return [canon_val(x) for x in (rows.sources or [])]


def source_mutated(case, src):
    """did running the pipeline / accessing rows change the source data (deep comparison with a fresh copy of it)?"""
    if src is None or case["base"]["wrap"] == "arff":
        return None
    try:
        before = source_snapshot(base_rows(case))
        after = source_snapshot(src)
    except Exception:
        return None
    for i, (b, a) in enumerate(zip(before, after)):
        if b is not None and a is not None and b != a:
            return "source row %d was %s and is now %s" % (i, json.dumps(b)[:200], json.dumps(a)[:200])
    return None


# ------------------------------------------------------------------ signatures of recorded classes
def label_pos(stages):
    for i, st in enumerate(stages):
        if st["op"] == "label":
            return i
    return None


def acc_name(acc):
    if acc["a"] == "clone":
        return acc["how"] + "." + acc_name(acc["sub"])
    if acc["a"] == "feats":
        return "feats." + acc_name(acc["sub"])
    if acc["a"] == "eq":
        return "eq-" + acc["o"]
    return acc["a"]


def touches_label_part(acc):
    return acc["a"] in ("feats", "label", "tipe")


def effective(st):
    """does the stage wrap / change the rows at all"""
    if st["op"] == "drop":
        return bool(st["cols"])
    if st["op"] == "enccat":
        return st.get("t") is not None
    return True


def leaf(acc):
    return leaf(acc["sub"]) if acc["a"] in ("feats", "clone") else acc


def strip(acc):
    """the access without its copy steps: a copy (copy.copy / copy.deepcopy / pickle round trip) of a row must be indistinguishable
    from the row, so the eager model, the Lean model and the classification see the plain access"""
    if acc["a"] == "clone":
        return strip(acc["sub"])
    if acc["a"] == "feats":
        return dict(acc, sub=strip(acc["sub"]))
    return acc


def known_sig(sig):
    return sig.endswith(":label-not-last") or open_sig(sig)


def leaf_how(acc):
    if acc["a"] == "clone":
        return acc["how"]
    return leaf_how(acc["sub"])


def has_clone(acc):
    return acc["a"] == "clone" or (acc["a"] == "feats" and has_clone(acc["sub"]))


def enccat_on_lazy(case):
    """an effective EncodeCatRows receives rows that are lazy views (not list/tuple/dict)"""
    lazy = case["base"]["wrap"] in ("lazy", "arff")
    for st in case["stages"]:
        if st["op"] == "enccat" and st.get("t") is not None:
            return lazy
        if effective(st):
            lazy = True
    return False


CLASS_COMPARED = ("pos", "name", "iter", "copy", "items", "keys", "len", "headers", "label", "tipe")      # accesses whose exception class is compared with the model


ARFF_QUOTE_SIG = "dense:arff-both-quote-kinds-after-unquoted-row"


def arff_quote_area(case):
    """recorded C13-F13: ArffLineReader._dense_simple tests its second quote kind against a stale local copy of the quote character, so a data
    line holding BOTH quote kinds that is loaded after a line without any quote is parsed with the single quote as csv quotechar.  Shape: a dense
    ARFF table with a line holding both quote kinds and a line holding none (which one is loaded first depends on the access order)."""
    if case["kind"] != "dense" or case["base"]["wrap"] != "arff":
        return False
    if not open_sig(ARFF_QUOTE_SIG):
        return False        # C13-F13 is repaired in /repo: failures in this shape are ordinary failures again (e.g. stale feats after a later wrapper = C13-F8)
    lines = [",".join(arff_token(c, case["base"].get("qs")) for c in r) for r in case["rows"]]
    return any('"' in l and "'" in l for l in lines) and any('"' not in l and "'" not in l for l in lines)


def areas(case, acc):
    """the recorded defect classes whose mechanism this access (acc=None: the table as a whole) goes through,
    decided from the shape of the case only; each entry is (signature, symptom predicate over (how, err, exp))"""
    kind = case["kind"]
    stages = case["stages"]
    ops = [st["op"] for st in stages]
    lp = label_pos(stages)
    out = []
    if arff_quote_area(case):
        out.append((ARFF_QUOTE_SIG, lambda how, err, exp: True))
    if acc is not None and lp is not None and touches_label_part(acc) and any(effective(st) for st in stages[lp + 1:]):
        # feats / label / tipe are forwarded unchanged through the later wrappers (recorded C13-F8/F9; the model forwards them too: no (A) suspension)
        out.append(("%s:label-not-last" % kind, lambda how, err, exp: True, lambda exp: False))
    if case.get("_order_hit"):
        out.append(("dense:header-map-order", lambda how, err, exp: True))
    if enccat_on_lazy(case):
        out.append(("%s:enccat-on-lazy-row" % kind, lambda how, err, exp: True))
    if kind == "dense":
        if acc is not None and acc["a"] == "feats" and acc["sub"]["a"] in ("name", "headers"):
            out.append(("dense:feats-header-map", lambda how, err, exp: True))
        eff = [st["op"] for st in stages if effective(st) and st["op"] not in ("label", "enccat")]   # EncodeCatRows without categoricals passes rows through
        if (acc is None and "encode" in ops) or (acc is not None and leaf(acc)["a"] == "name" and eff and eff[-1] == "encode"):
            # a by-name access reaches EncodeDense only when no later HeadRows / DropRows has already turned the name into a position
            out.append(("dense:name-through-EncodeDense", lambda how, err, exp: err == "TypeError"))
        if acc is not None and leaf(acc)["a"] == "headers" and "drop" in ops:
            out.append(("dense:headers-after-dropping-all-columns", lambda how, err, exp: how == "wrong" and exp.get("v") == [],
                        lambda exp: exp is None or "u" in exp or exp.get("v") == []))
    else:
        if acc is not None and leaf(acc)["a"] == "len" and case["base"]["wrap"] == "arff":
            out.append(("sparse:len-ignores-default-entries", lambda how, err, exp: how == "wrong"))
        if "encode" in ops:
            def later(how, err, exp):
                for i, st in enumerate(stages):
                    if st["op"] == "encode" and any(x["op"] in ("encode", "label") or (x["op"] == "drop" and x.get("pred")) for x in stages[i + 1:]):
                        return True
                return False
            out.append(("sparse:absent-key-through-EncodeSparse", later, lambda exp: exp is None or "u" in exp or later(None, None, None)))
    return out


def classify(case, acc, exp, got):
    """narrow signature of a (B) failure: the recorded defect classes are recognised by the shape of the case
    (which mechanism the access goes through) plus the symptom; everything else gets a signature naming
    kind / access / symptom / outermost stage.  acc is None for table-level failures (pipeline raised, row count)."""
    kind = case["kind"]
    err = got.get("e") if isinstance(got, dict) else None
    how = "raises" if err else ("no-raise" if (exp and "e" in exp) else "wrong")
    for a in areas(case, acc):
        if a[1](how, err, exp or {}):
            return a[0]
    if acc is None:
        return "%s:table:%s:last=%s" % (kind, how, last_wrapper(case))
    return "%s:%s:%s:last=%s" % (kind, acc_name(acc), how, last_wrapper(case))


def suspended(case, acc, exp=None):
    """(A) is not compared where an *open* recorded defect makes the unrepaired code differ from the model of the repaired code
    (exp = what the eager row gives for the access; None for the table as a whole)"""
    for a in areas(case, acc):
        if not open_sig(a[0]):
            continue
        if len(a) < 3 or a[2](exp):
            return True
    return False


def last_wrapper(case):
    """the outermost effective stage (what the observed object is)"""
    for st in reversed(case["stages"]):
        if st["op"] == "drop" and not st["cols"]:
            continue
        if st["op"] == "enccat" and st.get("t") is None:
            continue
        return st["op"]
    return "base-" + case["base"]["wrap"]


# ------------------------------------------------------------------ generator
NAMES = ["a", "b", "c", "d", "e", "f", "g"]
NUMS = ["0", "1", "2", "7", "-3", "10"]
WORDS = ["x", "y", "zz", "0", "1"]
LEVELS = [["p", "q"], ["p", "q", "r"], ["0", "1"], ["u", "v", "w", "x"]]
ARFF_LEVELS = [["p", "q"], ["p", "q", "r"], ["1", "2"], ["u", "v", "w", "x"], ["q", "p"], ["r", "p", "q"]]      # the same level set declared in another order is another attribute type
ENCS = ["id", "int", "str", "inc", "dbl"]


def gen_cell(rng, ctype, lv=None, allow_missing=True):
    if ctype == "numstr":
        if allow_missing and rng.chance(0.08):
            return rng.choice(["?", ""])
        return rng.choice(NUMS)
    if ctype == "int":
        return rng.choice([0, 0, 1, 2, -1, 5, 12])
    if ctype == "word":
        if allow_missing and rng.chance(0.06):
            return "?"
        return rng.choice(WORDS)
    if ctype.startswith("cat"):
        return {"cat": rng.choice(lv), "lv": list(lv)}
    if ctype == "none":
        return None if rng.chance(0.3) else rng.choice([0, 3])
    raise ValueError(ctype)


def enc_for(rng, ctype):
    if ctype == "numstr":
        return rng.wchoice([(5, "int"), (2, "id"), (2, "str"), (2, "dbl"), (1, "inc")])
    if ctype == "int":
        return rng.wchoice([(3, "inc"), (3, "dbl"), (2, "str"), (2, "id"), (2, "int")])
    if ctype == "flt":
        return rng.wchoice([(3, "inc"), (3, "dbl"), (2, "id"), (2, "int"), (2, "str")])
    if ctype == "word":
        return rng.wchoice([(3, "id"), (3, "dbl"), (2, "str"), (1, "int")])
    if ctype.startswith("cat"):
        return rng.wchoice([(5, "id"), (1, "str"), (1, "dbl")])
    return rng.wchoice([(4, "id"), (1, "inc")])


class C13(Property):
    id = "C13"
    prop_modules = ["CobaVerif.Props.C13"]
    quick_n = 5000
    thorough_n = 200000
    search_n = 3000
    case_timeout = 60
    workers = 8
    rule = ("random rectangular tables (1-4 rows, 1-5 columns; dense plain/tuple/LazyDense±loader±encoders±headers/ArffReader rows; sparse "
            "dict/LazySparse±loader±encoders±header maps/ArffReader rows), pipelines of 0-5 stages from HeadRows(list|mapping), "
            "EncodeRows(sequence|mapping by index/name), DropRows(columns by index/name, row predicate missing|cell==v), LabelRows(index|name), "
            "EncodeCatRows(onehot|onehot_tuple|string|None); 3-10 accesses (position incl. len and len+1, name, iter, len, keys, items, copy, "
            "headers, == same/reflected/lazy/perturbed/padded with 1-3 None cells/cut by 1-3 cells, label, tipe, feats.<access>, take n = next() n times on a fresh iterator that is then abandoned) on one row, the same accesses permuted and then repeated "
            "on a fresh copy, then every prefix length 0..len+1 of the dense row and of its feats is iterated on fresh abandoned iterators (compared with DRow.takeN and with the eager prefix) and the accesses are repeated once more; copies / key sets handed out by copy() / keys() are modified by the harness and the row re-read; "
            "the second run is "
            "on a fresh copy; in 45 % of the cases the SAME filter objects then process one or two further tables (the first table with columns permuted / "
            "one removed / one added, headers and base encoders moving with their column, or converted dense<->sparse), each judged against its own eager model and sent through the model's `session` in one request (theorem filter_stateless); 4 % of the multi-row dense tables are jagged and 30 % of the multi-row plain sparse tables under EncodeCatRows have a later dict with other keys / categoricals than the first (flag nonuniform: only the first-row model tableD1 / tableS1 is compared); 6 % of the cases are 2-3 dense tables that differ only in the header map (own HeadRows(list|mapping in dict/MappingProxyType/ChainMap/custom Mapping flavours), shared LabelRows, by-name access on feats), 5 % have cells that are lists/dicts holding categoricals under EncodeCatRows ((B) only); 25 % of the cases with stages carry a fork: the stages before the last run once, then the last stage and a variant of it (same filter class, other drop columns / encoders / label / header names) are applied to the SAME row objects and the rows (and .feats for two labels) of the two forks are compared pairwise with == in both directions: lazy_a == lazy_b iff eager_a == eager_b; every case compares its source data deeply before/after; 22 % of the accesses are made on a copy of the row taken at that point of the history (copy.copy / copy.deepcopy / pickle round trip; pickle is skipped where the object holds a lambda or closure), the copy must be indistinguishable from the eager row and the original unchanged; the model receives the copy steps as Acc.clone (theorems access_after_clone, clone_leaves_original); 6 % of the cases are dense ARFF tables with quoted cells (rows with double-quoted / single-quoted / both / no quoted cells) and 30 % of the ordinary multi-row cases read the sibling rows of the observed row first (ascending / descending, another order on the second copy): rows of one read share the line reader / filter closures; non-trivial = at least one stage or a lazy base, and at least 3 accesses with an eager value; distinct by canonical JSON")
    trusted_base = [
        "cells are small ints, decimal-integer strings, short words, '?', '', None and Categoricals; float() of ARFF numerics is modelled on "
        "integer literals only (an integer-valued float: equal to the int, str() gives 'N.0'; compared as an exact rational)",
        "dense tables: the driver runs the first-row model tableD1 (filter arguments from the first incoming row, as the code); the per-row theorems apply when "
        "uniformRun holds (theorem first_row_irrelevant; reported per case as `uniform`, part of hyp). Sparse tables likewise: tableS1 takes EncodeCatRows' keys and "
        "LabelRows' `_inv` from the first dict, uniformRunS / first_row_irrelevant_sparse; a table whose rows carry different header maps (different `_inv`) cannot be "
        "built through the readers and is covered by the Lean counterexample first_dict_counterexample only",
        "a copy of a row (copy.copy / copy.deepcopy / pickle) is the same model row (Acc.clone sub = sub on the same wrapper tree and cell state); that the real copies "
        "behave so is checked by (B)/(A) on every copied access",
        "feats / label of a row that was labelled and then wrapped again: the model forwards them unchanged like the code (stale values, recorded C13-F8/F9); "
        "(A) is compared there, (B) failures are matched to the two known entries",
        "sparse rows: the order in which EncodeSparse/LazySparse list their default ('not sparse') entries is a Python set order; the model fixes one order and the "
        "harness compares items()/copy() as finite maps",
        "ARFF text parsing itself (tokenising, dialect detection) belongs to C12; here ArffReader sees comma separated tokens, bare or quoted (round g)",
        "exception classes: (B) demands IndexError for a position at/after the end (as a list); (A) compares the class the code raises with the model's errD / errS "
        "on every access where both raise (theorems lazy_error_eq_eager_error(_sparse)); where the eager row has no value the class is compared with the model only",
        "phase 5: `missing` / `headers` / `_inv` seen through 1-3 further EncodeRows({}) views are compared with the model's probeD / probeS on every case ((A); `_inv` is "
        "private state: (A) only) and `headers` / `missing` must not depend on the depth ((B), theorems forwarding_depth_independent / probe_depth_independent); "
        "the __getattr__ guard and the per-class __eq__/__len__/__iter__/__getattr__ table are extracted from the source on every run (getattr_guard_extracted, protocol_table_extracted)",
        "sparse by-key access of an absent key: (B) demands KeyError like the eager dict (theorems sparse_get, lazy_error_eq_eager_error_sparse), except for a raw integer key "
        "of a row whose base carries a header map (hidden keys, sparse_get_counterexample)",
        "dense ARFF cells may be quoted (values holding blanks, commas, one quote kind); the text is a function of the cell (arff_token); other ARFF syntax stays with C12",
        "phase 6: iteration element by element is modelled (DRow.stream / pull / takeN: _enc_all, EncodeDense's zip generator, compress, DropOne's two chained islices over two "
        "iterations); next() n times on a fresh iterator that is then abandoned, n = 0..len+1, of the observed dense row and of its feats is compared with takeN on EVERY dense case "
        "((A), also where the eager table is undefined: the order in which a failing cell raises, with its class) and must be the first n eager cells ((B), theorems "
        "partial_iteration(_feats)); `take` accesses put such abandoned iterations into the access history (order monitors; abandoned_iteration). How CPython delivers GeneratorExit to "
        "an abandoned generator is not modelled (the model's iterator has no state beyond the load-once cell): that it leaves the row unchanged is what (B) checks",
        "phase 6: the list / dict returned by row.copy() and the set returned by keys() are modified by the harness right after they were handed out; the row must answer as before "
        "((B) marker value row-changed-by-mutating-...); the Lean model is value based, so there is no aliasing in it to prove anything about",
    ]
    assumptions = [
        "header names are distinct (ArffReader rejects duplicates; a duplicate name has no eager by-name meaning)",
        "negative positions are outside the property",
        "accesses for which the eager row has no value (unknown dense name, a cell whose encoder raises) are only compared with the model (A), "
        "except positions >= len (must raise IndexError) and absent sparse keys (must raise KeyError)",
        "EncodeRows is not generated after EncodeCatRows (str() of a tuple is not modelled)",
    ]
    partial_theorems = {
        "Coba.C13.feats_label_partial": "forced hypothesis: LabelRows is the last stage. feats/label/tipe are forwarded by __getattr__ to the "
                                        "LabelDense wrapper and ignore every stage applied afterwards (feats_label_counterexample, recorded C13-F8). "
                                        "The small repair fixes/C13-stale-feats-label.diff (stop forwarding feats/label/labeled) was proposed and NOT applied: "
                                        "SupervisedSimulation.read decides with hasattr(first,'label') between labelled rows and (X,Y) pairs, so a wrapped labelled row "
                                        "would silently be read as a pair, and forwarding is correct for wrappers that keep values/columns; a full repair needs "
                                        "its own feats/label with new index arithmetic in every wrapper class",
        "Coba.C13.feats_label_sparse_partial": "same forced hypothesis for sparse rows (feats_label_sparse_counterexample, recorded C13-F9)",
    }

    # -------------------------------------------------------------- translator step
    ROW_VIEW_BASES = ("Dense", "Dense_", "Sparse", "Sparse_")
    NOT_A_PIPELINE_VIEW = ("SparseDense",)      # coba/pipes/rows.py: a mutable dense view of a dict built by Densify, never by the row filters

    @staticmethod
    def getattr_guard(cls_node):
        """(operator, constant) of the guard `if attr <op> <const>: raise AttributeError(attr)` of the class's `__getattr__`, which must end in
        `return getattr(self._row, attr)`; anything else is reported as it is found (and then differs from the model's `forwardGuard`)"""
        import ast
        fn = next((f for f in cls_node.body if isinstance(f, ast.FunctionDef) and f.name == "__getattr__"), None)
        if fn is None:
            return ("NoGetattr", "")
        arg = fn.args.args[1].arg if len(fn.args.args) > 1 else "attr"
        last = fn.body[-1]
        fwd = (isinstance(last, ast.Return) and isinstance(last.value, ast.Call) and isinstance(last.value.func, ast.Name) and last.value.func.id == "getattr"
               and len(last.value.args) == 2 and ast.unparse(last.value.args[0]) == "self._row" and ast.unparse(last.value.args[1]) == arg)
        if not fwd:
            return ("NoForward", "")
        stmts = [st for st in fn.body[:-1] if not (isinstance(st, ast.Expr) and isinstance(st.value, ast.Constant))]    # docstrings aside
        if not stmts:
            return ("NoGuard", "")
        if len(stmts) != 1 or not isinstance(stmts[0], ast.If) or stmts[0].orelse or len(stmts[0].body) != 1 or not isinstance(stmts[0].body[0], ast.Raise):
            return ("Other", "statements")
        t = stmts[0].test
        if (isinstance(t, ast.Compare) and len(t.ops) == 1 and isinstance(t.ops[0], (ast.Eq, ast.NotEq)) and isinstance(t.left, ast.Constant)
                and isinstance(t.comparators[0], ast.Name)):
            t = ast.Compare(left=t.comparators[0], ops=t.ops, comparators=[t.left])      # `'_row' == attr`
        if (isinstance(t, ast.Compare) and len(t.ops) == 1 and isinstance(t.left, ast.Name) and t.left.id == arg
                and isinstance(t.comparators[0], ast.Constant) and isinstance(t.comparators[0].value, str)
                and all(ch.isascii() and (ch.isalnum() or ch == "_") for ch in t.comparators[0].value)):
            return (type(t.ops[0]).__name__, t.comparators[0].value)
        return ("Other", "".join(ch if (ch.isascii() and (ch.isalnum() or ch in "_[]:=. ")) else "?" for ch in ast.unparse(t))[:60])

    def pre_build(self):
        """regenerate lean/CobaVerif/Generated/C13Methods.lean from the CURRENT coba source: for every row-view class (the base classes
        Dense / Dense_ / Sparse / Sparse_ of coba/primitives.py and every class of coba/pipes/rows.py deriving from them) the public
        protocol it implements = the names of its methods / properties that are dunder or do not start with an underscore.
        Props/C13.lean proves (decide) that the union equals `coveredMethods`, the protocol the model's access language covers."""
        import ast
        from core import lean
        repo = os.environ.get("COBA_REPO", "/repo")
        notes = []
        guards = []
        try:
            classes = []
            for rel, pick in (("coba/primitives.py", lambda c, bases: c.name in self.ROW_VIEW_BASES),
                              ("coba/pipes/rows.py", lambda c, bases: any(b in self.ROW_VIEW_BASES for b in bases) and c.name not in self.NOT_A_PIPELINE_VIEW)):
                tree = ast.parse(open(os.path.join(repo, rel), encoding="utf-8").read())
                for node in tree.body:
                    if isinstance(node, ast.ClassDef):
                        bases = [b.id if isinstance(b, ast.Name) else getattr(b, "attr", "") for b in node.bases]
                        if pick(node, bases):
                            ms = []
                            for fn in node.body:
                                names = []
                                if isinstance(fn, (ast.FunctionDef, ast.AsyncFunctionDef)):
                                    names = [fn.name]
                                elif isinstance(fn, ast.Assign):     # `__hash__ = None`, `keys = …` style definitions
                                    names = [t.id for t in fn.targets if isinstance(t, ast.Name)]
                                for n in names:
                                    if n == "__slots__":
                                        continue            # a storage declaration, not part of the protocol
                                    if (n.startswith("__") and n.endswith("__")) or not n.startswith("_"):
                                        if n not in ms:
                                            ms.append(n)
                            classes.append((node.name, sorted(ms)))
                            if node.name in self.ROW_VIEW_BASES:
                                guards.append((node.name,) + self.getattr_guard(node))
            if not classes:
                raise LookupError("no row-view class found")
            for n, ms in classes:
                for m in ms:
                    if not all(ch.isascii() and (ch.isalnum() or ch == "_") for ch in m + n):
                        raise ValueError("unexpected name %r" % m)
            union = sorted(set(m for _, ms in classes for m in ms))
            lst = lambda xs: "[%s]" % ", ".join('"%s"' % x for x in xs)
            body = ("-- GENERATED by harness/props/c13.py (pre_build) from coba/primitives.py and coba/pipes/rows.py on every run; do not edit.\n"
                    "namespace Coba.C13.Generated\n"
                    "/-- per row-view class: the public methods / properties it defines -/\n"
                    "def rowViewClasses : List (String × List String) :=\n  [%s]\n"
                    "/-- their union, sorted -/\ndef rowViewMethods : List String :=\n  %s\n"
                    "def extracted : Bool := true\n"
                    "/-- per base class: the guard of `__getattr__` in front of `return getattr(self._row, attr)`: (class, comparison operator, constant) -/\n"
                    "def getattrGuards : List (String × String × String) :=\n  [%s]\n"
                    "/-- per concrete row-view class: defines `__eq__`, `__len__`, `__iter__`, `__getattr__` itself -/\n"
                    "def protocolTable : List (String × Bool × Bool × Bool × Bool) :=\n  [%s]\n"
                    "end Coba.C13.Generated\n"
                    % (",\n   ".join('("%s", %s)' % (n, lst(ms)) for n, ms in classes), lst(union),
                       ", ".join('("%s", "%s", "%s")' % g for g in guards),
                       ",\n   ".join('("%s", %s)' % (n, ", ".join("true" if m in ms else "false" for m in ("__eq__", "__len__", "__iter__", "__getattr__")))
                                      for n, ms in classes if n not in self.ROW_VIEW_BASES)))
            notes.append("__getattr__ guards: %s" % " ".join("%s:%s:%s" % g for g in guards))
            notes.append("row-view protocol extracted from %d classes: %s" % (len(classes), " ".join(union)))
        except Exception as e:
            body = ("-- GENERATED: the row-view classes could not be read (%s)\nnamespace Coba.C13.Generated\n"
                    "def rowViewClasses : List (String × List String) := []\ndef rowViewMethods : List String := []\n"
                    "def extracted : Bool := false\ndef getattrGuards : List (String × String × String) := []\n"
                    "def protocolTable : List (String × Bool × Bool × Bool × Bool) := []\nend Coba.C13.Generated\n" % str(e).replace("\n", " ")[:150])
            notes.append("row-view protocol could NOT be extracted (%s): the obligation methods_covered fails" % e)
        path = os.path.join(lean.LEAN_DIR, "CobaVerif", "Generated", "C13Methods.lean")
        old = open(path, encoding="utf-8").read() if os.path.exists(path) else None
        if old != body:
            os.makedirs(os.path.dirname(path), exist_ok=True)
            with open(path, "w", encoding="utf-8") as f:
                f.write(body)
        return notes

    # -------------------------------------------------------------- generation
    def gen_table(self, rng, kind, tier):
        ncols = rng.wchoice([(1, 1), (3, 2), (4, 3), (3, 4), (1, 5)])
        nrows = rng.wchoice([(3, 1), (4, 2), (2, 3), (1, 4)])
        wrap = rng.wchoice([(3, "plain"), (1, "tuple"), (4, "lazy"), (3, "arff")]) if kind == "dense" else rng.wchoice([(3, "plain"), (4, "lazy"), (3, "arff")])
        base = {"wrap": wrap}
        ctypes = []
        if wrap == "arff":
            if kind == "dense":
                ncols = max(ncols, 2)
            names = rng.sample(NAMES, ncols)
            cols = []
            for n in names:
                t = rng.wchoice([(4, "num"), (3, "str"), (4, "cat")])
                c = {"name": n, "t": t}
                if t == "cat":
                    c["lv"] = list(rng.choice(ARFF_LEVELS))
                cols.append(c)
            base["cols"] = cols
            rows = []
            for _ in range(nrows):
                cells = []
                for c in cols:
                    if c["t"] == "num":
                        cells.append(rng.choice(NUMS) if not rng.chance(0.1) else "?")
                    elif c["t"] == "str":
                        cells.append(rng.choice(["x", "y", "zz", "w1"]) if not rng.chance(0.1) else "?")
                    else:
                        cells.append(rng.choice(c["lv"]) if not rng.chance(0.07) else "?")
                if kind == "dense":
                    rows.append(cells)
                else:
                    keep = [i for i in range(ncols) if rng.chance(0.65)]
                    rows.append([[i, cells[i]] for i in keep])
            ctypes = [{"num": "flt", "str": "word", "cat": "cat"}[c["t"]] + (":%d" % (len(c["lv"]) + (kind == "sparse")) if c["t"] == "cat" else "") for c in cols]
            return base, rows, names, ctypes, {i: n for i, n in enumerate(names)}
        # plain / tuple / lazy
        lvs = [list(rng.choice(LEVELS)) for _ in range(ncols)]
        for j in range(ncols):
            t = rng.wchoice([(4, "numstr"), (3, "int"), (2, "word"), (2, "cat"), (1, "none")])
            ctypes.append(t if t != "cat" else "cat:%d" % len(lvs[j]))
        hdr_names = None
        keynames = None
        if wrap == "lazy":
            base["loader"] = rng.chance(0.6)
            if rng.chance(0.5):
                hdr_names = rng.sample(NAMES, ncols)
                base["hdr"] = hdr_names
        if kind == "dense":
            rows = [[gen_cell(rng, ctypes[j], lvs[j]) for j in range(ncols)] for _ in range(nrows)]
            if wrap == "lazy" and rng.chance(0.5):
                encs = []
                for j in range(ncols):
                    e = enc_for(rng, ctypes[j])
                    encs.append(e)
                base["enc"] = encs
                ctypes = [after_enc(t, e) for t, e in zip(ctypes, encs)]
            return base, rows, hdr_names, ctypes, None
        # sparse: keys are ints 0..n-1 (named through hdr when lazy+hdr) or strings
        if wrap == "lazy" and hdr_names is not None:
            keys = list(range(ncols))
        else:
            keys = list(range(ncols)) if rng.chance(0.4) else rng.sample(NAMES, ncols)
        rows = []
        for _ in range(nrows):
            keep = [j for j in range(ncols) if rng.chance(0.7)]
            keep = rng.shuffle(keep) if rng.chance(0.3) else keep
            rows.append([[keys[j], gen_cell(rng, ctypes[j], lvs[j])] for j in keep])
        if wrap == "lazy" and rng.chance(0.5):
            encs = []
            for j in range(ncols):
                if rng.chance(0.75):
                    e = enc_for(rng, ctypes[j])
                    encs.append([keys[j], e])
                    ctypes[j] = after_enc(ctypes[j], e)
            base["enc"] = encs
        ext = [hdr_names[j] if hdr_names is not None else keys[j] for j in range(ncols)]
        return base, rows, ext, ctypes, None

    def gen_stages(self, rng, kind, names, ctypes, ncols, wf, lazy_has_missing, raw_keys=None):
        """names: current external column names (dense: list or None; sparse: list of keys); ctypes per current column"""
        stages = []
        n = rng.wchoice([(1, 0), (4, 1), (4, 2), (3, 3), (2, 4), (1, 5)])
        labeled = False
        catted = False
        cur_names = list(names) if names is not None else None
        cur_types = list(ctypes)
        cur_raw = list(raw_keys) if raw_keys is not None else None     # sparse: the raw keys behind the current header names
        for si in range(n):
            if not cur_types:
                break
            ops = [(3, "head"), (4, "encode"), (4, "drop"), (3, "label"), (2, "enccat")]
            if labeled:
                ops = [(w, o) for w, o in ops if o != "label"]
                if wf:
                    break
            if catted:
                ops = [(w, o) for w, o in ops if o not in ("encode", "enccat")]
            op = rng.wchoice(ops)
            k = len(cur_types)
            if op == "head":
                new = rng.sample(NAMES, k) if k <= len(NAMES) else rng.sample(NAMES + ["h%d" % i for i in range(k)], k)
                if kind == "dense":
                    r_ = rng.below(100)
                    if r_ < 22:
                        # a Mapping in another order than the columns and / or naming only some of them
                        cols_ = rng.shuffle(list(range(k)))
                        if rng.chance(0.4) and k > 1:
                            cols_ = cols_[:rng.randint(1, k - 1)]
                        pairs = [[new[i], c] for i, c in enumerate(cols_)]
                        stages.append({"op": "head", "map": pairs, "flavour": rng.wchoice([(3, None), (2, "proxy"), (2, "chain"), (2, "custom")])})
                        nn = [None] * k
                        for nm_, c in pairs:
                            nn[c] = nm_
                        new = nn
                    elif r_ < 30 and k > 1:
                        short = new[:rng.randint(1, k - 1)]     # HeadRows(list) naming only the first columns
                        stages.append({"op": "head", "names": short})
                        new = short + [None] * (k - len(short))
                    elif r_ < 50:
                        pairs = [[new[i], i] for i in range(k)]
                        stages.append({"op": "head", "map": pairs, "flavour": rng.wchoice([(3, None), (2, "proxy"), (2, "chain"), (2, "custom")])})
                    else:
                        stages.append({"op": "head", "names": new})
                else:
                    keys = cur_names
                    if all(isinstance(x, int) for x in keys) and sorted(keys) == list(range(k)) and rng.chance(0.5):
                        byidx = [None] * k
                        for j, key in enumerate(keys):
                            byidx[key] = new[j]
                        stages.append({"op": "head", "names": byidx})
                    else:
                        pairs = [[new[j], keys[j]] for j in range(k)]
                        stages.append({"op": "head", "map": rng.shuffle(pairs), "flavour": rng.wchoice([(3, None), (2, "proxy"), (2, "chain"), (2, "custom")])})
                    cur_raw = list(keys)
                cur_names = new
            elif op == "encode":
                encs = [enc_for(rng, t) for t in cur_types]
                if kind == "dense":
                    if rng.chance(0.5):
                        stages.append({"op": "encode", "seq": encs})
                        used = list(range(k))
                    else:
                        used = [j for j in range(k) if rng.chance(0.6)]
                        pairs = []
                        for j in used:
                            key = cur_names[j] if (cur_names is not None and cur_names[j] is not None and rng.chance(0.6)) else j
                            pairs.append([key, encs[j]])
                        stages.append({"op": "encode", "map": rng.shuffle(pairs)})
                else:
                    keys = cur_names
                    if all(isinstance(x, int) for x in keys) and sorted(keys) == list(range(k)) and rng.chance(0.3):
                        byidx = [None] * k
                        for j, key in enumerate(keys):
                            byidx[key] = encs[j]
                        stages.append({"op": "encode", "seq": byidx})
                        used = list(range(k))
                    else:
                        used = [j for j in range(k) if rng.chance(0.7)]
                        stages.append({"op": "encode", "map": rng.shuffle([[keys[j], encs[j]] for j in used])})
                for j in used:
                    cur_types[j] = after_enc(cur_types[j], encs[j])
            elif op == "drop":
                cols = []
                dropped = []
                if rng.chance(0.8):
                    for j in range(k):
                        if rng.chance(0.3):
                            dropped.append(j)
                    if len(dropped) == k and not rng.chance(0.1):
                        dropped = dropped[1:]
                    for j in dropped:
                        if kind == "dense":
                            cols.append(cur_names[j] if (cur_names is not None and cur_names[j] is not None and rng.chance(0.5)) else j)
                        else:
                            cols.append(cur_names[j])
                    if rng.chance(0.1):
                        cols.append(rng.choice(["nope", 9]))
                pred = None
                r = rng.below(10)
                if r < 2 and lazy_has_missing and not catted:
                    pred = {"p": "missing"}
                elif r < 5:
                    j = rng.below(k)
                    key = cur_names[j] if (cur_names is not None and cur_names[j] is not None and (kind == "sparse" or rng.chance(0.5))) else j
                    pred = {"p": "eq", "k": key, "v": self.sample_value(rng, cur_types[j])}
                stages.append({"op": "drop", "cols": rng.shuffle(cols), "pred": pred})
                if cur_raw is not None:
                    cur_raw = [x for j, x in enumerate(cur_raw) if j not in dropped]
                if cur_names is not None:
                    cur_names = [x for j, x in enumerate(cur_names) if j not in dropped]
                cur_types = [x for j, x in enumerate(cur_types) if j not in dropped]
            elif op == "label":
                j = rng.below(k)
                if kind == "dense":
                    key = cur_names[j] if (cur_names is not None and cur_names[j] is not None and rng.chance(0.5)) else j
                else:
                    key = cur_names[j] if not rng.chance(0.1) else "lbl"
                    if cur_raw is not None and isinstance(cur_raw[j], int) and rng.chance(0.25):
                        key = cur_raw[j]        # LabelRows(int) on a header-mapped sparse table
                stages.append({"op": "label", "k": key, "t": rng.choice(["c", "r", None])})
                labeled = True
            elif op == "enccat":
                t = rng.wchoice([(3, "onehot"), (3, "onehot_tuple"), (3, "string"), (1, None)])
                stages.append({"op": "enccat", "t": t})
                if t is not None and any(x.startswith("cat") for x in cur_types):
                    catted = True
                    cur_raw = None
                    if kind == "dense":
                        cur_names = None
                        if t == "onehot":
                            nt = []
                            for x in cur_types:
                                nt += ["int"] * int(x[4:]) if x.startswith("cat") else [x]
                            cur_types = nt
                        else:
                            cur_types = [("tuple" if t == "onehot_tuple" else "word") if x.startswith("cat") else x for x in cur_types]
                    else:
                        cur_types = [("tuple" if t == "onehot_tuple" else "word") if x.startswith("cat") else x for x in cur_types]
        self._final_names = cur_names
        return stages

    def sample_value(self, rng, ctype):
        if ctype in ("numstr",):
            return rng.choice(NUMS)
        if ctype in ("int", "flt"):
            return rng.choice([0, 1, 2, 7, -3, 10, 4, 20])
        if ctype.startswith("cat"):
            return rng.choice(["p", "q", "0", "u"])
        if ctype == "word":
            return rng.choice(WORDS + ["xx", "00"])
        return rng.choice([0, None, 3])

    def gen_accesses(self, rng, kind, nmax, names_pool, labeled):
        acc = []
        n = rng.randint(3, 10)
        for _ in range(n):
            acc.append(self.gen_access(rng, kind, nmax, names_pool, labeled, True))
        return acc

    def gen_access(self, rng, kind, nmax, names_pool, labeled, top):
        a = self.gen_access_plain(rng, kind, nmax, names_pool, labeled, top)
        if rng.chance(0.22):
            # the access is made on a copy of the row taken at this point of the history
            a = {"a": "clone", "how": rng.wchoice([(4, "deepcopy"), (3, "copy"), (3, "pickle")]), "sub": a}
        return a

    def gen_access_plain(self, rng, kind, nmax, names_pool, labeled, top):
        ops = [(5, "pos"), (5, "name"), (3, "iter"), (3, "len"), (2, "copy"), (2, "headers"), (4, "eq"), (3, "take")]
        if kind == "sparse":
            ops = [(7, "name"), (3, "iter"), (3, "len"), (2, "copy"), (3, "keys"), (4, "items"), (4, "eq")]
        if labeled and top:
            ops += [(8, "feats"), (4, "label"), (1, "tipe")]
        a = rng.wchoice(ops)
        if a == "pos":
            return {"a": "pos", "i": rng.below(nmax + 2)}
        if a == "name":
            return {"a": "name", "k": rng.choice(names_pool)}
        if a == "eq":
            o = rng.wchoice([(3, "same"), (2, "refl"), (2, "lazy"), (4, "diff"), (2, "pad"), (2, "cut")])
            if o in LENGTH_EQ:
                return {"a": "eq", "o": o, "n": rng.randint(1, 3)}
            return {"a": "eq", "o": o, "h": rng.below(30)}
        if a == "feats":
            return {"a": "feats", "sub": self.gen_access(rng, kind, nmax, names_pool, False, False)}
        if a == "take":
            return {"a": "take", "n": rng.below(nmax + 2)}
        return {"a": a}

    def make_case(self, rng, tier, search=False, table=None):
        kind = rng.wchoice([(6, "dense"), (5, "sparse")]) if table is None else table[0]
        wf = not rng.chance(0.06)
        base, rows, names, ctypes, _ = self.gen_table(rng, kind, tier) if table is None else table[1]
        ncols = len(ctypes)
        lazy_has_missing = base["wrap"] in ("lazy", "arff")
        raw_keys = list(range(ncols)) if (kind == "sparse" and (base["wrap"] == "arff" or base.get("hdr") is not None)) else None
        stages = self.gen_stages(rng, kind, names, ctypes, ncols, wf, lazy_has_missing, raw_keys)
        if kind == "sparse" and any(st["op"] == "enccat" and st.get("t") for st in stages):
            # EncodeCatRows takes the categorical keys from the first dict and then indexes every dict with them
            # (a limitation on plain dicts too): give all rows the key set of the observed table's first row
            keys0 = [k for k, _ in rows[0]]
            for i in range(1, len(rows)):
                have = dict((k, c) for k, c in rows[i])
                donor = dict((k, c) for k, c in rows[0])
                rows[i] = [[k, have.get(k, donor[k])] for k in keys0]
        if any(st["op"] == "enccat" and st.get("t") for st in stages):
            # EncodeCatRows decides from the first row which columns are categorical: keep categorical columns free of missing values
            for r in rows:
                for j, c in enumerate(r):
                    cell = c if kind == "dense" else c[1]
                    if base["wrap"] == "arff" and cell == "?":
                        key = j if kind == "dense" else c[0]
                        col = base["cols"][key]
                        if col["t"] == "cat":
                            if kind == "dense":
                                r[j] = col["lv"][0]
                            else:
                                c[1] = col["lv"][0]
        pool = set(NAMES[:4])
        for st in stages:
            if st["op"] == "head":
                pool.update(st.get("names") or [p[0] for p in st["map"]])
        if names:
            pool.update(names)
        if kind == "sparse":
            pool.update(range(ncols))
            pool.update(["lbl"])
            for st in stages:
                if st["op"] == "enccat" and st.get("t") == "onehot":
                    pool.update("%s_%d" % (k, i) for k in list(pool) for i in range(2))
        final = [x for x in (self._final_names or []) if x is not None]
        labeled = any(st["op"] == "label" for st in stages)
        nmax = ncols if not any(st["op"] == "enccat" and st.get("t") == "onehot" for st in stages) else ncols + 4
        acc = self.gen_accesses(rng, kind, nmax, sorted(pool, key=str), labeled)
        if final:
            # most by-name accesses go to names the final table really has
            def retarget(a):
                if a["a"] == "name" and rng.chance(0.75):
                    a["k"] = rng.choice(final)
                elif a["a"] in ("feats", "clone"):
                    retarget(a["sub"])
            for a in acc:
                retarget(a)
        case = {"kind": kind, "base": base, "rows": rows, "stages": stages, "ri": rng.below(len(rows)) if rng.chance(0.8) else 0,
                "acc": acc, "perm": rng.shuffle(list(range(len(acc))))}
        return case

    # -------------------------------------------------------------- further tables for the same filter objects
    def derive_table(self, rng, case):
        """another table for the same stages: the main table with its columns permuted / one removed / one added
        (headers, base encoders and ARFF attributes move with their column), or converted dense <-> sparse"""
        import copy as _copy
        kind, base, rows = case["kind"], _copy.deepcopy(case["base"]), _copy.deepcopy(case["rows"])
        stages = case["stages"]
        has_enccat = any(st["op"] == "enccat" and st.get("t") for st in stages)
        mode = rng.wchoice([(5, "permute"), (2, "narrow"), (3, "widen"), (3, "convert"), (1, "same")])
        str_map = any(st["op"] == "head" and "map" in st and any(not isinstance(k, int) for _, k in st["map"]) for st in stages)
        if mode == "convert" and (has_enccat or (kind == "sparse" and str_map)):
            mode = "permute"    # EncodeCatRows' own limits on dicts / a name->name header mapping is not meaningful for a dense table
        used = set(base.get("hdr") or []) | set(c["name"] for c in base.get("cols") or [])
        if kind == "sparse":
            used |= set(k for r in rows for k, _ in r)
        for st in stages:
            if st["op"] == "head":
                used |= set(st.get("names") or [p[0] for p in st["map"]])
        fresh = [n for n in "abcdefghijklmnopqrstuvwxyz" if n not in used]
        newname = rng.choice(fresh[:6])
        if kind == "dense":
            n = len(rows[0]) if rows else 0
            names = base.get("hdr") if base.get("hdr") is not None else ([c["name"] for c in base["cols"]] if base["wrap"] == "arff" else None)
            if mode == "convert":
                keys = names if names is not None else list(range(n))
                nrows = [[[keys[j], r[j]] for j in range(n) if not (rng.chance(0.2) and n > 1)] for r in rows]
                t = {"kind": "sparse", "base": {"wrap": "plain"}, "rows": nrows}
            else:
                idx = list(range(n))
                if mode == "permute":
                    idx = rng.shuffle(idx)
                elif mode == "narrow" and n > (2 if base["wrap"] == "arff" else 1):
                    idx.pop(rng.below(n))
                elif mode == "widen" and n > 0:
                    idx.insert(rng.below(n + 1), -1 - rng.below(n))     # -1-c: a copy of column c under a new name
                src = lambda j: j if j >= 0 else -1 - j
                if base.get("hdr") is not None:
                    base["hdr"] = [base["hdr"][j] if j >= 0 else newname for j in idx]
                if base.get("enc"):
                    base["enc"] = [base["enc"][src(j)] for j in idx]
                if base["wrap"] == "arff":
                    base["cols"] = [dict(base["cols"][src(j)], name=(base["cols"][j]["name"] if j >= 0 else newname)) for j in idx]
                t = {"kind": "dense", "base": base, "rows": [[r[src(j)] for j in idx] for r in rows]}
        else:
            raw_int = base["wrap"] == "arff" or base.get("hdr") is not None
            if mode == "convert":
                if raw_int:
                    names = base.get("hdr") if base.get("hdr") is not None else [c["name"] for c in base["cols"]]
                    keys = list(range(len(names)))
                else:
                    keys, names = [], None
                    for r in rows:
                        for k, _ in r:
                            if k not in keys:
                                keys.append(k)
                    if keys and all(isinstance(k, str) for k in keys):
                        names = list(keys)
                if not keys:
                    mode = "same"
                else:
                    nrows = [[dict((k, c) for k, c in r).get(k, "0") for k in keys] for r in rows]
                    nb = {"wrap": "lazy", "loader": rng.chance(0.5), "hdr": names} if names is not None else {"wrap": "plain"}
                    t = {"kind": "dense", "base": nb, "rows": nrows}
            if mode != "convert":
                if raw_int:
                    n = len(base["hdr"]) if base.get("hdr") is not None else len(base["cols"])
                    idx = list(range(n))
                    if mode == "permute":
                        idx = rng.shuffle(idx)
                    elif mode == "narrow" and n > 1:
                        idx.pop(rng.below(n))
                    elif mode == "widen" and n > 0:
                        idx.insert(rng.below(n + 1), -1 - rng.below(n))
                    src = lambda j: j if j >= 0 else -1 - j
                    if base.get("hdr") is not None:
                        base["hdr"] = [base["hdr"][j] if j >= 0 else newname for j in idx]
                    if base["wrap"] == "arff":
                        base["cols"] = [dict(base["cols"][src(j)], name=(base["cols"][j]["name"] if j >= 0 else newname)) for j in idx]
                    if base.get("enc"):
                        old = dict((k, e) for k, e in base["enc"])
                        base["enc"] = [[new, old[src(j)]] for new, j in enumerate(idx) if src(j) in old]
                    nrows = []
                    for r in rows:
                        have = dict((k, c) for k, c in r)
                        nrows.append([[new, have[src(j)]] for new, j in enumerate(idx) if src(j) in have])
                    t = {"kind": "sparse", "base": base, "rows": nrows}
                else:
                    keys = []
                    for r in rows:
                        for k, _ in r:
                            if k not in keys:
                                keys.append(k)
                    if mode == "narrow" and len(keys) > 1:
                        gone = rng.choice(keys)
                        rows = [[p for p in r if p[0] != gone] for r in rows]
                        if base.get("enc"):
                            base["enc"] = [p for p in base["enc"] if p[0] != gone]
                    elif mode == "widen" and keys:
                        c = rng.choice(keys)
                        nk = (max(k for k in keys if isinstance(k, int)) + 1) if all(isinstance(k, int) for k in keys) else newname
                        rows = [r + [[nk, dict((k, v) for k, v in r)[c]]] if any(k == c for k, _ in r) else r for r in rows]
                    elif mode == "permute":
                        rows = [rng.shuffle(r) for r in reversed(rows)]
                    t = {"kind": "sparse", "base": base, "rows": rows}
        if mode == "same":
            t = {"kind": kind, "base": base, "rows": rows}
        # accesses of this table
        pool = set(NAMES[:4])
        for st in stages:
            if st["op"] == "head":
                pool.update(st.get("names") or [p[0] for p in st["map"]])
        b = t["base"]
        own = list(b.get("hdr") or []) + [c["name"] for c in b.get("cols") or []]
        if t["kind"] == "sparse":
            for r in t["rows"]:
                own += [k for k, _ in r]
            pool.update(range(4))
            pool.add("lbl")
        pool.update(own)
        width = max([len(r) for r in t["rows"]] + [1])
        labeled = any(st["op"] == "label" for st in stages)
        acc = self.gen_accesses(rng, t["kind"], width + (4 if has_enccat else 0), sorted(pool, key=str), labeled)
        final = [x for x in own if x is not None]
        if final and not any(st["op"] == "head" for st in stages):
            for a in acc:
                l = leaf(a)
                if l["a"] == "name" and rng.chance(0.6):
                    l["k"] = rng.choice(final)
        t["ri"] = rng.below(max(1, len(t["rows"])))
        t["acc"] = acc
        t["perm"] = rng.shuffle(list(range(len(acc))))
        return t

    # -------------------------------------------------------------- tables that differ only in their header map
    def gen_remap_case(self, rng):
        """dense tables with the same column names in the same dict order and the same label position, but different name -> column
        maps (HeadRows(list) vs HeadRows(mapping) in several Mapping flavours), each headed by filter objects of its own, then one shared
        LabelRows; by-name access on the row and on its feats"""
        n = rng.randint(3, 5)
        names = rng.sample(NAMES, n)
        lab = rng.below(n)
        flav = lambda: rng.wchoice([(3, None), (2, "proxy"), (2, "chain"), (2, "custom")])

        def table(perm, first):
            nrows = rng.randint(1, 3)
            rows = [["%s%d" % (rng.choice("xyz"), rng.below(10)) for _ in range(n)] for _ in range(nrows)]
            base = {"wrap": "plain"} if rng.chance(0.5) else {"wrap": "lazy", "loader": rng.chance(0.5)}
            if perm is None:
                pre = [{"op": "head", "names": list(names)}] if rng.chance(0.6) else [{"op": "head", "map": [[names[j], j] for j in range(n)], "flavour": flav()}]
            else:
                pre = [{"op": "head", "map": [[names[j], perm[j]] for j in range(n)], "flavour": flav()}]
            acc = []
            for _ in range(rng.randint(4, 8)):
                r = rng.below(10)
                nm = rng.choice(names)
                if r < 4:
                    acc.append({"a": "feats", "sub": {"a": "name", "k": nm}})
                elif r < 5:
                    acc.append({"a": "feats", "sub": {"a": "headers"}})
                elif r < 7:
                    acc.append({"a": "name", "k": nm})
                elif r < 8:
                    acc.append({"a": "headers"})
                elif r < 9:
                    acc.append({"a": "label"})
                else:
                    acc.append({"a": "feats", "sub": {"a": "iter"}})
            return {"kind": "dense", "base": base, "rows": rows, "pre": pre, "ri": rng.below(nrows), "acc": acc, "perm": rng.shuffle(list(range(len(acc))))}

        def perm_fixing(i):
            rest = [j for j in range(n) if j != i]
            sh = rng.shuffle(rest)
            p = list(range(n))
            for a, b in zip(rest, sh):
                p[a] = b
            return p
        stages = []
        if rng.chance(0.3):
            stages.append({"op": "encode", "seq": [rng.choice(["id", "dbl", "str"]) for _ in range(n)]})
        stages.append({"op": "label", "k": names[lab] if rng.chance(0.6) else lab, "t": rng.choice(["c", "r", None])})
        order = [None] + [perm_fixing(lab) for _ in range(rng.randint(1, 2))]
        order = rng.shuffle(order)
        tabs = [table(p, i == 0) for i, p in enumerate(order)]
        case = dict(tabs[0], stages=stages, others=tabs[1:])
        return case

    # -------------------------------------------------------------- rows whose cells are lists / dicts holding categoricals
    def gen_nested_case(self, rng):
        """EncodeCatRows one level down: cells that are lists or dicts with a Categorical inside; (B) only (nested cells are not in the
        Lean model); the source table is compared deeply before / after"""
        ncols = rng.randint(2, 4)
        shapes = []
        for j in range(ncols):
            shapes.append(rng.wchoice([(3, "int"), (2, "word"), (3, "list"), (2, "dict")]))
        if not any(x in ("list", "dict") for x in shapes):
            shapes[rng.below(ncols)] = rng.choice(["list", "dict"])
        lvs = [rng.choice([["p", "q"], ["p", "q", "r"]]) for _ in range(ncols)]
        inner = [rng.below(3) for _ in range(ncols)]

        def cell(j):
            sh = shapes[j]
            if sh == "int":
                return rng.choice([0, 1, 5, -2])
            if sh == "word":
                return rng.choice(WORDS)
            c = {"cat": rng.choice(lvs[j]), "lv": list(lvs[j])}
            if sh == "list":
                items = [rng.choice([0, 7, "x"]) for _ in range(inner[j])]
                pos = min(inner[j], 1)
                return {"list": items[:pos] + [c] + items[pos:]}
            c2 = {"cat": rng.choice(["p", "q"]), "lv": ["p", "q"]}
            return {"dict": [["u", c2], ["v", rng.choice([3, "y"])]][:1 + (inner[j] > 0)]}
        nrows = rng.randint(1, 3)
        rows = [[cell(j) for j in range(ncols)] for _ in range(nrows)]
        base = rng.wchoice([(3, {"wrap": "plain"}), (2, {"wrap": "tuple"}), (2, {"wrap": "lazy", "loader": rng.chance(0.5)})])
        stages = []
        if rng.chance(0.3):
            stages.append({"op": "head", "names": rng.sample(NAMES, ncols)})
        stages.append({"op": "enccat", "t": rng.choice(["onehot", "onehot_tuple", "string"])})
        acc = []
        for _ in range(rng.randint(3, 7)):
            a = rng.wchoice([(4, "pos"), (3, "iter"), (2, "copy"), (2, "len"), (2, "eq")])
            if a == "pos":
                acc.append({"a": "pos", "i": rng.below(ncols + 1)})
            elif a == "eq":
                acc.append({"a": "eq", "o": rng.choice(["same", "refl", "diff"]), "h": rng.below(30)})
            else:
                acc.append({"a": a})
        case = {"kind": "dense", "base": base, "rows": rows, "stages": stages, "ri": rng.below(nrows), "acc": acc,
                "perm": rng.shuffle(list(range(len(acc)))), "nested": True}
        if rng.chance(0.4):
            # a second table through the same EncodeCatRows object
            case["others"] = [{"kind": "dense", "base": dict(base), "rows": [[cell(j) for j in range(ncols)] for _ in range(rng.randint(1, 2))],
                               "ri": 0, "acc": list(acc), "perm": list(range(len(acc))), "nested": True}]
        return case

    def generate(self, rng, tier):
        case = self.generate0(rng, tier)
        if case.get("stages") and not case.get("nonuniform") and not case.get("nested") and rng.chance(0.25):
            # a second pipeline forked from the same table: same filter class at the top, other parameters; rows compared pairwise with ==
            alt = fork_stage(rng, case["stages"][-1])
            if alt is not None:
                case["fork"] = {"stage": alt}
        return case

    def gen_arffquote_case(self, rng, tier):
        """round g (seeded change gm1): dense ARFF rows with quoted cells.  The lazy rows of one read share ONE ArffLineReader whose csv dialect
        (quote character, delimiter, simple / flexible parser) is settled by whichever row is loaded first; every row must answer with the eager
        parse whatever the order in which the rows of the table are loaded.  Rows with double-quoted cells only, single-quoted only, both kinds,
        and none; the observed row is read after its siblings (ascending or descending) on one copy and before / in the other order on the second copy."""
        ncols = rng.wchoice([(3, 2), (4, 3), (2, 4)])
        nrows = rng.wchoice([(4, 2), (4, 3), (2, 4)])
        names = rng.sample(NAMES, ncols)
        cols = []
        for k, n in enumerate(names):
            t = "str" if k < 2 else rng.wchoice([(5, "str"), (2, "num"), (2, "cat")])
            c = {"name": n, "t": t}
            if t == "cat":
                c["lv"] = list(rng.choice(ARFF_LEVELS))
            cols.append(c)
        cols = rng.shuffle(cols)
        names = [c["name"] for c in cols]
        pools = {"bare": ["x", "zz", "w1"], "blank": ["x y", "p q r", "u,v", "m, n"], "dq": ['c"d', 'say "hi"', 'a",b'], "sq": ["e'f", "it's", "o',k"]}
        rows = []
        for i in range(nrows):
            # the quote kinds of a row: none / default-quote only / the other kind only / both kinds
            style = rng.wchoice([(1, "bare"), (4, "one"), (2, "other"), (4, "both")])
            strs = [j for j, c in enumerate(cols) if c["t"] == "str"]
            cells = []
            for j, c in enumerate(cols):
                if c["t"] == "num":
                    cells.append(rng.choice(NUMS))
                elif c["t"] == "cat":
                    cells.append(rng.choice(c["lv"]))
                else:
                    cells.append(rng.choice(pools["bare"]))
            rows.append((style, strs, cells))
        qs = rng.choice(["d", "s"])
        same_alt = "sq" if qs == "d" else "dq"                                   # a value holding the OTHER quote char is written in the default quote
        out = []
        for style, strs, cells in rows:
            if style in ("one", "both"):
                cells[strs[0]] = rng.choice(pools["blank"] + pools[same_alt]) if rng.chance(0.7) else rng.choice(pools["blank"])
            if style == "other":
                cells[strs[0]] = rng.choice(pools["dq" if qs == "d" else "sq"])
            if style == "both":
                if len(strs) > 1:
                    cells[strs[1]] = rng.choice(pools["dq" if qs == "d" else "sq"])
                else:
                    cells[strs[0]] = rng.choice(pools["dq" if qs == "d" else "sq"])
            out.append(cells)
        base = {"wrap": "arff", "cols": cols, "qs": qs}
        ctypes = [{"num": "flt", "str": "word", "cat": "cat"}[c["t"]] + (":%d" % len(c["lv"]) if c["t"] == "cat" else "") for c in cols]
        table = ("dense", (base, out, names, ctypes, {i: n for i, n in enumerate(names)}))
        case = self.make_case(rng, tier, table=table)
        case["ri"] = rng.below(nrows)
        case["touch"] = rng.choice([{"first": "fwd", "second": None}, {"first": "fwd", "second": "rev"}, {"first": "rev", "second": "fwd"},
                                    {"first": "rev", "second": None}, {"first": None, "second": "fwd"}])
        return case

    def generate0(self, rng, tier):
        r = rng.below(100)
        if r < 6:
            return self.gen_remap_case(rng)
        if r < 11:
            return self.gen_nested_case(rng)
        if r < 17:
            return self.gen_arffquote_case(rng, tier)
        case = self.make_case(rng, tier)
        if len(case["rows"]) > 1 and rng.chance(0.3):
            # siblings first: the other rows of the table are read completely before the observed one (other order on the second copy)
            case["touch"] = rng.choice([{"first": "fwd", "second": None}, {"first": "rev", "second": "fwd"}, {"first": None, "second": "rev"}])
        if (case["kind"] == "dense" and case["base"]["wrap"] in ("plain", "tuple", "lazy") and len(case["rows"]) > 1
                and len(case["rows"][0]) > 1 and rng.chance(0.04)):
            # a jagged table: a later row is shorter than the first one. Only the first-row model (tableD1) is compared.
            j = 1 + rng.below(len(case["rows"]) - 1)
            case["rows"][j] = case["rows"][j][:-1]
            case["nonuniform"] = True
            case["ri"] = j if rng.chance(0.7) else case["ri"]
            return case
        if (case["kind"] == "sparse" and case["base"]["wrap"] == "plain" and len(case["rows"]) > 1 and case["rows"][0]
                and any(st["op"] == "enccat" and st.get("t") for st in case["stages"]) and rng.chance(0.3)):
            # a jagged sparse table: a later dict does not have the first dict's keys / categoricals. EncodeCatRows takes the categorical
            # keys from the first dict (theorem first_dict_counterexample): only the first-row model (tableS1) is compared.
            j = 1 + rng.below(len(case["rows"]) - 1)
            row = [list(kv) for kv in case["rows"][j]]
            cats = [i for i, kv in enumerate(row) if isinstance(kv[1], dict) and "cat" in kv[1]]
            plain_i = [i for i in range(len(row)) if i not in cats]
            how = rng.below(3)
            if how == 0 and row:
                del row[rng.below(len(row))]
            elif how == 1 and cats:
                row[rng.choice(cats)][1] = rng.choice(["x", 3, None])
            elif cats and plain_i:
                row[rng.choice(plain_i)][1] = dict(row[cats[0]][1])
            elif row:
                del row[rng.below(len(row))]
            case["rows"][j] = row
            case["nonuniform"] = True
            case["ri"] = j if rng.chance(0.7) else case["ri"]
            return case
        k = rng.wchoice([(5, 0), (4, 1), (2, 2)])
        if k and case["rows"] and case["stages"]:
            case["others"] = [self.derive_table(rng, case) for _ in range(k)]
        return case

    def search(self, rng, tier):
        return self.generate(rng, tier)

    # -------------------------------------------------------------- corpus
    def corpus(self):
        cs = []
        full_d = [{"a": "pos", "i": 0}, {"a": "pos", "i": 1}, {"a": "pos", "i": 2}, {"a": "pos", "i": 3}, {"a": "name", "k": "a"}, {"a": "name", "k": "b"},
                  {"a": "name", "k": "c"}, {"a": "iter"}, {"a": "len"}, {"a": "copy"}, {"a": "headers"}, {"a": "eq", "o": "same"},
                  {"a": "eq", "o": "refl"}, {"a": "eq", "o": "lazy"}, {"a": "eq", "o": "diff", "h": 2}]
        lab_d = [{"a": "label"}, {"a": "tipe"}] + [{"a": "feats", "sub": s} for s in full_d]
        full_s = [{"a": "name", "k": "a"}, {"a": "name", "k": "b"}, {"a": "name", "k": "c"}, {"a": "name", "k": 0}, {"a": "name", "k": 1}, {"a": "iter"},
                  {"a": "len"}, {"a": "keys"}, {"a": "items"}, {"a": "copy"}, {"a": "eq", "o": "same"}, {"a": "eq", "o": "refl"},
                  {"a": "eq", "o": "lazy"}, {"a": "eq", "o": "diff", "h": 1}]
        lab_s = [{"a": "label"}, {"a": "tipe"}] + [{"a": "feats", "sub": s} for s in full_s]

        def mk(kind, base, rows, stages, acc, ri=0):
            return {"kind": kind, "base": base, "rows": rows, "stages": stages, "ri": ri, "acc": acc, "perm": list(reversed(range(len(acc))))}
        plain = {"wrap": "plain"}
        head = {"op": "head", "names": ["a", "b", "c"]}
        # DESIGN §10 P24: by-name access after EncodeRows and on .feats
        cs.append(mk("dense", plain, [["1", "2", "3"]], [head, {"op": "encode", "seq": ["int", "int", "int"]}], full_d))
        cs.append(mk("dense", plain, [["1", "2", "3"]], [head, {"op": "label", "k": "b", "t": "c"}], full_d + lab_d))
        cs.append(mk("dense", plain, [["1", "2", "3"]], [head, {"op": "label", "k": 0, "t": "r"}], full_d + lab_d))
        cs.append(mk("dense", plain, [["1", "2", "3"]], [head, {"op": "encode", "map": [["a", "int"], [2, "dbl"]]}, {"op": "label", "k": "c", "t": "c"}], full_d + lab_d))
        cs.append(mk("dense", plain, [["1", "2", "3"], ["4", "5", "6"]], [head, {"op": "drop", "cols": ["b"], "pred": None}, {"op": "label", "k": "a", "t": None}], full_d + lab_d, 1))
        cs.append(mk("dense", plain, [["1", "2", "3"], ["4", "5", "6"]], [head, {"op": "drop", "cols": [0, "c"], "pred": {"p": "eq", "k": "b", "v": "2"}}], full_d))
        cs.append(mk("dense", plain, [[1, 2, 3]], [head, {"op": "drop", "cols": ["a", 1, 2], "pred": None}], full_d))
        cs.append(mk("dense", {"wrap": "lazy", "loader": True, "enc": ["int", "str", "int"], "hdr": ["a", "b", "c"]}, [["1", "?", ""]], [], full_d))
        cs.append(mk("dense", {"wrap": "lazy", "loader": True}, [[1, {"cat": "q", "lv": ["p", "q", "r"]}, 2]], [{"op": "enccat", "t": "onehot"}], full_d + [{"a": "pos", "i": 4}, {"a": "pos", "i": 5}]))
        cs.append(mk("dense", plain, [[1, {"cat": "q", "lv": ["p", "q", "r"]}, 2]], [head, {"op": "enccat", "t": "onehot_tuple"}], full_d))
        cs.append(mk("dense", {"wrap": "arff", "cols": [{"name": "a", "t": "num"}, {"name": "b", "t": "cat", "lv": ["p", "q"]}, {"name": "c", "t": "str"}]},
                     [["1", "p", "x"], ["?", "q", "?"]], [{"op": "drop", "cols": ["c"], "pred": {"p": "missing"}}, {"op": "label", "k": "b", "t": "c"}], full_d + lab_d))
        cs.append(mk("dense", {"wrap": "arff", "cols": [{"name": "a", "t": "num"}, {"name": "b", "t": "cat", "lv": ["p", "q"]}, {"name": "c", "t": "str"}]},
                     [["1", "p", "x"], ["?", "q", "?"]], [{"op": "label", "k": "a", "t": "r"}], full_d + lab_d, 1))
        # sparse
        cs.append(mk("sparse", plain, [[["a", "1"], ["b", "2"]]], [{"op": "encode", "map": [["a", "int"], ["c", "str"]]}], full_s))
        cs.append(mk("sparse", plain, [[[0, "1"], [1, "2"]]], [{"op": "head", "names": ["a", "b", "c"]}, {"op": "drop", "cols": ["b"], "pred": None}, {"op": "label", "k": "c", "t": "c"}], full_s + lab_s))
        cs.append(mk("sparse", {"wrap": "lazy", "loader": True, "enc": [[0, "int"], [1, "str"]], "hdr": ["a", "b", "c"]}, [[[0, "1"], [2, "?"]]], [{"op": "label", "k": "a", "t": "r"}], full_s + lab_s))
        cs.append(mk("sparse", {"wrap": "arff", "cols": [{"name": "a", "t": "num"}, {"name": "b", "t": "cat", "lv": ["p", "q"]}, {"name": "c", "t": "str"}]},
                     [[[0, "1"]], [[1, "q"], [2, "x"]]], [{"op": "label", "k": "b", "t": "c"}], full_s + lab_s))
        cs.append(mk("sparse", {"wrap": "arff", "cols": [{"name": "a", "t": "num"}, {"name": "b", "t": "cat", "lv": ["p", "q"]}, {"name": "c", "t": "str"}]},
                     [[[0, "1"]], [[1, "q"], [2, "x"]]], [{"op": "drop", "cols": ["a"], "pred": {"p": "missing"}}], full_s, 1))
        cs.append(mk("sparse", plain, [[["a", {"cat": "q", "lv": ["p", "q"]}], ["b", 2]]], [{"op": "enccat", "t": "onehot"}], full_s + [{"a": "name", "k": "a_1"}]))
        cs.append(mk("sparse", {"wrap": "lazy", "loader": False}, [[["a", {"cat": "q", "lv": ["p", "q"]}], ["b", 2]]], [{"op": "enccat", "t": "string"}], full_s))
        # one set of filter objects, several tables (filters must carry nothing from one filter() call to the next)
        def tab(kind, base, rows, acc, ri=0):
            return {"kind": kind, "base": base, "rows": rows, "ri": ri, "acc": acc, "perm": list(reversed(range(len(acc))))}
        nsx = [{"a": "name", "k": "n"}, {"a": "name", "k": "s"}, {"a": "name", "k": "x"}, {"a": "pos", "i": 0}, {"a": "pos", "i": 1}, {"a": "pos", "i": 2}, {"a": "iter"}, {"a": "len"}, {"a": "headers"}, {"a": "eq", "o": "same"}]
        c = mk("dense", {"wrap": "lazy", "loader": False, "hdr": ["n", "s", "x"]}, [["1", "u", "2"], ["3", "v", "4"]], [{"op": "encode", "map": [["n", "int"], ["x", "int"]]}], nsx)
        c["others"] = [tab("dense", {"wrap": "lazy", "loader": False, "hdr": ["s", "x", "n"]}, [["w", "6", "7"], ["z", "8", "9"]], nsx, 1),
                       tab("dense", {"wrap": "lazy", "loader": True, "hdr": ["x", "n"]}, [["5", "6"]], nsx)]
        cs.append(c)
        c = mk("dense", plain, [["1", "a"]], [{"op": "encode", "map": [[0, "int"], [3, "int"]]}], full_d)
        c["others"] = [tab("dense", plain, [["2", "b", "c", "5"]], full_d + [{"a": "pos", "i": 4}])]
        cs.append(c)
        c = mk("dense", {"wrap": "lazy", "loader": False, "hdr": ["a", "b", "c"]}, [["1", "2", "3"]], [{"op": "drop", "cols": ["a"], "pred": None}, {"op": "label", "k": "b", "t": "c"}], full_d + lab_d)
        c["others"] = [tab("dense", {"wrap": "lazy", "loader": False, "hdr": ["c", "b", "a", "d"]}, [["1", "2", "3", "4"]], full_d + lab_d),
                       tab("sparse", plain, [[["b", "2"], ["a", "1"], ["e", "5"]]], full_s + lab_s)]
        cs.append(c)
        c = mk("sparse", plain, [[[0, "1"], [1, "2"]]], [{"op": "head", "names": ["a", "b", "c"]}, {"op": "encode", "map": [["a", "int"], ["c", "str"]]}, {"op": "label", "k": "b", "t": "r"}], full_s + lab_s)
        c["others"] = [tab("sparse", plain, [[[2, "7"], [0, "1"]]], full_s + lab_s), tab("dense", plain, [["1", "2", "3"]], full_d + lab_d)]
        cs.append(c)
        c = mk("dense", plain, [[1, {"cat": "q", "lv": ["p", "q", "r"]}, 2]], [{"op": "enccat", "t": "onehot"}], full_d)
        c["others"] = [tab("dense", plain, [[{"cat": "p", "lv": ["p", "q"]}, 5]], full_d), tab("dense", plain, [[7, 8, 9, 10]], full_d)]
        cs.append(c)
        # copies of rows (copy.copy / copy.deepcopy / pickle round trip) taken inside the access history must be the row
        def cl(how, sub):
            return {"a": "clone", "how": how, "sub": sub}
        arffd = {"wrap": "arff", "cols": [{"name": "a", "t": "num"}, {"name": "b", "t": "cat", "lv": ["x", "y"]}, {"name": "c", "t": "str"}]}
        for ri in (0, 1, 2):
            cs.append(mk("dense", arffd, [["1", "x", "w1"], ["?", "y", "zz"], ["3", "?", "?"]], [],
                         [{"a": "pos", "i": 0}] + [cl(h, x) for h in ("deepcopy", "copy", "pickle") for x in ({"a": "iter"}, {"a": "pos", "i": 0}, {"a": "name", "k": "b"}, {"a": "len"}, {"a": "eq", "o": "same"}, {"a": "headers"})]
                         + [{"a": "iter"}], ri))
            cs.append(mk("dense", arffd, [["1", "x", "w1"], ["?", "y", "zz"], ["3", "?", "?"]], [{"op": "drop", "cols": ["c"], "pred": None}, {"op": "label", "k": "b", "t": "c"}],
                         [cl(h, x) for h in ("deepcopy", "copy") for x in ({"a": "iter"}, {"a": "label"}, {"a": "feats", "sub": {"a": "iter"}}, {"a": "feats", "sub": cl("deepcopy", {"a": "name", "k": "a"})})], ri))
        cs.append(mk("dense", {"wrap": "lazy", "loader": False, "enc": ["anum", "str"], "hdr": ["p", "q"]}, [["?", "7"]], [],
                     [cl("pickle", {"a": "iter"}), cl("pickle", {"a": "name", "k": "p"}), cl("deepcopy", {"a": "pos", "i": 1}), {"a": "iter"}]))
        cs.append(mk("dense", {"wrap": "lazy", "loader": True, "enc": ["dbl", "inc", "str"]}, [["a", 1, 2]], [{"op": "head", "names": ["x", "y", "z"]}, {"op": "encode", "seq": ["dbl", "inc", "dbl"]}],
                     [cl("pickle", {"a": "iter"}), cl("deepcopy", {"a": "iter"}), cl("copy", {"a": "name", "k": "z"}), {"a": "iter"}, cl("pickle", {"a": "iter"})]))
        arffs = {"wrap": "arff", "cols": [{"name": "a", "t": "num"}, {"name": "b", "t": "cat", "lv": ["p", "q"]}, {"name": "c", "t": "str"}]}
        cs.append(mk("sparse", arffs, [[[0, "?"], [2, "x"]], [[1, "q"]]], [{"op": "label", "k": "b", "t": "c"}],
                     [cl(h, x) for h in ("deepcopy", "copy", "pickle") for x in ({"a": "items"}, {"a": "name", "k": "a"}, {"a": "label"}, {"a": "feats", "sub": {"a": "items"}}, {"a": "len"})]))
        # recorded C13-F10: a header Mapping given in another order than the columns / naming only some of them, then
        # EncodeRows(mapping by name) and DropRows(by name)
        perm_map = {"op": "head", "map": [["g", 2], ["f", 0], ["e", 1]]}
        cs.append(mk("dense", plain, [["1", "b", "c"], ["2", "y", "z"]], [perm_map, {"op": "encode", "map": [["f", "int"], ["g", "dbl"]]}], full_d + [{"a": "name", "k": "f"}, {"a": "name", "k": "g"}, {"a": "name", "k": "e"}], 1))
        cs.append(mk("dense", plain, [["1", "b", "c"], ["2", "y", "z"]], [perm_map, {"op": "drop", "cols": ["e"], "pred": None}, {"op": "label", "k": "g", "t": "c"}], full_d + lab_d + [{"a": "name", "k": "f"}, {"a": "name", "k": "g"}]))
        cs.append(mk("dense", {"wrap": "lazy", "loader": True}, [["1", "b", "c"]], [{"op": "head", "map": [["z", 2], ["x", 0]], "flavour": "proxy"}, {"op": "encode", "map": [["z", "dbl"], [1, "dbl"]]}, {"op": "drop", "cols": ["x"], "pred": None}],
                     full_d + [{"a": "name", "k": "z"}, {"a": "name", "k": "x"}]))
        cs.append(mk("dense", plain, [["1", "2", "3"]], [{"op": "head", "names": ["a", "b"]}, {"op": "encode", "map": [["a", "int"], [2, "int"]]}, {"op": "drop", "cols": ["b"], "pred": None}], full_d))
        # tables that differ only in the header map (same names, same dict order, same label position, other columns); Mapping flavours
        xyz = [{"a": "feats", "sub": {"a": "name", "k": "x"}}, {"a": "feats", "sub": {"a": "name", "k": "y"}}, {"a": "feats", "sub": {"a": "headers"}},
               {"a": "name", "k": "x"}, {"a": "name", "k": "z"}, {"a": "headers"}, {"a": "label"}, {"a": "feats", "sub": {"a": "iter"}}]
        c = mk("dense", plain, [["10", "20", "30"]], [{"op": "label", "k": "z", "t": "c"}], xyz)
        c["pre"] = [{"op": "head", "names": ["x", "y", "z"]}]
        c["others"] = [dict(tab("dense", plain, [["10", "20", "30"]], xyz), pre=[{"op": "head", "map": [["x", 1], ["y", 0], ["z", 2]]}]),
                       dict(tab("dense", {"wrap": "lazy", "loader": True}, [["10", "20", "30"]], xyz), pre=[{"op": "head", "map": [["x", 1], ["y", 0], ["z", 2]], "flavour": "proxy"}])]
        cs.append(c)
        for fl in (None, "proxy", "chain", "custom"):
            cs.append(mk("sparse", plain, [[[3, "1"], [7, "2"]]], [{"op": "head", "map": [["a", 3], ["b", 7]], "flavour": fl}], full_s))
            cs.append(mk("dense", plain, [["1", "2", "3"]], [{"op": "head", "map": [["a", 2], ["b", 0], ["c", 1]], "flavour": fl}, {"op": "label", "k": "b", "t": "r"}], full_d + lab_d))
        # EncodeCatRows one level down: the source table must stay what it was
        ca = {"cat": "a", "lv": ["a", "b"]}
        cb = {"cat": "b", "lv": ["a", "b"]}
        for t in ("string", "onehot", "onehot_tuple"):
            nest = mk("dense", plain, [[1, {"list": [ca, 2]}], [3, {"list": [cb, 4]}]], [{"op": "enccat", "t": t}],
                      [{"a": "iter"}, {"a": "pos", "i": 1}, {"a": "copy"}, {"a": "eq", "o": "same"}], 1)
            nest["nested"] = True
            cs.append(nest)
            nest = mk("dense", {"wrap": "lazy", "loader": False}, [[{"dict": [["u", ca], ["v", 3]]}, "x"]], [{"op": "enccat", "t": t}], [{"a": "iter"}, {"a": "pos", "i": 0}])
            nest["nested"] = True
            cs.append(nest)
        # rows that do not look like the first row: only the first-row model (tableD1) is compared
        nu = mk("dense", plain, [[{"cat": "p", "lv": ["p", "q"]}, 1], [None, 2], [3, {"cat": "q", "lv": ["p", "q"]}]], [{"op": "enccat", "t": "string"}],
                [{"a": "iter"}, {"a": "pos", "i": 0}, {"a": "pos", "i": 1}, {"a": "len"}], 1)
        nu["nonuniform"] = True
        cs.append(nu)
        nu = mk("dense", plain, [[{"cat": "p", "lv": ["p", "q"]}, 1], [3, {"cat": "q", "lv": ["p", "q"]}]], [{"op": "enccat", "t": "onehot"}],
                [{"a": "iter"}, {"a": "len"}], 1)
        nu["nonuniform"] = True
        cs.append(nu)
        nu = mk("dense", plain, [[1, 2, 3], [4, 5]], [{"op": "drop", "cols": [2], "pred": None}], [{"a": "iter"}, {"a": "len"}, {"a": "pos", "i": 1}, {"a": "pos", "i": 2}], 1)
        nu["nonuniform"] = True
        cs.append(nu)
        nu = mk("dense", plain, [["1", "2", "3"], ["4", "5"]], [{"op": "encode", "map": [[0, "int"], [2, "int"]]}, {"op": "label", "k": 1, "t": "r"}],
                [{"a": "iter"}, {"a": "len"}, {"a": "pos", "i": 0}, {"a": "pos", "i": 2}, {"a": "label"}, {"a": "feats", "sub": {"a": "iter"}}], 1)
        nu["nonuniform"] = True
        cs.append(nu)
        nu = mk("dense", plain, [["1", "2"], ["4", "5", "6"]], [{"op": "head", "names": ["a", "b"]}, {"op": "drop", "cols": ["a"], "pred": None}],
                [{"a": "iter"}, {"a": "len"}, {"a": "name", "k": "b"}, {"a": "headers"}, {"a": "pos", "i": 1}], 1)
        nu["nonuniform"] = True
        cs.append(nu)
        # two pipelines forked from one table, rows compared pairwise with == (lazy view against lazy view of the same class over the same row object)
        def fork(c, alt):
            c["fork"] = {"stage": alt}
            return c
        cs.append(fork(mk("dense", plain, [["1", "2", "3"], ["4", "4", "4"]], [head, {"op": "drop", "cols": ["a"], "pred": None}], [{"a": "iter"}]), {"op": "drop", "cols": ["c"], "pred": None}))
        cs.append(fork(mk("dense", plain, [["1", "2", "3"], ["4", "4", "4"]], [{"op": "drop", "cols": [0], "pred": None}], [{"a": "iter"}]), {"op": "drop", "cols": [0, 1], "pred": None}))
        cs.append(fork(mk("dense", plain, [["1", "2", "3"], ["0", "0", "0"]], [{"op": "encode", "seq": ["int", "int", "int"]}], [{"a": "iter"}]), {"op": "encode", "seq": ["int", "str", "int"]}))
        cs.append(fork(mk("dense", {"wrap": "lazy", "loader": True}, [["1", "2", "3"], ["0", "0", "0"]], [{"op": "encode", "seq": ["int", "int", "int"]}], [{"a": "iter"}]), {"op": "encode", "seq": ["int", "dbl", "int"]}))
        cs.append(fork(mk("dense", plain, [[1, 2, 3], [5, 5, 5]], [{"op": "label", "k": 0, "t": "c"}], [{"a": "iter"}, {"a": "label"}]), {"op": "label", "k": 2, "t": "c"}))
        cs.append(fork(mk("dense", plain, [[1, 2, 3], [5, 5, 5]], [head, {"op": "label", "k": "a", "t": "c"}], [{"a": "iter"}, {"a": "label"}]), {"op": "label", "k": "b", "t": "c"}))
        cs.append(fork(mk("sparse", plain, [[["a", 1], ["b", 2]], [["a", 0], ["b", 0]]], [{"op": "drop", "cols": ["a"], "pred": None}], [{"a": "items"}]), {"op": "drop", "cols": ["b"], "pred": None}))
        cs.append(fork(mk("sparse", plain, [[["a", "1"], ["b", "2"]]], [{"op": "encode", "map": [["a", "int"], ["b", "int"]]}], [{"a": "items"}]), {"op": "encode", "map": [["a", "int"], ["b", "str"]]}))
        cs.append(fork(mk("sparse", plain, [[[0, 1], [1, 2]], [[0, 3], [1, 3]]], [{"op": "head", "names": ["x", "y"]}], [{"a": "items"}]), {"op": "head", "names": ["y", "x"]}))
        cs.append(fork(mk("sparse", plain, [[["a", 1], ["b", 2]], [["a", 3], ["b", 3]]], [{"op": "label", "k": "a", "t": "c"}], [{"a": "items"}, {"a": "label"}]), {"op": "label", "k": "b", "t": "c"}))
        # jagged sparse tables (theorem first_dict_counterexample): EncodeCatRows encodes the keys that are categorical in the FIRST dict
        ca, cb = {"cat": "p", "lv": ["p", "q"]}, {"cat": "q", "lv": ["p", "q"]}
        for t in ("string", "onehot", "onehot_tuple"):
            for jag in ([[["a", ca]], [["a", "x"], ["b", cb]]], [[["a", ca]], [["b", 1]]], [[["a", ca], ["b", 1]], [["a", 3], ["b", 2]]]):
                nu = mk("sparse", plain, jag, [{"op": "enccat", "t": t}], [{"a": "items"}, {"a": "keys"}, {"a": "len"}, {"a": "name", "k": "b"}], 1)
                nu["nonuniform"] = True
                cs.append(nu)
        # LabelRows(int) on header-mapped sparse rows: the label is translated to its header name
        cs.append(mk("sparse", {"wrap": "arff", "cols": [{"name": "a", "t": "num"}, {"name": "b", "t": "cat", "lv": ["p", "q"]}, {"name": "c", "t": "str"}]},
                     [[[0, "1"], [2, "x"]], [[1, "q"]]], [{"op": "label", "k": 1, "t": "c"}], full_s + lab_s))
        cs.append(mk("sparse", plain, [[[0, "1"], [1, "2"]]], [{"op": "head", "names": ["a", "b", "c"]}, {"op": "drop", "cols": ["a"], "pred": None}, {"op": "label", "k": 2, "t": "r"}], full_s + lab_s))
        # recorded C13-F5: an absent key read through two EncodeSparse wrappers
        cs.append(mk("sparse", plain, [[]], [{"op": "encode", "map": []}, {"op": "encode", "seq": ["str", "str"]}], [{"a": "name", "k": 1}, {"a": "items"}, {"a": "len"}]))
        cs.append(mk("sparse", plain, [[["a", "1"]]], [{"op": "encode", "map": [["a", "int"]]}, {"op": "label", "k": "y", "t": "r"}], [{"a": "label"}, {"a": "items"}, {"a": "name", "k": "y"}]))
        # witness of sparse_get_counterexample: a header-mapped LazySparse also answers to its raw integer key
        cs.append(mk("sparse", {"wrap": "lazy", "loader": False, "hdr": ["a"]}, [[[0, 7]]], [], [{"a": "name", "k": 0}, {"a": "name", "k": "a"}, {"a": "items"}, {"a": "keys"}, {"a": "len"}]))
        # witnesses of feats_label_counterexample / feats_label_sparse_counterexample (recorded C13-F8 / C13-F9)
        cs.append(mk("dense", plain, [[1, 2, 3]], [{"op": "label", "k": 1, "t": "c"}, {"op": "encode", "seq": ["inc", "inc", "inc"]}], [{"a": "iter"}, {"a": "label"}]))
        cs.append(mk("sparse", plain, [[[0, 1], [1, 2]]], [{"op": "label", "k": 1, "t": "c"}, {"op": "encode", "map": [[0, "inc"], [1, "inc"]]}], [{"a": "items"}, {"a": "label"}]))
        # round g (seeded change gm1): quoted ARFF cells, rows loaded in both orders -- the shared ArffLineReader settles its csv dialect on the row loaded first
        ss = [{"name": "a", "t": "str"}, {"name": "b", "t": "str"}]
        q_acc = [{"a": "pos", "i": 0}, {"a": "name", "k": "b"}, {"a": "iter"}, {"a": "eq", "o": "same"}, {"a": "len"}]
        for qs, r0, r1 in (("d", ["x y", "1"], ['c"d', "e'f"]), ("s", ["x y", "1"], ["e'f", 'c"d']), ("d", ["u,v", "zz"], ['a",b', "o',k"]),
                           ("d", ["e'f", "w1"], ['c"d', "x y"]), ("s", ['c"d', "w1"], ["e'f", "p q r"])):
            for ri, touch in ((1, {"first": "fwd", "second": None}), (1, {"first": None, "second": "fwd"}), (0, {"first": "rev", "second": None})):
                c = mk("dense", {"wrap": "arff", "cols": ss, "qs": qs}, [r0, r1], [], q_acc, ri)
                c["touch"] = touch
                cs.append(c)
        c = mk("dense", {"wrap": "arff", "cols": ss + [{"name": "c", "t": "num"}], "qs": "d"}, [["x y", "zz", "1"], ["w1", "x", "2"], ['c"d', "e'f", "3"]],
               [{"op": "drop", "cols": ["c"], "pred": None}, {"op": "label", "k": "b", "t": "c"}], q_acc + [{"a": "label"}, {"a": "feats", "sub": {"a": "iter"}}], 2)
        c["touch"] = {"first": "fwd", "second": "rev"}
        cs.append(c)
        # two nominal attributes with the same level set declared in different orders (seeded change fm1: a cache keyed by the level SET)
        two = [{"name": "a", "t": "cat", "lv": ["p", "q"]}, {"name": "b", "t": "cat", "lv": ["q", "p"]}, {"name": "c", "t": "cat", "lv": ["r", "p", "q"]}]
        cs.append(mk("dense", {"wrap": "arff", "cols": two}, [["p", "p", "p"], ["q", "q", "r"]], [], full_d, 1))
        cs.append(mk("dense", {"wrap": "arff", "cols": two}, [["p", "p", "p"], ["q", "q", "r"]], [{"op": "enccat", "t": "onehot"}], full_d + [{"a": "pos", "i": 5}, {"a": "pos", "i": 6}]))
        cs.append(mk("dense", {"wrap": "arff", "cols": two}, [["p", "p", "p"], ["q", "q", "r"]], [{"op": "label", "k": "b", "t": "c"}], full_d + lab_d))
        cs.append(mk("sparse", {"wrap": "arff", "cols": two}, [[[0, "p"], [1, "p"]], [[1, "q"], [2, "r"]]], [], full_s, 1))
        # label not last (forced hypothesis of feats_label)
        cs.append(mk("dense", plain, [["1", "2", "3"]], [head, {"op": "label", "k": "b", "t": "c"}, {"op": "encode", "seq": ["int", "int", "int"]}], full_d + lab_d))
        cs.append(mk("sparse", plain, [[["a", "1"], ["b", "2"]]], [{"op": "label", "k": "b", "t": "c"}, {"op": "encode", "map": [["a", "int"], ["b", "int"]]}], full_s + lab_s))
        cs += self.corpus_phase5(mk)
        cs += self.corpus_phase6(mk)
        return cs

    def corpus_phase6(self, mk):
        """deterministic family `walk` (phase 6, round i themes: read / abandon / read again / read a sibling; early consumer stop; GeneratorExit):
        partial iterations of every length interleaved with the other accesses, on rows whose generators are abandoned at a plain cell, at a missing
        cell (`'?'` / `''`: LazyDense._enc_all's bare except meets GeneratorExit there) and at a failing cell (raise_order_witness)"""
        cs = []
        plain = {"wrap": "plain"}
        head = {"op": "head", "names": ["a", "b", "c"]}
        T = lambda n: {"a": "take", "n": n}
        FT = lambda n: {"a": "feats", "sub": T(n)}
        hist = [T(1), T(2), {"a": "iter"}, T(1), {"a": "pos", "i": 2}, T(0), {"a": "len"}, T(3), {"a": "iter"}, {"a": "eq", "o": "same"}, T(2), T(4), {"a": "pos", "i": 0}, {"a": "copy"}]
        fhist = [FT(1), {"a": "label"}, FT(2), {"a": "feats", "sub": {"a": "iter"}}, FT(0), T(2), FT(1), {"a": "iter"}, FT(3), {"a": "feats", "sub": {"a": "eq", "o": "same"}}, T(1), {"a": "feats", "sub": {"a": "len"}}]
        arff3 = {"wrap": "arff", "cols": [{"name": "a", "t": "num"}, {"name": "b", "t": "cat", "lv": ["p", "q"]}, {"name": "c", "t": "str"}]}
        lazy3 = {"wrap": "lazy", "loader": True, "enc": ["int", "str", "int"], "hdr": ["a", "b", "c"]}
        lazyn = {"wrap": "lazy", "loader": True, "enc": ["inc", "dbl", "str"]}
        bases = [(arff3, [["4", "?", "x"], ["?", "q", "?"], ["1", "p", "y"]]), (lazy3, [["1", "", "?"], ["?", "x", "7"]]), (lazyn, [[1, 2, 3], [4, 5, 6]]),
                 (plain, [["1", "2", "3"], ["4", "5", "6"]]), ({"wrap": "lazy", "loader": True}, [[1, 2, 3], [4, 5, 6]])]
        views = [[], [{"op": "encode", "map": []}], [{"op": "drop", "cols": [1], "pred": None}], [{"op": "encode", "seq": ["id", "id", "id"]}, {"op": "drop", "cols": [0], "pred": None}],
                 [{"op": "drop", "cols": [2], "pred": None}, {"op": "encode", "map": []}]]
        for base, rows in bases:
            named = base is arff3 or base is lazy3
            for st in views:
                for ri in range(len(rows)):
                    c = mk("dense", base, rows, ([] if named or base is lazyn else [head]) + st, hist, ri)
                    c["touch"] = {"first": "fwd" if ri % 2 == 0 else None, "second": "rev"}
                    cs.append(c)
            for k in (0, 1, 2):
                for later in ([], [{"op": "encode", "map": []}]):
                    pre = [{"op": "drop", "cols": [1 if k != 1 else 0], "pred": None}] if later else []
                    kk = k if not pre else min(k, 1)
                    cs.append(mk("dense", base, rows, pre + [{"op": "label", "k": kk, "t": "c"}], fhist, len(rows) - 1))
        # a failing cell (the eager table is undefined: (A) against DRow.takeN only): the ORDER of raising
        bad = {"wrap": "lazy", "loader": False, "enc": ["int", "int", "int"]}
        for rows in ([["1", "x", "3"]], [["1", "2", "x"]], [["x", "2", "3"]]):
            cs.append(mk("dense", bad, rows, [{"op": "label", "k": 1, "t": "c"}], [FT(1), FT(2), {"a": "feats", "sub": {"a": "pos", "i": 0}}, FT(1), FT(3), T(1), T(2), T(3)]))
            cs.append(mk("dense", bad, rows, [{"op": "drop", "cols": [1], "pred": None}], [T(1), T(2), {"a": "pos", "i": 1}, {"a": "pos", "i": 0}, T(1), T(3), {"a": "iter"}]))
            cs.append(mk("dense", {"wrap": "plain"}, rows, [{"op": "encode", "seq": ["int", "int", "int"]}, {"op": "drop", "cols": [0], "pred": None}, {"op": "label", "k": 0, "t": None}],
                         [T(1), T(2), FT(1), FT(2), {"a": "pos", "i": 1}, T(0), {"a": "iter"}]))
        # jagged table: DropRows takes its selectors [True] from the one-column first row; compress stops after them and never pulls the failing third cell of row 1
        # (iter_vs_stream_short_selector_witness: the whole-list model `iter` raises there, the element-wise model follows the code)
        jag = mk("dense", bad, [["1"], ["1", "2", "x"]], [{"op": "drop", "cols": [5], "pred": None}], [T(1), T(2), T(5), {"a": "iter"}, {"a": "len"}, {"a": "pos", "i": 0}, T(1)], 1)
        jag["nonuniform"] = True
        cs.append(jag)
        for c in cs:
            c["family"] = "walk"
        return cs

    def corpus_phase5(self, mk):
        """deterministic families of phase 5 (round h themes): == against another length with None surplus, attribute forwarding through
        1, 2, 3 wrapping views, DropRows' row predicate on the given row"""
        cs = []
        plain = {"wrap": "plain"}
        head = {"op": "head", "names": ["a", "b", "c"]}
        # --- eq-length: rows whose trailing cells are None / missing, compared with the eager row cut by 1..3 cells and padded with 1..3 None
        eqs = [{"a": "eq", "o": "same"}] + [{"a": "eq", "o": o, "n": n} for o in ("cut", "pad") for n in (1, 2, 3)] + [{"a": "len"}, {"a": "iter"}]
        feqs = [{"a": "feats", "sub": a} for a in eqs]
        arff3 = {"wrap": "arff", "cols": [{"name": "a", "t": "num"}, {"name": "b", "t": "num"}, {"name": "c", "t": "str"}]}
        arff4 = {"wrap": "arff", "cols": [{"name": "a", "t": "num"}, {"name": "b", "t": "cat", "lv": ["p", "q"]}, {"name": "c", "t": "str"}, {"name": "d", "t": "num"}]}
        lazy3 = {"wrap": "lazy", "loader": True, "enc": ["int", "str", "int"], "hdr": ["a", "b", "c"]}
        wraps = [[], [{"op": "encode", "map": []}], [{"op": "drop", "cols": ["zz"], "pred": None}], [{"op": "encode", "seq": ["id", "id", "id"]}, {"op": "drop", "cols": [7], "pred": None}],
                 [{"op": "encode", "map": []}, {"op": "drop", "cols": ["zz"], "pred": None}, {"op": "encode", "map": []}]]
        for st in wraps:
            cs.append(mk("dense", arff3, [["4", "?", "?"], ["1", "2", "x"]], st, eqs))
            cs.append(mk("dense", lazy3, [["1", "?", ""]], st, eqs))
            cs.append(mk("dense", plain, [[1, None, None]], [head] + st, eqs))
            cs.append(mk("dense", {"wrap": "lazy", "loader": False}, [[4, None, None]], st, eqs))
        cs.append(mk("dense", arff4, [["4", "?", "?", "?"]], [{"op": "label", "k": 0, "t": "r"}], eqs + feqs))
        cs.append(mk("dense", arff4, [["4", "p", "?", "?"]], [{"op": "drop", "cols": ["b"], "pred": None}, {"op": "label", "k": "a", "t": None}], eqs + feqs))
        cs.append(mk("dense", plain, [[1, 2]], [{"op": "head", "names": ["a", "b"]}], eqs))
        cs.append(mk("dense", plain, [[None, None, None]], [{"op": "encode", "seq": ["id", "id", "id"]}], eqs))
        cs.append(mk("sparse", plain, [[["a", 1], ["b", None], ["c", None]]], [{"op": "encode", "map": []}], eqs + [{"a": "items"}]))
        cs.append(mk("sparse", {"wrap": "lazy", "loader": True}, [[["a", 1], ["b", None]]], [{"op": "drop", "cols": ["zz"], "pred": None}], eqs + [{"a": "items"}]))
        # --- forwarding depth: `_inv` (through LabelRows with an int label), `headers`, `missing` behind 1, 2, 3 wrapping views
        full_s = [{"a": "name", "k": "a"}, {"a": "name", "k": "b"}, {"a": "name", "k": "c"}, {"a": "name", "k": 2}, {"a": "iter"}, {"a": "len"}, {"a": "keys"}, {"a": "items"},
                  {"a": "label"}, {"a": "feats", "sub": {"a": "items"}}, {"a": "feats", "sub": {"a": "name", "k": "c"}}, {"a": "feats", "sub": {"a": "len"}}]
        full_d = [{"a": "headers"}, {"a": "name", "k": "a"}, {"a": "name", "k": "c"}, {"a": "iter"}, {"a": "len"}, {"a": "label"}, {"a": "feats", "sub": {"a": "headers"}},
                  {"a": "feats", "sub": {"a": "name", "k": "c"}}, {"a": "feats", "sub": {"a": "iter"}}]
        views_s = [{"op": "drop", "cols": ["a"], "pred": None}, {"op": "encode", "map": [["b", "id"]]}, {"op": "drop", "cols": ["zz"], "pred": None}]
        views_d = [{"op": "encode", "seq": ["id", "id", "id"]}, {"op": "encode", "map": [["b", "id"]]}, {"op": "encode", "map": []}]
        arffs = {"wrap": "arff", "cols": [{"name": "a", "t": "num"}, {"name": "b", "t": "num"}, {"name": "c", "t": "num"}]}
        for depth in (1, 2, 3):
            for lab in (2, 1):
                cs.append(mk("sparse", plain, [[[0, 5], [1, 6], [2, 7]], [[1, 8], [2, 9]]], [head] + views_s[:depth] + [{"op": "label", "k": lab, "t": "r"}], full_s, depth % 2))
                cs.append(mk("sparse", {"wrap": "lazy", "loader": True, "hdr": ["a", "b", "c"]}, [[[0, 5], [1, 6], [2, 7]]], views_s[:depth] + [{"op": "label", "k": lab, "t": "r"}], full_s))
                cs.append(mk("sparse", arffs, [[[0, "5"], [1, "6"], [2, "7"]], [[2, "9"]]], views_s[:depth] + [{"op": "label", "k": lab, "t": "r"}], full_s, depth % 2))
                cs.append(mk("dense", plain, [[5, 6, 7]], [head] + views_d[:depth] + [{"op": "label", "k": lab, "t": "r"}], full_d))
            cs.append(mk("dense", lazy3, [["1", "x", "3"]], views_d[:depth] + [{"op": "label", "k": "c", "t": None}], full_d))
            # `missing` read by a row predicate behind 1, 2, 3 views: the row with '?' goes, the other stays
            cs.append(mk("dense", arff3, [["1", "2", "x"], ["?", "2", "y"], ["3", "4", "z"]], views_d[:depth] + [{"op": "drop", "cols": [], "pred": {"p": "missing"}}], [{"a": "iter"}, {"a": "len"}, {"a": "headers"}], 1))
            cs.append(mk("sparse", arffs, [[[0, "5"]], [[1, "?"]], [[2, "7"]]], views_s[1:1 + depth] + [{"op": "drop", "cols": ["a"], "pred": {"p": "missing"}}], [{"a": "items"}, {"a": "len"}, {"a": "keys"}], 1))
        # --- drop-pred: DropRows with columns AND a row predicate reading a cell at / after the first dropped column, by a dropped name, by a dropped key
        acc_d = [{"a": "iter"}, {"a": "len"}, {"a": "pos", "i": 0}, {"a": "pos", "i": 1}, {"a": "pos", "i": 2}]
        rows3 = [[1, "x", 10], [2, "y", 20], [3, "x", 30]]
        for cols, k, v in (([0], 1, "x"), ([0], 2, 20), ([1], 1, "y"), ([0, 1], 2, 30), ([1], 2, 10), ([0], 0, 2)):
            for ri in (0, 1):
                cs.append(mk("dense", plain, rows3, [{"op": "drop", "cols": cols, "pred": {"p": "eq", "k": k, "v": v}}], acc_d, ri))
        for cols, k, v in ((["a"], "a", 2), (["a"], "b", "x"), (["b", 0], "b", "y"), (["a"], 1, "x"), (["c"], "c", 10)):
            cs.append(mk("dense", plain, rows3, [head, {"op": "drop", "cols": cols, "pred": {"p": "eq", "k": k, "v": v}}], acc_d + [{"a": "headers"}, {"a": "name", "k": "c"}], 0))
            cs.append(mk("dense", {"wrap": "lazy", "loader": True, "hdr": ["a", "b", "c"]}, rows3, [{"op": "drop", "cols": cols, "pred": {"p": "eq", "k": k, "v": v}}, {"op": "label", "k": 0, "t": None}],
                         acc_d + [{"a": "label"}, {"a": "feats", "sub": {"a": "iter"}}], 1))
        acc_s = [{"a": "items"}, {"a": "len"}, {"a": "keys"}, {"a": "name", "k": "b"}, {"a": "name", "k": "a"}]
        rows_s = [[["a", 1], ["b", "x"]], [["a", 2], ["b", "y"]], [["a", 1], ["b", "z"]]]
        for cols, k, v in ((["a"], "a", 1), (["b"], "b", "y"), (["a", "b"], "a", 2), (["a"], "b", "x")):
            for ri in (0, 1):
                cs.append(mk("sparse", plain, rows_s, [{"op": "drop", "cols": cols, "pred": {"p": "eq", "k": k, "v": v}}], acc_s, ri))
            cs.append(mk("sparse", {"wrap": "lazy", "loader": True}, rows_s, [{"op": "encode", "map": []}, {"op": "drop", "cols": cols, "pred": {"p": "eq", "k": k, "v": v}}], acc_s, 0))
        cs.append(mk("sparse", plain, [[[0, 1], [1, "x"]], [[0, 2], [1, "y"]]], [{"op": "head", "names": ["a", "b"]}, {"op": "drop", "cols": ["a"], "pred": {"p": "eq", "k": "a", "v": 1}}], acc_s, 0))
        return cs

    # -------------------------------------------------------------- evaluation
    def evaluate(self, case, driver):
        """every table of the case goes through the SAME filter objects, one table after the other, and is judged
        against its own eager model / its own model request (the *Rows filters must carry nothing from one filter() call to the next)"""
        hook = sys.unraisablehook
        sys.unraisablehook = lambda *a: None    # LazyDense._enc_all's bare `except` swallows GeneratorExit of abandoned iterations (stderr noise only)
        try:
            tabs = tables_of(case)
            runs = run_real_multi(case)
            outs = []
            answers = [None] * len(tabs)
            reqs = [None] * len(tabs)
            if driver is not None:
                # one request: the model's `session` sends the tables through one set of filter objects too (theorem filter_stateless)
                # copy steps go to the model as `Acc.clone` (theorems access_after_clone / clone_is_transparent: the model answers as without them)
                reqs = [dict(to_model(t, et, real.get("n")), pre=t["pre"]) for t, (real, et) in zip(tabs, runs)]
                if any(t.get("nested") for t in tabs):
                    answers, reqs = [None] * len(tabs), [None] * len(tabs)
                    driver = None
                else:
                    answers = driver.ask({"tables": reqs, "stages": case["stages"]})
            for idx, (t, (real, et)) in enumerate(zip(tabs, runs)):
                o = self.eval_table(t, real, et, driver, answers[idx], reqs[idx])
                if idx > 0:
                    o["tags"] = ["table%d:%s" % (idx + 1, "eager-defined" if et is not None else "eager-undefined"), "later-table-kind:" + t["kind"]] + o["tags"]
                    bad = [f for f in o["fails"] if f["kind"] == "B"]
                    if bad:
                        # is the table right when fresh filter objects are used? then the filters carried state over from the earlier tables
                        alone = self.eval_table(t, *run_real(t), None)
                        alone_keys = set(f.get("_k") for f in alone["fails"] if f["kind"] == "B")
                        ops = "+".join(sorted(set(st["op"] for st in t["stages"])))
                        for f in bad:
                            if f.get("_k") not in alone_keys:
                                f["sig"] = "%s:filter-carries-state:%s" % (t["kind"], ops)
                                f["what"] = ("table #%d of the case, processed by the same filter objects after the earlier table(s) (the same table is right with fresh filter objects): "
                                             % (idx + 1)) + f["what"]
                            else:
                                f["what"] = ("table #%d of the case: " % (idx + 1)) + f["what"]
                    for f in o["fails"]:
                        if f["kind"] != "B":
                            f["what"] = ("table #%d of the case: " % (idx + 1)) + f["what"]
                outs.append(o)
            fk = run_fork(case)
        finally:
            sys.unraisablehook = hook
        fails, tags = [], []
        for o in outs:
            for f in o["fails"]:
                f.pop("_k", None)
                fails.append(f)
            tags += o["tags"]
        if fk is not None:
            top = case["stages"][-1]["op"]
            tags.append("fork:" + top)
            if "cmp" in fk:
                tags.append("fork-compared:%d" % len(fk["cmp"]))
                if any(not c["exp"] for c in fk["cmp"]):
                    tags.append("fork-rows-differ")
                for c in fk["cmp"]:
                    if c["ab"] != c["exp"] or c["ba"] != c["exp"]:
                        fails.append(F("B", "two pipelines forked from one table (last stage %s | %s over the same row objects): %s #%d: lazy_a == lazy_b gives %s, "
                                            "lazy_b == lazy_a gives %s, the eager rows compare %s" % (
                                                json.dumps(case["stages"][-1]), json.dumps(case["fork"]["stage"]), c["what"], c["i"], c["ab"], c["ba"], c["exp"]),
                                       ARFF_QUOTE_SIG if arff_quote_area(case) else "%s:eq-across-forks:%s:%s" % (case["kind"], top, c["what"])))
                        break
            else:
                tags.append("fork-skipped:" + (fk.get("skip") or "pipe-err"))
        tags.append("tables:%d" % len(outs))
        if case.get("family"):
            tags.append("family:" + case["family"])
        return {"fails": fails, "nontrivial": any(o["nontrivial"] for o in outs), "tags": tags,
                "impl": [o["impl"] for o in outs] + ([{"fork": fk}] if fk is not None else []), "model": [o["model"] for o in outs]}

    def eval_table(self, case, real, et, driver, ans=None, req=None):
        fails, tags = [], []
        kind = case["kind"]
        orig_acc = case["acc"]
        for a in orig_acc:
            if has_clone(a):
                tags.append("copy:" + leaf_how(a))
        # a copy of a row is the row: everything below (eager model, classification, Lean request) sees the access without its copy steps;
        # the real results in `real` were obtained on the copies
        case = dict(case, acc=[strip(a) for a in orig_acc])
        et_a = et
        hit = (getattr(et, "order_hit", False) or any(getattr(x, "order_hit", False) for x in et)) if et is not None else order_sensitive(case)
        if hit:
            case = dict(case, _order_hit=True)
            tags.append("header-map-order-area")
        if case.get("nonuniform"):
            # rows that do not look like the first row (jagged / categoricals at other positions): the per-row eager model does not
            # describe what the filters (which look at the first row only) do; only the first-row model `tableD1` is compared (A)
            tags.append("nonuniform-table")
            et = None
        nacc = len(case["acc"])
        tags.append("kind:" + kind)
        tags.append("base:" + case["base"]["wrap"] + ("+loader" if case["base"].get("loader") else "") + ("+enc" if case["base"].get("enc") else "") + ("+hdr" if case["base"].get("hdr") is not None else ""))
        tags.append("stages:%d" % len(case["stages"]))
        if case.get("touch"):
            tags.append("siblings-read-first:%s/%s" % (case["touch"].get("first") or "none", case["touch"].get("second") or "none"))
        if case["base"]["wrap"] == "arff" and kind == "dense":
            toks = [arff_token(c, case["base"].get("qs")) for r in case["rows"] for c in r]
            qk = set(t[0] for t in toks if isinstance(t, str) and t[:1] in ("'", '"'))
            if qk:
                tags.append("arff-quoted:" + ("both" if len(qk) == 2 else ("double" if '"' in qk else "single")))
        for st in case["stages"]:
            tags.append("op:" + st["op"] + (":pred" if st.get("pred") else ""))
        tags.append("last:" + last_wrapper(case))
        if label_pos(case["stages"]) is not None and any(effective(st) for st in case["stages"][label_pos(case["stages"]) + 1:]):
            tags.append("label-not-last")
        n_valued = 0
        bsig = [None] * nacc       # (B) failure signature per access
        exps = [UNDEF] * nacc
        tfail = None               # table-level (B) failure
        if case.get("nested"):
            tags.append("nested-cells")
            driver = None       # lists / dicts as cell values are not in the Lean model: (B) only
        if real.get("src_mutated"):
            fails.append(BF("S", "running the pipeline and accessing its rows modified the source table: %s; stages %s" % (real["src_mutated"], json.dumps(case["stages"])),
                            "%s:source-modified:%s" % (kind, "+".join(sorted(set(st["op"] for st in case["stages"]))))))
        if real.get("eager_err"):
            tags.append("eager-undefined")
        if "pipe_err" in real:
            tags.append("pipe-err")
            if et is not None:
                tfail = classify(case, None, None, {"e": real["pipe_err"]})
                fails.append(BF("T", "the lazy pipeline raised %s while the eager table is well defined (%d rows); stages %s" % (real["pipe_err"], len(et), json.dumps(case["stages"])), tfail))
        elif et is not None:
            if real["n"] != len(et):
                tfail = classify(case, None, None, {"v": real["n"]})
                fails.append(BF("T", "the lazy pipeline yields %d rows, the eager table has %d (row predicates %s)" % (real["n"], len(et), json.dumps([st.get("pred") for st in case["stages"] if st["op"] == "drop"])), tfail))
            elif not real.get("no_row"):
                e = et[case["ri"]]
                tm = (case.get("touch") or {}).get("first")
                touched = (" (the other rows of the table were read before, %s row order)" % ("ascending" if tm == "fwd" else "descending")) if tm in ("fwd", "rev") else ""
                for j, acc in enumerate(case["acc"]):
                    got = real["first"][j]
                    exp = eager_access(e, acc)
                    exps[j] = exp
                    tags.append("acc:" + acc_name(acc))
                    if "u" in got or "u" in exp:
                        tags.append("no-eager-value:" + leaf(acc)["a"])
                    else:
                        if "v" in exp:
                            n_valued += 1
                        else:
                            tags.append("must-raise:" + leaf(acc)["a"])
                        if "e" in exp and "e" in got and leaf(acc)["a"] == "pos" and got["e"] != "IndexError":
                            # exception CLASS: a plain list / tuple raises IndexError beyond its end (theorems lazy_error_eq_eager_error, index_error_class)
                            bsig[j] = "%s:%s:wrong-exception-class:last=%s" % (kind, acc_name(acc), last_wrapper(case))
                            fails.append(BF("a%d" % j, "row %d after %s%s: access %s raises %s, the eager list raises IndexError" % (
                                case["ri"], json.dumps(case["stages"]), touched, json.dumps(orig_acc[j]), got["e"]), bsig[j]))
                        elif "e" in exp and "e" in got and leaf(acc)["a"] == "pos":
                            tags.append("class-checked:IndexError")
                        elif exp.get("cls") and "e" in got and got["e"] != exp["cls"]:
                            # sparse by-key access of an absent key: a plain dict raises KeyError (theorem lazy_error_eq_eager_error_sparse)
                            bsig[j] = "%s:%s:wrong-exception-class:last=%s" % (kind, acc_name(acc), last_wrapper(case))
                            fails.append(BF("a%d" % j, "row %d after %s%s: access %s raises %s, the eager dict raises %s" % (
                                case["ri"], json.dumps(case["stages"]), touched, json.dumps(orig_acc[j]), got["e"], exp["cls"]), bsig[j]))
                        elif exp.get("cls") and "e" in got:
                            tags.append("class-checked:" + exp["cls"])
                        if kind == "sparse" and "e" in exp and leaf(acc)["a"] == "name":
                            tags.append("must-raise:absent-key" + (":feats" if acc["a"] == "feats" else ""))
                        if ("e" in exp) != ("e" in got) or ("v" in exp and exp["v"] != got["v"]):
                            bsig[j] = classify(case, acc, exp, got)
                            fails.append(BF("a%d" % j, "row %d after %s%s: access %s gives %s, the eager row gives %s" % (
                                case["ri"], json.dumps(case["stages"]), touched, json.dumps(orig_acc[j]), json.dumps(got)[:300], json.dumps(exp)[:300]),
                                bsig[j] + ((":on-" + leaf_how(orig_acc[j])) if has_clone(orig_acc[j]) and not known_sig(bsig[j]) else "")))
                    # access order: permuted run on a fresh copy, then every access once more on the used copy
                    aw = real.get("after_walk")
                    for other, what in ((real["second"][j], "in a different order on a fresh copy"), (real["again"][j], "again after all other accesses"),
                                        (aw[j] if aw else None, "again after the row (and its feats) had been iterated partially, 0..len+1 elements, every iterator abandoned")):
                        if other is not None and other != got and "u" not in other and "u" not in got:
                            fails.append(BF("o%d" % j, "access %s returned %s first and %s when performed %s" % (json.dumps(acc), json.dumps(got)[:200], json.dumps(other)[:200], what),
                                           ARFF_QUOTE_SIG if arff_quote_area(case) else "%s:order-dependent:%s" % (kind, leaf(acc)["a"])))
        if real.get("no_row"):
            tags.append("no-row")
        walk = real.get("walk")
        wsig = {}
        if walk and et is not None and tfail is None and "pipe_err" not in real and real.get("n") == len(et):
            # (B) early consumer stop: next() n times on a fresh iterator gives the first n cells of the eager list and raises nothing (partial_iteration(_feats))
            e = et[case["ri"]]
            for part in ("row", "feats"):
                if part not in walk:
                    continue
                try:
                    ee = e if part == "row" else eager_feats(e)
                except Undefined:
                    continue
                if has_err(ee):
                    tags.append("walk-no-eager-value:" + part)
                    continue
                cells = [canon_val(v) for v in ee.vals]
                tags.append("walk-checked:%s:len=%d" % (part, min(len(cells), 6)))
                for n, w in enumerate(walk[part]):
                    if w["err"] is not None or w["vals"] != cells[:n]:
                        wacc = {"a": "take", "n": n} if part == "row" else {"a": "feats", "sub": {"a": "take", "n": n}}
                        got = {"e": w["err"]} if w["err"] is not None else {"v": w["vals"]}
                        wsig[part] = classify(case, wacc, {"v": cells[:n]}, got)
                        fails.append(BF("w" + part, "row %d after %s: next() %d times on iter(row%s) gives %s%s, the eager list starts with %s" % (
                            case["ri"], json.dumps(case["stages"]), n, "" if part == "row" else ".feats", json.dumps(w["vals"])[:200],
                            (" and then raises " + w["err"]) if w["err"] else "", json.dumps(cells[:n])[:200]), wsig[part]))
                        break
        probe = real.get("probe")
        if probe and type(probe[0]) is dict and "wrap_err" not in probe[0]:
            # (B) an attribute reached through 1, 2, 3 further wrapping views is the attribute of the row itself (forwarding_depth_independent)
            tags.append("probe:" + ("hdr" if "v" in (probe[0].get("headers") or {}) else ("inv" if probe[0].get("inv") else "none")) + ("+missing" if "v" in probe[0]["missing"] else ""))
            for d, o in enumerate(probe[1:], 1):
                if "wrap_err" in o:
                    break           # EncodeRows({}) does not accept this row object (not a coba row view / a view whose len() raises): no claim
                bad = [k for k in ("headers", "missing") if k in probe[0] and o.get(k) != probe[0][k]]
                if bad:
                    fails.append(BF("p%d" % d, "row %d after %s: seen through %d further EncodeRows({}) view(s) the attribute %s is %s, on the row itself it is %s" % (
                        case["ri"], json.dumps(case["stages"]), d, bad[0], json.dumps(o.get(bad[0], o))[:200], json.dumps(probe[0].get(bad[0]))[:200]),
                        "%s:forwarding-depth:%s:last=%s" % (kind, bad[0], last_wrapper(case))))
                    break
        # (A) correspondence with the Lean model, (C) model vs spec
        model = None
        if driver is not None:
            if ans is None:
                req = to_model(case, et, real.get("n"))
                ans = driver.ask({"case": req})
            model = ans
            m = ans["model"]
            raw_first = list(m.get("first") or [])
            if "first" in m:
                m["first"] = [canon_model_obs(kind, a, o) for a, o in zip(case["acc"], m["first"])]
            sp = ans.get("spec")
            if sp and "first" in sp:
                sp["first"] = [canon_model_obs(kind, a, o) for a, o in zip(case["acc"], sp["first"])]
            mreal = summarize_real(real)
            has_enccat = any(st["op"] == "enccat" and st.get("t") is not None for st in case["stages"])
            # EncodeCatRows looks at the first row only to decide whether anything is categorical; the model decides per row.
            # The two differ only when materialising some row raises, i.e. when the eager table is undefined.
            susp_all = tfail is not None or (open_sig(kind + ":enccat-on-lazy-row") and enccat_on_lazy(case)) or (has_enccat and et is None and not case.get("nonuniform"))
            susp_absent = suspended(case, None)
            if susp_all or (susp_absent and ("pipe_err" in mreal) != ("pipe_err" in m)):
                tags.append("A-suspended")
            else:
                d = None
                if ("pipe_err" in mreal) != ("pipe_err" in m):
                    d = ("pipeline error: implementation %s, model %s" % (json.dumps(mreal)[:150], json.dumps(m)[:150]), "pipe-err")
                elif "pipe_err" in m:
                    pass
                elif mreal.get("n") != m.get("n") or bool(mreal.get("no_row")) != bool(m.get("no_row")):
                    if not susp_absent:
                        d = ("row count: implementation %s, model %s" % (mreal.get("n"), m.get("n")), "row-count")
                elif "first" in m:
                    for j, acc in enumerate(case["acc"]):
                        if bsig[j] is not None:
                            continue        # already reported as (B); the model mirrors the repaired code there
                        if leaf(acc)["a"] == "take" or (leaf(acc)["a"] in ("iter", "copy") and et is None and kind == "dense"):
                            # element-by-element iteration: the model's DRow.takeN (driver field `walk`), also where the eager table is undefined
                            # (the ORDER in which a failing cell raises is modelled: DRow.stream)
                            part = "feats" if acc["a"] == "feats" else "row"
                            mw = (ans.get("walk") or {}).get(part)
                            if kind != "dense" or not mw or suspended(case, acc, exps[j]):
                                continue
                            if part == "feats" and et is None and mw[-1] == {"vals": [], "err": None}:
                                # a label column beyond the end of a zero-width row: islice / len() reject DropOne's negative length; not modelled (as feats.len / feats ==)
                                tags.append("A-skipped-feats-of-invalid-label")
                                continue
                            ent = mw[min(leaf(acc)["n"], len(mw) - 1)] if leaf(acc)["a"] == "take" else mw[-1]
                            x = real["first"][j]
                            y = {"e": ent["err"]} if ent["err"] else {"v": ent["vals"]}
                            tags.append("A-walk-access:%s:%s" % (acc_name(acc), "raises" if ent["err"] else "value"))
                            if "u" in x:
                                continue
                            if x != y:
                                d = ("access %s: implementation %s, model (takeN) %s (stages %s)" % (json.dumps(acc), json.dumps(x)[:200], json.dumps(y)[:200], json.dumps(case["stages"])[:300]),
                                     "%s:%s:last=%s" % (kind, acc_name(acc), last_wrapper(case)))
                                break
                            continue
                        if et is None and not case.get("nonuniform") and leaf(acc)["a"] in ("iter", "copy", "eq", "items"):
                            # some cell's encoder raises (the eager table is undefined): which consumer pulls the failing cell
                            # (zip / compress / islice stop early) is not modelled; whole-row accesses are not compared then
                            tags.append("A-skipped-partial-iteration")
                            continue
                        if et is None and acc["a"] == "feats" and leaf(acc)["a"] in ("len", "eq"):
                            # a label column beyond the end of a (zero-width) row: Python's len() rejects DropOne's negative length; not modelled
                            tags.append("A-skipped-feats-of-invalid-label")
                            continue
                        if suspended(case, acc, exps[j]):
                            tags.append("A-suspended-access:" + leaf(acc)["a"])
                            continue
                        x, y = mreal["first"][j], m["first"][j]
                        if "u" in x or "u" in y:
                            continue        # == on a builtin list/tuple/dict object (not a coba row) / no right-hand side was sent
                        if x != y:
                            d = ("access %s: implementation %s, model %s (stages %s)" % (json.dumps(acc), json.dumps(x)[:200], json.dumps(y)[:200], json.dumps(case["stages"])[:300]),
                                 "%s:%s:last=%s" % (kind, acc_name(acc), last_wrapper(case)))
                            break
                        errs = m.get("errs") or []
                        if "e" in x and j < len(errs) and errs[j] and leaf(acc)["a"] in CLASS_COMPARED:
                            # both raise: the exception CLASS of the implementation against the model's `errD` / `errS`
                            rc = real["first"][j].get("e")
                            tags.append("A-class:%s:%s" % (leaf(acc)["a"], errs[j]))
                            if rc != errs[j]:
                                d = ("access %s: implementation raises %s, model raises %s (stages %s)" % (json.dumps(acc), rc, errs[j], json.dumps(case["stages"])[:300]),
                                     "%s:%s:exception-class:last=%s" % (kind, acc_name(acc), last_wrapper(case)))
                                break
                if d is None and probe and ans.get("probe") and "first" in m and not case.get("nested"):
                    # attribute forwarding through 0..3 further views: implementation against probeD / probeS
                    for dep, (x, y) in enumerate(zip(probe, ans["probe"])):
                        if "wrap_err" in x:
                            break
                        y = dict(y)
                        if "headers" in y:
                            y["headers"] = canon_model_obs(kind, {"a": "headers"}, y["headers"])
                        if "inv" in y:
                            y["inv"] = sort_pairs(y["inv"])
                        if x != y:
                            d = ("attributes seen through %d further EncodeRows({}) view(s): implementation %s, model %s (stages %s)" % (
                                dep, json.dumps(x)[:200], json.dumps(y)[:200], json.dumps(case["stages"])[:300]), "%s:probe:depth=%d:last=%s" % (kind, dep, last_wrapper(case)))
                            break
                    else:
                        tags.append("A-probe-compared")
                if d is None and walk and ans.get("walk") and "first" in m:
                    # every prefix length, of the row and of its feats: implementation against DRow.takeN; and takeN after an abandoned iteration (stepTake)
                    for part in ("row", "feats"):
                        if wsig.get(part) is not None:
                            continue        # already reported as (B)
                        x, y = walk.get(part), ans["walk"].get(part)
                        if (x is None) != (y is None):
                            d = ("row.feats exists: implementation %s, model %s" % (x is not None, y is not None), "dense:walk:feats-exists:last=%s" % last_wrapper(case))
                            break
                        if x is None:
                            continue
                        if part == "feats" and suspended(case, {"a": "feats", "sub": {"a": "iter"}}, None):
                            continue
                        if part == "feats" and et is None and y and y[-1] == {"vals": [], "err": None}:
                            tags.append("A-skipped-feats-of-invalid-label")
                            continue
                        if any(w["err"] for w in x) or len(x) == WALK_MAX + 2:
                            k = min(len(x), len(y))         # a raising element raises for every longer consumer: the common range of n is compared
                            x, y = x[:k], y[:k]
                        if x != y:
                            n = next((i for i, (u, w) in enumerate(zip(x, y)) if u != w), min(len(x), len(y)))
                            d = ("next() %d times on iter(row%s): implementation %s, model (takeN) %s (stages %s)" % (
                                n, "" if part == "row" else ".feats", json.dumps(x[n] if n < len(x) else "no further entry")[:200], json.dumps(y[n] if n < len(y) else "no further entry")[:200],
                                json.dumps(case["stages"])[:300]), "dense:walk:%s:last=%s" % (part, last_wrapper(case)))
                            break
                        tags.append("A-walk-compared:%s:%s" % (part, "raises" if any(w["err"] for w in x) else "values"))
                    if d is None and ans["walk"].get("after") != ans["walk"].get("row"):
                        fails.append(F("C", "model: takeN after an abandoned partial iteration differs from takeN on the untouched row", "C:walk-after"))
                if "pad" in ans and ans["pad"]:
                    for j, flag in enumerate(ans["pad"]):
                        if flag:
                            tags.append("eq-length-discriminating:" + str(case["acc"][j].get("o") if case["acc"][j]["a"] == "eq" else "feats"))
                if d:
                    fails.append(F("A", "implementation and model differ: %s" % d[0], "A:" + d[1]))
            # (C) the theorems, at run time: model refines spec; a history of accesses = independent accesses
            if ans.get("hyp") and not ans.get("uniform", True):
                tags.append("not-uniform")          # some row does not look like the first row: outside first_row_irrelevant(_sparse)
                ans["hyp"] = False
            if kind == "sparse" and ans.get("hyp") and not ans.get("leak_safe", True):
                tags.append("not-leak-safe")        # a stage addresses a hidden raw key of a header-mapped base: outside the theorems
                ans["hyp"] = False
            if ans.get("hyp") and sp is not None and "first" in m and "first" in sp:
                tags.append("hyp")
                lnl = "label-not-last" in tags
                for j, acc in enumerate(case["acc"]):
                    x, y = m["first"][j], sp["first"][j]
                    if "u" in y or "u" in x:
                        continue
                    if lnl and touches_label_part(acc):
                        continue            # forced hypothesis of feats_label (label stage last)
                    if x != y:
                        fails.append(F("C", "model and spec differ though the hypotheses hold: access %s: model %s, spec %s" % (json.dumps(acc), json.dumps(x)[:200], json.dumps(y)[:200]), "C:refine"))
                        break
            if ans.get("hyp") and sp is not None and ("pipe_err" in m or m.get("n") != sp.get("n")):
                fails.append(F("C", "model table %s, spec table %s" % (json.dumps(m)[:100], json.dumps(sp)[:100]), "C:table"))
            if "run" in m:
                once = [o for a, o in zip(req["acc"], raw_first) if not is_skip(a)]
                if m["run"] != once + once:
                    fails.append(F("C", "model: a history of accesses on one row object differs from the same accesses on fresh rows", "C:order"))
        nontrivial = (len(case["stages"]) > 0 or case["base"]["wrap"] in ("lazy", "arff")) and n_valued >= 3
        return {"fails": fails, "nontrivial": nontrivial, "tags": tags, "impl": real, "model": model}

    # -------------------------------------------------------------- shrinking
    def shrink(self, case):
        if case.get("fork"):
            yield {x: y for x, y in case.items() if x != "fork"}
        if case.get("touch"):
            yield {x: y for x, y in case.items() if x != "touch"}
            if case["touch"].get("second"):
                yield dict(case, touch=dict(case["touch"], second=None))
        others = case.get("others") or []
        for k in range(len(others)):
            rest = others[:k] + others[k + 1:]
            yield dict(case, others=rest) if rest else {x: y for x, y in case.items() if x != "others"}
        for k, t in enumerate(others):
            for j in range(len(t["acc"])):
                na = t["acc"][:j] + t["acc"][j + 1:]
                yield dict(case, others=others[:k] + [dict(t, acc=na, perm=list(range(len(na))))] + others[k + 1:])
            if len(t["rows"]) > 1:
                for j in range(len(t["rows"])):
                    nr = t["rows"][:j] + t["rows"][j + 1:]
                    yield dict(case, others=others[:k] + [dict(t, rows=nr, ri=min(t["ri"], len(nr) - 1))] + others[k + 1:])
        if others and case["acc"]:
            yield dict(case, acc=[], perm=[])
        acc = case["acc"]
        for k in range(len(acc)):
            na = acc[:k] + acc[k + 1:]
            yield dict(case, acc=na, perm=list(range(len(na))))
        st = case["stages"]
        for k in range(len(st)):
            yield dict(case, stages=st[:k] + st[k + 1:])
        rows = case["rows"]
        for k in range(len(rows)):
            if len(rows) > 1:
                nr = rows[:k] + rows[k + 1:]
                yield dict(case, rows=nr, ri=min(case["ri"], len(nr) - 1))
        if case["ri"] > 0:
            yield dict(case, ri=0)
        for k, s in enumerate(st):
            if s["op"] == "drop":
                if s.get("pred"):
                    yield dict(case, stages=st[:k] + [dict(s, pred=None)] + st[k + 1:])
                for c in range(len(s["cols"])):
                    yield dict(case, stages=st[:k] + [dict(s, cols=s["cols"][:c] + s["cols"][c + 1:])] + st[k + 1:])
            if s["op"] == "encode" and "map" in s:
                for c in range(len(s["map"])):
                    yield dict(case, stages=st[:k] + [dict(s, map=s["map"][:c] + s["map"][c + 1:])] + st[k + 1:])
        if case["kind"] == "sparse":
            for i, r in enumerate(rows):
                for c in range(len(r)):
                    yield dict(case, rows=rows[:i] + [r[:c] + r[c + 1:]] + rows[i + 1:])
        b = case["base"]
        if b.get("loader"):
            yield dict(case, base=dict(b, loader=False))
        if b["wrap"] == "lazy" and b.get("enc"):
            yield dict(case, base={k: v for k, v in b.items() if k != "enc"})
        if case.get("perm") != list(range(len(acc))):
            yield dict(case, perm=list(range(len(acc))))

    def snippet(self, case):
        return ("import sys, json; sys.path[:0]=[%r, '/verif/harness']\nfrom props.c13 import run_real_multi, tables_of, eager_access\n"
                "case = json.loads(%r)\n# the same filter objects process the tables of the case one after the other\n"
                "for t, (real, et) in zip(tables_of(case), run_real_multi(case)):\n"
                "    print('lazy :', real.get('pipe_err') or real.get('first'))\n"
                "    print('eager:', [eager_access(et[t['ri']], a) for a in t['acc']] if et and t['ri'] < len(et) else et)\n"
                "from props.c13 import run_fork\nprint('forks (exp = eager rows equal, ab / ba = lazy_a == lazy_b / lazy_b == lazy_a):', run_fork(case))\n"
                % (os.environ.get("COBA_REPO", "/repo"), json.dumps(case)))


def after_enc(ctype, enc):
    if enc == "id":
        return ctype
    if enc == "int":
        return "int"
    if enc == "str":
        return "word" if ctype != "numstr" else "numstr"
    if ctype.startswith("cat"):
        return "word"
    if enc == "inc":
        return ctype if ctype == "flt" else "int"
    if enc == "dbl":
        return ctype if ctype in ("int", "flt") else "word"
    return ctype


# ------------------------------------------------------------------ model side helpers
def cell_to_model(v):
    if isinstance(v, Cat):
        return {"cat": v.s, "lv": list(v.lv)}
    if isinstance(v, tuple):
        return {"tup": list(v)}
    if isinstance(v, float):
        return int(v)       # compared by == : the integer of equal value
    return v


def other_side(e, acc):
    """the explicit right-hand side of an == access, as sent to the model (None = no claim / not comparable)"""
    if e is None or has_err(e):
        return None
    if isinstance(e, ED):
        plain = other_plain(list(e.vals), acc)
        return [cell_to_model(v) for v in plain]
    plain = other_plain(dict(e.d), acc)
    return [[k, cell_to_model(v)] for k, v in plain.items()]


def acc_to_model(e, acc, plain_obj):
    a = acc["a"]
    if a == "feats":
        fe = None
        if e is not None:
            try:
                fe = eager_feats(e)
            except Undefined:
                fe = None
        return {"a": "feats", "sub": acc_to_model(fe, acc["sub"], False)}
    if a == "clone":
        sub = acc_to_model(e, acc["sub"], plain_obj)
        return {"a": "skip"} if is_skip(sub) else {"a": "clone", "sub": sub}
    if a == "eq":
        o = None if plain_obj else other_side(e, acc)
        return {"a": "eq", "other": o} if o is not None else {"a": "skip"}
    if a == "take":
        return {"a": "skip"}        # not a constructor of the model's `Acc`: answered from the driver's `walk` (DRow.takeN)
    return acc


def to_model(case, et, n_real):
    """the request for the Lean driver: the case + per-row missing flags + explicit right-hand sides of =="""
    e = et[case["ri"]] if (et is not None and case["ri"] < len(et)) else None
    plain_obj = not any(effective(st) for st in case["stages"]) and case["base"]["wrap"] in ("plain", "tuple")
    return {"kind": case["kind"], "base": case["base"], "rows": case["rows"], "stages": case["stages"], "ri": case["ri"],
            "miss": [raw_missing(case["kind"], raw) for raw in case["rows"]],
            "acc": [acc_to_model(e, a, plain_obj) for a in case["acc"]]}


def is_skip(a):
    return a.get("a") == "skip" or (a.get("a") in ("feats", "clone") and is_skip(a["sub"]))


def uniq_sorted(xs):
    out = []
    for x in sorted(xs, key=json.dumps):
        if not out or out[-1] != x:
            out.append(x)
    return out


def canon_model_obs(kind, acc, o):
    """bring a model/spec observation into the form real_access produces (sets sorted, dicts as sorted pairs)"""
    if o is None or "v" not in o:
        return o
    a = leaf(acc)["a"]
    x = o["v"]
    if kind == "sparse" and a in ("iter", "keys"):
        return {"v": uniq_sorted(x)}
    if kind == "sparse" and a in ("items", "copy"):
        if len(uniq_sorted([p[0] for p in x])) != len(x):
            return {"v": ["dup-keys", sort_pairs(x)]}
        return {"v": sort_pairs(x)}
    if a == "headers":
        return {"v": sort_pairs(x)}
    return o


def summarize_real(real):
    """the part of the implementation's behaviour that the model must reproduce (errors by presence only)"""
    def r(x):
        if x is None:
            return None
        if "e" in x:
            return {"e": 1}
        return x
    if "pipe_err" in real:
        return {"pipe_err": 1}
    if real.get("no_row"):
        return {"n": real["n"], "no_row": True}
    return {"n": real["n"], "first": [r(x) for x in real["first"]]}


PROPERTY = C13()
