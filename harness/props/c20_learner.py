"""C20, phase 4: histories of predict/learn calls on ONE real LinUCBLearner / LinTSLearner (numpy = the exact stand-in
props/c20_numpy.py), incl. requests the learner rejects (sparse data -> CobaException) before its first accepted request.

Case: {"learner": {"kind": "linucb"|"lints", "features": [term | {"n":[num,den]}...], "shape": "list"|"tuple",
                   "alpha": [num,den]  (LinUCB's alpha; LinTS always runs with v=0: no sampling),
                   "steps": [ {"op":"predict","context":val,"actions":[val..]} | {"op":"learn","context":val,"action":val,"reward":[num,den]} ...],
                   "perm": [i...]  (optional) a second run with the string terms in this order }}

(B) the learner was asked for `features`: from its first ACCEPTED request on, the feature vector it builds for (context, action)
    is the polynomial expansion of those terms (of the documented x-less rewriting when that first accepted request had no
    context) - every encode() call the learner makes is judged against the statement with THOSE terms, whatever encoder object
    the learner ended up holding.  A rejected request must not change what later requests compute.
(A) the Lean model `linRun` (Sherman-Morrison update of A^-1, theta, point estimate and quadratic bound, exact over Q) on the
    recorded feature vectors reproduces every pmf and the final theta / A^-1 of the real learner; the second real run with the
    terms in another order gives the same pmfs (theorem linucb_perm_equivariant), and the model run on the permuted vectors too.
"""
import json
import math
import os
from fractions import Fraction

from core.engine import F


def _num(t):
    return Fraction(t["n"][0], t["n"][1])


def py_terms(feats):
    out = []
    for t in feats:
        if isinstance(t, str):
            out.append(t)
        else:
            q = _num(t)
            out.append(float(q) if t.get("f") else (int(q) if q.denominator == 1 else q))
    return out


def rewritten(feats):
    """the documented rewriting for a learner without context features: every x removed, empty/zero entries dropped, first
    occurrences kept (case-level terms)"""
    out = []
    for t in feats:
        u = t.replace("x", "") if isinstance(t, str) else t
        if isinstance(u, str):
            if u and u not in out:
                out.append(u)
        elif _num(u) != 0 and not any((not isinstance(v, str)) and _num(v) == _num(u) for v in out):
            out.append(u)
    return out


def is_sparse(v):
    return v.get("k") == "sparse"


def rejected(step):
    """what linucb.py / lints.py document: sparse (dict) contexts or actions are not supported -> CobaException on first use"""
    acts = step["actions"][:1] if step["op"] == "predict" else [step["action"]]
    return is_sparse(step["context"]) or any(is_sparse(a) for a in acts)


def run(c, build_val, canon_out, order=None, drop_rejected=False):
    """run the real learner on the history; returns (steps_out, encoders, learner_state)"""
    import importlib
    from props import c20_numpy
    import coba.encodings as ce
    modname = "coba.learners.linucb" if c["kind"] == "linucb" else "coba.learners.lints"
    encs, cur = [], {"step": -1}

    class Rec(ce.InteractionsEncoder):
        def __init__(self, interactions):
            self._rec = {"terms": list(interactions), "made_at": cur["step"]}
            encs.append(self._rec)
            super().__init__(interactions)

        def encode(self, **kw):
            try:
                r = super().encode(**kw)
                cur["calls"].append({"terms": self._rec["terms"], "kw": dict(kw), "res": canon_out(r), "raw": r})
                return r
            except Exception as e:
                cur["calls"].append({"terms": self._rec["terms"], "kw": dict(kw), "res": {"err": type(e).__name__, "msg": str(e)[:200]}, "raw": None})
                raise
    feats = py_terms(c["features"])
    if order is not None:
        strs = [t for t in feats if isinstance(t, str)]
        it = iter([strs[i] for i in order])
        feats = [next(it) if isinstance(t, str) else t for t in feats]
    arg = tuple(feats) if c.get("shape") == "tuple" else list(feats)
    steps = [s for s in c["steps"] if not (drop_rejected and rejected(s))]
    outs = []
    state = {}
    mod = importlib.import_module(modname)
    saved = mod.InteractionsEncoder
    with c20_numpy.installed():
        try:
            mod.InteractionsEncoder = Rec
            cls = mod.LinUCBLearner if c["kind"] == "linucb" else mod.LinTSLearner
            if c["kind"] == "linucb":
                a = Fraction(*c.get("alpha", [0, 1]))
                lrn = cls(alpha=(int(a) if a.denominator == 1 else a), features=arg)
            else:
                lrn = cls(v=0, features=arg)
            for k, s in enumerate(steps):
                cur["step"], cur["calls"] = k, []
                o = {"op": s["op"], "raised": None, "pmf": None}
                try:
                    ctx = build_val(s["context"])
                    if s["op"] == "predict":
                        acts = [build_val(a) for a in s["actions"]]
                        lrn.predict(ctx, acts)
                        o["npred"] = len(cur["calls"])
                        o["pmf"] = [lrn.score(ctx, acts, a) for a in acts]
                    else:
                        r = Fraction(*s["reward"])
                        lrn.learn(ctx, build_val(s["action"]), int(r) if r.denominator == 1 else r, 0.5)
                except Exception as e:
                    o["raised"] = type(e).__name__
                    o["msg"] = str(e)[:160]
                o["calls"] = cur["calls"]
                outs.append(o)
            th = getattr(lrn, "_theta", None) if c["kind"] == "linucb" else getattr(lrn, "_mu_hat", None)
            ai = getattr(lrn, "_A_inv", None) if c["kind"] == "linucb" else getattr(lrn, "_B_inv", None)
            if isinstance(th, c20_numpy.Vec) and isinstance(ai, c20_numpy.Mat):
                state = {"theta": [Fraction(x) for x in th.xs], "ainv": [[Fraction(x) for x in r] for r in ai.rows]}
        finally:
            mod.InteractionsEncoder = saved
    return outs, encs, state


def pmf_from_scores(kind, alpha, scores):
    """what `_pmf` does with the point estimates and bounds (same float operations as the stand-in performs)"""
    if kind == "linucb":
        if alpha == 0:
            vals = [e + alpha * math.sqrt(b) if b >= 0 else None for e, b in scores]
        else:
            vals = [e + alpha * math.sqrt(b) if b >= 0 else None for e, b in scores]
        if any(v is None for v in vals):
            return None
        top = max(vals)
        idx = [i for i, v in enumerate(vals) if v == top]
    else:
        vals = [round(e, 5) for e, _ in scores]
        top = round(max(e for e, _ in scores), 5)
        idx = [i for i, v in enumerate(vals) if v == top]
    return [int(i in idx) / len(idx) for i in range(len(scores))]


def q2j(q):
    q = Fraction(q)
    return [q.numerator, q.denominator]


def j2q(j):
    return Fraction(j[0], j[1])


def block_perm(terms_a, terms_b, lens):
    """index list p with encoding(terms_b) = [encoding(terms_a)[i] for i in p]; lens = block length per string term; the
    constant (if any) is entry 0 in both"""
    const = lens.get(None, 0)
    start, pos = {}, const
    seen = []
    for t in terms_a:
        if isinstance(t, str) and t not in seen:
            seen.append(t)
            start[t] = pos
            pos += lens[t]
    p = list(range(const))
    seen = []
    for t in terms_b:
        if isinstance(t, str) and t not in seen:
            seen.append(t)
            p += list(range(start[t], start[t] + lens[t]))
    return p


def describe(c, build_val_plain, upto=None):
    feats = py_terms(c["features"])
    arg = tuple(feats) if c.get("shape") == "tuple" else feats
    cls = "LinUCBLearner" if c["kind"] == "linucb" else "LinTSLearner"
    par = ("alpha=%s, " % Fraction(*c.get("alpha", [0, 1]))) if c["kind"] == "linucb" else "v=0, "
    lines = ["lrn = %s(%sfeatures=%r)" % (cls, par, arg)]
    for s in c["steps"][:upto]:
        if s["op"] == "predict":
            lines.append("lrn.predict(%r, %r)" % (build_val_plain(s["context"]), [build_val_plain(a) for a in s["actions"]]))
        else:
            lines.append("lrn.learn(%r, %r, %s, 0.5)" % (build_val_plain(s["context"]), build_val_plain(s["action"]), Fraction(*s["reward"])))
    return lines


def evaluate(prop, case, driver, H):
    """H: helpers from props.c20 (build_val, build_val_plain, canon_out, py_to_val, term_to_case, DriverError)"""
    c = case["learner"]
    kind = c["kind"]
    fails, tags = [], ["learner:" + kind]
    outs, encs, state = run(c, H["build_val"], H["canon_out"])
    steps = c["steps"]
    rej = [rejected(s) for s in steps]
    init = next((k for k, r in enumerate(rej) if not r), None)
    tags.append("learner:steps:%d" % len(steps))
    nrej = sum(rej[:init] if init is not None else rej)
    if nrej:
        tags.append("learner:rejected-first:%d" % min(nrej, 3))
        for s in steps[:init if init is not None else len(steps)]:
            tags.append("learner:rejected(%s,%s-context)" % ("sparse-context" if is_sparse(s["context"]) else "sparse-action",
                                                               "truthy" if H["build_val"](s["context"]) else "falsy"))
    if init is None:
        return {"fails": [], "tags": tags + ["learner:never-initialised"], "nontrivial": False, "impl": [o["raised"] for o in outs], "model": None}
    has_ctx = bool(H["build_val"](steps[init]["context"]))
    tags.append("learner:init-context:%s" % ("truthy" if has_ctx else "falsy(%s)" % steps[init]["context"]["k"]))
    want_terms = list(c["features"]) if has_ctx else rewritten(c["features"])
    show = lambda upto=None: "; ".join(describe(c, H["build_val_plain"], upto))
    # ---- (B) every encode call from the first accepted request on is the expansion of the requested terms
    ncalls, bad_b = 0, False
    for k in range(init, len(steps)):
        o = outs[k]
        for call in o["calls"]:
            one = {"terms": [t if isinstance(t, str) else {kk: vv for kk, vv in t.items()} for t in want_terms],
                   "ns": [[kk, H["py_to_val"](vv)] for kk, vv in call["kw"].items()]}
            r = prop.evaluate_call(one, call["res"], driver)
            ncalls += 1
            for f in r["fails"]:
                f = dict(f)
                if f["kind"] == "B":
                    bad_b = True
                f["what"] = ("%s: in step #%d (%s) the learner built its feature vector with an encoder for the terms %r; asked for %r "
                             "(%s) it must be the expansion of %r. %s"
                             % (show(k + 1), k + 1, steps[k]["op"], call["terms"], py_terms(c["features"]),
                                "first accepted request has a context" if has_ctx else "first accepted request has no context: x-less rewriting",
                                py_terms(want_terms), f["what"]))
                f["sig"] = "learner:" + f["sig"]
                fails.append(f)
            if len(fails) > 6:
                break
    if bad_b and nrej:
        # does the same history without the rejected requests behave?
        outs2, _, _ = run(c, H["build_val"], H["canon_out"], drop_rejected=True)
        ok = True
        kept = [s for s in steps if not rejected(s)]
        for k, o in enumerate(outs2):
            for call in o["calls"]:
                one = {"terms": list(want_terms), "ns": [[kk, H["py_to_val"](vv)] for kk, vv in call["kw"].items()]}
                if any(f["kind"] == "B" for f in prop.evaluate_call(one, call["res"], None)["fails"]):
                    ok = False
        if ok and kept:
            for f in fails:
                if f["kind"] == "B":
                    f["sig"] = f["sig"].replace("learner:", "learner:after-rejected-request:", 1)
                    f["what"] = "a REJECTED request (CobaException) changed what the learner computes afterwards (without it the history is right). " + f["what"]
    # ---- (B) the vectors are built for THIS request: x = the context (or nothing), a = each action of the request, in order
    if not bad_b:
        for k in range(init, len(steps)):
            o, s = outs[k], steps[k]
            if o["raised"]:
                continue
            ctx = H["build_val"](s["context"])
            acts = [H["build_val"](a) for a in s["actions"]] if s["op"] == "predict" else [H["build_val"](s["action"])]
            upto = o.get("npred", 0) if s["op"] == "predict" else len(o["calls"])
            used = o["calls"][max(0, upto - len(acts)):upto]
            same = lambda u, v: (list(u) == list(v)) if isinstance(u, (list, tuple)) and isinstance(v, (list, tuple)) else (u == v)
            okk = len(used) == len(acts) and all(same(cl["kw"].get("a"), a) and same(cl["kw"].get("x") or [], ctx or []) for cl, a in zip(used, acts))
            if not okk:
                fails.append(F("B", "%s: in step #%d (%s) the feature vectors were not built for this request's (context, action) pairs: encode was called with %r, "
                               "the request has context %r and actions %r" % (show(k + 1), k + 1, s["op"], [cl["kw"] for cl in used], ctx, acts),
                               "learner:features-of-another-request"))
                bad_b = True
                break
    # unexpected exceptions after initialisation
    for k in range(init, len(steps)):
        if outs[k]["raised"] and not bad_b:
            fails.append(F("B" if outs[k]["raised"] not in ("NotImplementedError",) else "A",
                           "%s: step #%d raised %s: %s" % (show(k + 1), k + 1, outs[k]["raised"], outs[k].get("msg", "")),
                           "learner:raises-%s" % outs[k]["raised"]))
            bad_b = True
    for k in range(0, init):
        if outs[k]["raised"] != "CobaException":
            tags.append("learner:rejected-step-outcome:%s" % outs[k]["raised"])
    impl = {"pmfs": [o["pmf"] for o in outs], "raised": [o["raised"] for o in outs]}
    model = None
    if driver is None or bad_b or any(f["kind"] == "B" for f in fails):
        return {"fails": fails, "tags": tags, "nontrivial": ncalls > 0, "impl": impl, "model": None}
    # ---- (A) the Lean model of the Sherman-Morrison recursion on the recorded feature vectors
    events, d = [], None
    exact = True
    for k in range(init, len(steps)):
        o, s = outs[k], steps[k]
        na_ = len(s["actions"]) if s["op"] == "predict" else 1
        upto_ = o.get("npred", 0) if s["op"] == "predict" else len(o["calls"])
        vecs = [call["raw"] for call in o["calls"][max(0, upto_ - na_):upto_]]     # (the first accepted request also encodes once to size theta)
        if len(vecs) != na_:
            exact = False
            break
        if any(not isinstance(v, list) or any(isinstance(x, float) and not float(x).is_integer() and False for x in v) for v in vecs):
            exact = False
            break
        vecs = [[Fraction(x) for x in v] for v in vecs]
        for v in vecs:
            d = len(v) if d is None else d
            if len(v) != d:
                exact = False
        if s["op"] == "predict":
            events.append({"predict": {"fs": [[q2j(x) for x in v] for v in vecs]}})
        else:
            events.append({"learn": {"f": [q2j(x) for x in vecs[0]], "reward": list(s["reward"])}})
    if not exact or d is None or not state or len(state["theta"]) != d:
        return {"fails": fails, "tags": tags + ["learner:model-skipped"], "nontrivial": ncalls > 0, "impl": impl, "model": None}
    tags.append("learner:d:%d" % min(d, 12))
    alpha = Fraction(*c.get("alpha", [0, 1]))
    alpha = int(alpha) if alpha.denominator == 1 else alpha
    # the order permutation (real second run + model run on the permuted vectors)
    strs = [t for t in py_terms(want_terms) if isinstance(t, str)]
    order = c.get("perm")
    p = None
    if order is not None and sorted(order) == list(range(len([t for t in py_terms(c["features"]) if isinstance(t, str)]))):
        tags.append("learner:term-order-permuted")
    else:
        order = None
    req = {"op": "linucb", "d": d, "events": events}
    if order is not None:
        # block lengths of each string term, read off one recorded call (all calls of a history have the same shape)
        import coba.encodings as ce
        kw0 = outs[init]["calls"][0]["kw"]
        dd = []
        for t in py_terms(want_terms):
            if t not in dd:
                dd.append(t)
        lens = {t: len(ce.InteractionsEncoder([t]).encode(**kw0)) for t in dd if isinstance(t, str)}
        const = sum(t for t in dd if not isinstance(t, str))
        lens[None] = 1 if const else 0
        feats_b = py_terms(c["features"])
        sb = [t for t in feats_b if isinstance(t, str)]
        itb = iter([sb[i] for i in order])
        feats_b = [next(itb) if isinstance(t, str) else t for t in feats_b]
        if not has_ctx:
            feats_b = [t for t in dict.fromkeys(filter(None, [f.replace("x", "") if isinstance(f, str) else f for f in feats_b]))]
        p = block_perm(py_terms(want_terms), feats_b, lens)
        if sorted(p) == list(range(d)):
            req["perm"] = p
        else:
            p = None
    try:
        ans = driver.ask(req)
    except H["DriverError"] as e:
        fails.append(F("A", "Lean driver op linucb failed: %s" % str(e)[:200], "A:linucb-driver"))
        return {"fails": fails, "tags": tags, "nontrivial": ncalls > 0, "impl": impl, "model": None}
    model = {"preds": ans["preds"], "theta": ans["theta"]}
    mi = 0
    for k in range(init, len(steps)):
        if steps[k]["op"] != "predict":
            continue
        scores = [(j2q(e), j2q(b)) for e, b in ans["preds"][mi]]
        mi += 1
        mp = pmf_from_scores(kind, alpha, scores)
        if mp is not None and outs[k]["pmf"] is not None and list(outs[k]["pmf"]) != mp:
            fails.append(F("A", "%s: step #%d: the learner's pmf %r differs from the model's %r (point estimates and bounds %s)"
                           % (show(k + 1), k + 1, outs[k]["pmf"], mp, [(str(e), str(b)) for e, b in scores]), "A:learner-pmf"))
            break
    mth = [j2q(x) for x in ans["theta"]]
    mai = [[j2q(x) for x in r] for r in ans["ainv"]]
    if mth != state["theta"] or mai != state["ainv"]:
        fails.append(F("A", "%s: after the history theta / A^-1 of the real learner differ from the Sherman-Morrison model: theta %s vs %s"
                       % (show(), [str(x) for x in state["theta"]], [str(x) for x in mth]), "A:learner-state"))
    # the `learn` program read off the CURRENT source (translator), run by the Lean interpreter on the same history
    try:
        prog = extract_learn_prog(kind)
    except Exception:
        prog = None
        tags.append("learner:prog-not-extracted")
    if prog is not None:
        try:
            a2 = driver.ask({"op": "learnprog", "d": d, "prog": prog, "events": events})
            if not a2.get("ok") or [j2q(x) for x in a2["theta"]] != state["theta"] or [[j2q(x) for x in r] for r in a2["ainv"]] != state["ainv"]:
                fails.append(F("A", "%s: the `learn` program read off the source, run by the Lean interpreter `runLearn`, does not end in the real learner's theta / A^-1 (%s)"
                               % (show(), "ill-typed program" if not a2.get("ok") else "theta %s" % [str(j2q(x)) for x in a2["theta"]]), "A:learner-prog-state"))
            else:
                tags.append("learner:source-program-agrees")
        except H["DriverError"] as e:
            fails.append(F("A", "Lean driver op learnprog failed: %s" % str(e)[:200], "A:learnprog-driver"))
    # phase 5: the `_pmf` program read off the CURRENT source, run by the Lean interpreter `runPredict` on every prediction of the
    # history, against the model (`LinState.pmf` / `pmfTS`) and against the real learner's pmf.  The unary function (math.sqrt on the
    # bounds / round(.,5) on the estimates) is sent as a finite table of the arguments that occur.
    try:
        pm = extract_pmf_prog(kind)
    except Exception:
        pm = None
        tags.append("learner:pmf-prog-not-extracted")
    if pm is not None and any(s["op"] == "predict" for s in steps[init:]):
        table, ok_tab = {}, True
        for pr in ans["preds"]:
            for e, b in pr:
                e, b = j2q(e), j2q(b)
                if kind == "linucb":
                    if b < 0:
                        ok_tab = False
                    else:
                        table[b] = Fraction(math.sqrt(b))
                else:
                    table[e] = round(e, 5)
                    table[max(j2q(x) for x, _ in pr)] = round(max(j2q(x) for x, _ in pr), 5)
        if ok_tab:
            try:
                a3 = driver.ask({"op": "pmfprog", "kind": kind, "d": d, "events": events, "alpha": q2j(Fraction(alpha)),
                                 "table": [[q2j(x), q2j(Fraction(y))] for x, y in table.items()],
                                 "prog": pm["prog"], "lhs": pm["lhs"], "top": pm["top"]})
                if a3["prog"] != a3["model"]:
                    fails.append(F("A", "%s: the `_pmf` program read off the source, run by the Lean interpreter `runPredict`, gives %s; the model's pmf is %s"
                                   % (show(), json.dumps(a3["prog"])[:200], json.dumps(a3["model"])[:200]), "A:learner-pmf-prog-vs-model"))
                else:
                    tags.append("learner:pmf-program-agrees")
                mi = 0
                for k in range(init, len(steps)):
                    if steps[k]["op"] != "predict":
                        continue
                    mpj, scores = a3["prog"][mi], [(j2q(e), j2q(b)) for e, b in ans["preds"][mi]]
                    mi += 1
                    if mpj is None or outs[k]["pmf"] is None:
                        continue
                    mp = [float(j2q(x)) for x in mpj]
                    if kind == "linucb":
                        # the real code adds in doubles, the model in Q: compare only when both agree on the set of maximisers
                        fl = pmf_from_scores(kind, alpha, scores)
                        if fl is None or [x > 0 for x in fl] != [x > 0 for x in mp]:
                            tags.append("learner:pmf-prog:float-tie-ambiguous")
                            continue
                    ntie = sum(1 for x in mp if x > 0)
                    tags.append("learner:pmf-prog:maximisers:%d" % min(ntie, 3))
                    if list(outs[k]["pmf"]) != mp:
                        fails.append(F("A", "%s: step #%d: the learner's pmf %r differs from what the `_pmf` program read off the source gives in the Lean interpreter, %r "
                                       "(point estimates and bounds %s)" % (show(k + 1), k + 1, outs[k]["pmf"], mp, [(str(e), str(b)) for e, b in scores]),
                                       "A:learner-pmf-prog"))
                        break
            except H["DriverError"] as e:
                fails.append(F("A", "Lean driver op pmfprog failed: %s" % str(e)[:200], "A:pmfprog-driver"))
    if any(any(b < 0 for _, b in [(j2q(e), j2q(b)) for e, b in pr]) for pr in ans["preds"]):
        fails.append(F("C", "model: a confidence bound x^T A^-1 x is negative", "C:linucb-bound-negative"))
    if p is not None:
        if ans.get("perm_preds") != ans["preds"]:
            fails.append(F("C", "model: the run on the permuted feature vectors gives other scores (linucb_perm_equivariant)", "C:linucb-perm"))
        outs_b, _, state_b = run(c, H["build_val"], H["canon_out"], order=order)
        pm_a = [o["pmf"] for o in outs[init:]]
        pm_b = [o["pmf"] for o in outs_b[init:]]
        if pm_a != pm_b:
            fails.append(F("A", "%s: with the string terms in the order %r the same history gives other predictions: %r vs %r"
                           % (show(), order, pm_b, pm_a), "A:learner-term-order-changes-prediction"))
        elif state_b and [j2q(x) for x in ans.get("perm_theta", [])] != state_b["theta"]:
            fails.append(F("A", "%s: with the string terms in the order %r theta of the real learner is %s, the permuted model says %s"
                           % (show(), order, [str(x) for x in state_b["theta"]], [str(j2q(x)) for x in ans.get("perm_theta", [])]), "A:learner-perm-state"))
    nlearn = sum(1 for s in steps[init:] if s["op"] == "learn")
    tags.append("learner:learns:%d" % min(nlearn, 4))
    return {"fails": fails, "tags": tags, "nontrivial": ncalls > 0 and d >= 2, "impl": impl, "model": model}


# ------------------------------------------------------------------ generation
def gen(rng, PRIMES, W):
    kind = rng.choice(["linucb", "linucb", "lints"])
    nx, na = rng.choice([1, 2, 2, 3]), rng.choice([1, 2, 2, 3])
    small = lambda k: [rng.choice([1, 2, 3, -1, 0, 5, Fraction(1, 2), Fraction(3, 2), Fraction(-3, 4), 4, 7]) for _ in range(k)]
    item = lambda q: {"n": [Fraction(q).numerator, Fraction(q).denominator]} if Fraction(q).denominator == 1 else {"n": [Fraction(q).numerator, Fraction(q).denominator], "f": True}
    dense = lambda qs, wrap="list": {"k": "dense", "v": [item(q) for q in qs], "wrap": wrap}
    sparse = lambda qs: {"k": "sparse", "v": [[{"s": "k%d" % i}, item(q)] for i, q in enumerate(qs)], "wrap": "dict"}
    pool = ["a", "ax", "xa", "x", "aa", "xx", "xxa", "axa", "xaa", "aaa"]
    n = W(rng, [(1, 2), (2, 4), (3, 4), (4, 2)])
    feats = []
    while len(feats) < n:
        t = rng.choice(pool)
        if t not in feats:
            feats.append(t)
    if not any("a" in t for t in feats):
        feats.append("a")
    if rng.chance(0.7):
        feats.insert(0 if rng.chance(0.7) else rng.below(len(feats) + 1), {"n": [1, 1]})
    ctx_mode = W(rng, [("dense", 6), ("none", 2), ("empty", 1)])     # one stream = one context shape (theta is sized once)

    def ctx():
        m = ctx_mode if ctx_mode != "mixed" else rng.choice(["dense", "dense", "none"])
        if m == "none":
            return {"k": "none"}
        if m == "empty":
            return dense([])
        return dense(small(nx), rng.choice(["list", "tuple"]))
    steps = []
    # requests the learner rejects before its first accepted one
    if rng.chance(0.45):
        for _ in range(W(rng, [(1, 6), (2, 3), (3, 1)])):
            falsy = rng.chance(0.7)
            how = W(rng, [("sparse-action", 5), ("sparse-context", 3)])
            if how == "sparse-action":
                c0 = rng.choice([{"k": "none"}, dense([]), {"k": "scalar", "v": {"n": [0, 1]}}]) if falsy else dense(small(nx))
                a0 = sparse(small(na))
            else:
                c0 = sparse([] if falsy else small(nx))
                a0 = rng.choice([dense(small(na)), sparse(small(na))])
            if rng.chance(0.6):
                steps.append({"op": "predict", "context": c0, "actions": [a0, dict(a0, v=list(reversed(a0["v"])) + a0["v"][:0])] if rng.chance(0.5) else [a0]})
            else:
                steps.append({"op": "learn", "context": c0, "action": a0, "reward": [rng.randint(0, 3), 1]})
    for _ in range(W(rng, [(1, 2), (2, 3), (3, 3), (4, 2), (6, 1)])):
        if rng.chance(0.5):
            acts = []
            while len(acts) < rng.choice([2, 2, 3]):
                a = dense(small(na))
                if a not in acts:
                    acts.append(a)
            steps.append({"op": "predict", "context": ctx(), "actions": acts})
        else:
            steps.append({"op": "learn", "context": ctx(), "action": dense(small(na)), "reward": rng.choice([[0, 1], [1, 1], [1, 2], [-1, 1], [3, 4], [2, 1]])})
    if not any(s["op"] == "predict" for s in steps):
        steps.append({"op": "predict", "context": ctx(), "actions": [dense([1] + [0] * (na - 1)), dense([0] * (na - 1) + [2])] if na > 1 else [dense([1]), dense([2])]})
    c = {"kind": kind, "features": feats, "shape": rng.choice(["list", "list", "tuple"]), "steps": steps}
    if kind == "linucb":
        c["alpha"] = rng.choice([[0, 1], [1, 1], [1, 2], [2, 1], [1, 10]])
    ns = len([t for t in feats if isinstance(t, str)])
    if ns >= 2 and rng.chance(0.6):
        order = rng.shuffle(list(range(ns)))
        if order != list(range(ns)):
            c["perm"] = order
    return {"learner": c}


def corpus():
    """deterministic family (seeded round g, gm1): a request the learner rejects (sparse data) BEFORE its first accepted
    request - with every kind of falsy context, for both learners, through predict and through learn - followed by ordinary
    dense requests; plus plain histories with learning steps and a permuted term order"""
    one = {"n": [1, 1]}
    D = lambda *qs: {"k": "dense", "v": [{"n": [q, 1]} for q in qs], "wrap": "list"}
    S = lambda *qs: {"k": "sparse", "v": [[{"s": "k%d" % i}, {"n": [q, 1]}] for i, q in enumerate(qs)], "wrap": "dict"}
    falsies = [{"k": "none"}, D(), {"k": "scalar", "v": {"n": [0, 1]}}]
    out = []
    for kind in ("linucb", "lints"):
        for i, fc in enumerate(falsies):
            first = ({"op": "predict", "context": fc, "actions": [S(1, 2), S(3)]} if i % 2 == 0 else
                     {"op": "learn", "context": fc, "action": S(1, 2), "reward": [1, 1]})
            out.append({"learner": dict({"kind": kind, "features": [one, "a", "ax"], "shape": "list",
                                         "steps": [first,
                                                   {"op": "predict", "context": D(2, 3), "actions": [D(1, 0), D(0, 1)]},
                                                   {"op": "learn", "context": D(2, 3), "action": D(1, 0), "reward": [1, 1]},
                                                   {"op": "predict", "context": D(1, 5), "actions": [D(1, 0), D(0, 1)]}]},
                                        **({"alpha": [1, 1]} if kind == "linucb" else {}))})
        # sparse (empty = falsy, and non-empty) CONTEXT rejected first; then learn-first initialisation
        out.append({"learner": dict({"kind": kind, "features": ["xa", "a", "xxa"], "shape": "tuple",
                                     "steps": [{"op": "predict", "context": S(), "actions": [D(1, 2), D(3, 4)]},
                                               {"op": "learn", "context": S(5), "action": D(1, 2), "reward": [0, 1]},
                                               {"op": "learn", "context": D(2), "action": D(1, 2), "reward": [1, 1]},
                                               {"op": "predict", "context": D(3), "actions": [D(1, 2), D(3, 4)]}], "perm": [2, 0, 1]},
                                    **({"alpha": [1, 2]} if kind == "linucb" else {}))})
        # no rejected request: context-less learner (x-less rewriting) and a learner with context, several updates
        out.append({"learner": dict({"kind": kind, "features": [one, "a", "ax", "aa"], "shape": "list",
                                     "steps": [{"op": "learn", "context": {"k": "none"}, "action": D(1, 2), "reward": [1, 1]},
                                               {"op": "learn", "context": {"k": "none"}, "action": D(0, 3), "reward": [0, 1]},
                                               {"op": "predict", "context": {"k": "none"}, "actions": [D(1, 2), D(0, 3), D(2, 2)]}], "perm": [2, 1, 0]},
                                    **({"alpha": [1, 1]} if kind == "linucb" else {}))})
        out.append({"learner": dict({"kind": kind, "features": [one, "a", "ax", "xx"], "shape": "list",
                                     "steps": [{"op": "learn", "context": D(1, 2), "action": D(1, 0), "reward": [1, 1]},
                                               {"op": "learn", "context": D(0, 1), "action": D(0, 1), "reward": [1, 2]},
                                               {"op": "learn", "context": D(3, 1), "action": D(1, 1), "reward": [0, 1]},
                                               {"op": "predict", "context": D(1, 1), "actions": [D(1, 0), D(0, 1), D(1, 1)]}], "perm": [1, 2, 0]},
                                    **({"alpha": [2, 1]} if kind == "linucb" else {}))})
        # the same context twice with different action sets, a learn in between (stale feature caches)
        out.append({"learner": dict({"kind": kind, "features": [one, "a", "xa"], "shape": "list",
                                     "steps": [{"op": "predict", "context": D(2, 3), "actions": [D(1, 0), D(0, 1)]},
                                               {"op": "learn", "context": D(2, 3), "action": D(0, 1), "reward": [1, 1]},
                                               {"op": "predict", "context": D(2, 3), "actions": [D(1, 1), D(2, 0)]},
                                               {"op": "predict", "context": D(2, 3), "actions": [D(0, 1), D(1, 0)]}]},
                                    **({"alpha": [1, 10]} if kind == "linucb" else {}))})
    return out


def shrink(case):
    c = case["learner"]
    steps = c["steps"]
    if "perm" in c:
        yield {"learner": {k: v for k, v in c.items() if k != "perm"}}
    for i in range(len(steps) - 1, -1, -1):
        if len(steps) > 1:
            yield {"learner": dict(c, steps=steps[:i] + steps[i + 1:], **({}))} if "perm" not in c else {"learner": dict({k: v for k, v in c.items() if k != "perm"}, steps=steps[:i] + steps[i + 1:])}
    feats = c["features"]
    if "perm" not in c:
        for i in range(len(feats)):
            if len(feats) > 1:
                yield {"learner": dict(c, features=feats[:i] + feats[i + 1:])}
    if c.get("alpha", [0, 1]) != [0, 1] and c["kind"] == "linucb":
        yield {"learner": dict(c, alpha=[0, 1])}


def snippet(case, build_val_plain):
    c = case["learner"]
    repo = os.environ.get("COBA_REPO", "/repo")
    return ("import sys; sys.path.insert(0, %r); sys.path.insert(0, %r)\n"
            "from fractions import Fraction\nfrom props import c20_numpy   # exact stand-in for numpy (not installed); with numpy installed drop these two lines\n"
            "sys.modules['numpy'] = c20_numpy.module()\n"
            "from coba.learners import LinUCBLearner, LinTSLearner\n"
            "def step(f):\n    try: print(f())\n    except Exception as e: print(type(e).__name__, e)\n"
            % (repo, os.path.dirname(os.path.dirname(os.path.abspath(__file__))))
            + "\n".join([describe(c, build_val_plain)[0]] + ["step(lambda: %s)" % l for l in describe(c, build_val_plain)[1:]])
            + "\nprint('encoder terms now:', list(getattr(lrn._X_encoder, '_cross_pows', {})))\n"
            "# every feature vector the learner builds must be the polynomial expansion of the requested features\n")


# ------------------------------------------------------------------ translator: the body of `learn` as a straight-line program
LAST_KNOWN_PROG = {
    "linucb": [["assign", 0, ["matmul", ["theta"], ["feat"]]], ["assign", 1, ["matmul", ["ainv"], ["feat"]]], ["assign", 2, ["matmul", ["var", 1], ["feat"]]],
               ["setAinv", ["sub", ["ainv"], ["div", ["outer", ["var", 1], ["var", 1]], ["add", ["one"], ["var", 2]]]]],
               ["setTheta", ["add", ["theta"], ["mul", ["div", ["sub", ["reward"], ["var", 0]], ["add", ["one"], ["var", 2]]], ["var", 1]]]]],
    "lints": [["assign", 0, ["matmul", ["theta"], ["feat"]]], ["assign", 1, ["matmul", ["ainv"], ["feat"]]], ["assign", 2, ["matmul", ["var", 1], ["feat"]]],
              ["setTheta", ["add", ["theta"], ["mul", ["div", ["sub", ["reward"], ["var", 0]], ["add", ["one"], ["var", 2]]], ["var", 1]]]],
              ["setAinv", ["sub", ["ainv"], ["div", ["outer", ["var", 1], ["var", 1]], ["add", ["one"], ["var", 2]]]]]],
}
_PROGS = {}


def extract_learn_prog(kind, repo=None):
    """read the body of `learn` in linucb.py / lints.py off the source (ast): the assignments after the feature vector is built,
    as statements of the Lean type `LStmt` (JSON form).  `self._theta`/`self._mu_hat` -> theta, `self._A_inv`/`self._B_inv` -> ainv,
    the name bound to the encoded features -> feat, the parameter `reward` -> reward, other locals -> var i (order of assignment),
    `@` -> matmul, `np.outer` -> outer, + - * / and the literal 1.  Anything else raises (the caller falls back and says so)."""
    import ast
    repo = repo or os.environ.get("COBA_REPO", "/repo")
    if (repo, kind) in _PROGS:
        return _PROGS[(repo, kind)]
    rel, cls = {"linucb": ("coba/learners/linucb.py", "LinUCBLearner"), "lints": ("coba/learners/lints.py", "LinTSLearner")}[kind]
    tree = ast.parse(open(os.path.join(repo, rel), encoding="utf-8").read())
    fn = None
    for node in ast.walk(tree):
        if isinstance(node, ast.ClassDef) and node.name == cls:
            for f in node.body:
                if isinstance(f, ast.FunctionDef) and f.name == "learn":
                    fn = f
    if fn is None:
        raise LookupError("%s.learn not found" % cls)
    params = [a.arg for a in fn.args.args]
    if len(params) < 4:
        raise ValueError("unexpected signature of learn")
    reward_name = params[3]
    attrs = {"_theta": ["theta"], "_mu_hat": ["theta"], "_A_inv": ["ainv"], "_B_inv": ["ainv"]}
    env, feat_names, skip_names, prog = {}, set(), set(), []

    def is_self_attr(n):
        return isinstance(n, ast.Attribute) and isinstance(n.value, ast.Name) and n.value.id == "self"

    def expr(n):
        if isinstance(n, ast.Name):
            if n.id in feat_names:
                return ["feat"]
            if n.id == reward_name:
                return ["reward"]
            if n.id in env:
                return ["var", env[n.id]]
            raise ValueError("unknown name %s (line %d)" % (n.id, n.lineno))
        if is_self_attr(n) and n.attr in attrs:
            return attrs[n.attr]
        if isinstance(n, ast.Constant) and n.value == 1 and not isinstance(n.value, bool):
            return ["one"]
        if isinstance(n, ast.BinOp):
            ops = {ast.MatMult: "matmul", ast.Add: "add", ast.Sub: "sub", ast.Mult: "mul", ast.Div: "div"}
            if type(n.op) in ops:
                return [ops[type(n.op)], expr(n.left), expr(n.right)]
        if isinstance(n, ast.Call) and isinstance(n.func, ast.Attribute) and n.func.attr == "outer" and len(n.args) == 2 and not n.keywords:
            return ["outer", expr(n.args[0]), expr(n.args[1])]
        if isinstance(n, ast.Attribute) and n.attr == "T":
            return expr(n.value)        # the transpose of a 1-D array is itself
        raise ValueError("unsupported expression %s (line %d)" % (ast.dump(n)[:60], n.lineno))

    def has_encode(n):
        return any(isinstance(c, ast.Call) and isinstance(c.func, ast.Attribute) and c.func.attr == "encode" for c in ast.walk(n))

    for st in fn.body:
        if isinstance(st, ast.Expr) and isinstance(st.value, ast.Constant):
            continue                # docstring
        if isinstance(st, ast.If):
            # `if self._A_inv is None: self._initialize(...)`
            if all(isinstance(b, ast.Expr) and isinstance(b.value, ast.Call) for b in st.body) and not st.orelse:
                continue
            raise ValueError("unsupported if statement (line %d)" % st.lineno)
        if not (isinstance(st, ast.Assign) and len(st.targets) == 1):
            raise ValueError("unsupported statement (line %d)" % st.lineno)
        tgt, val = st.targets[0], st.value
        if isinstance(tgt, ast.Name):
            if has_encode(val):
                feat_names.add(tgt.id)
                continue
            if is_self_attr(val) and val.attr == "_np":
                skip_names.add(tgt.id)
                continue
            if isinstance(val, ast.BoolOp) and isinstance(val.op, ast.Or) and isinstance(val.values[0], ast.Name) and val.values[0].id == tgt.id:
                continue            # `context = context or []`
            e = expr(val)
            env[tgt.id] = len(env)
            prog.append(["assign", env[tgt.id], e])
        elif is_self_attr(tgt) and tgt.attr in attrs:
            prog.append(["setTheta" if attrs[tgt.attr] == ["theta"] else "setAinv", expr(val)])
        else:
            raise ValueError("unsupported assignment target (line %d)" % st.lineno)
    if not any(s[0] == "setTheta" for s in prog) or not any(s[0] == "setAinv" for s in prog):
        raise ValueError("learn does not assign both state variables")
    _PROGS[(repo, kind)] = prog
    return prog


LAST_KNOWN_PMF = {
    "linucb": {"prog": [["matmul", ["theta"], ["feats"]], ["einsumCols", ["matmul", ["ainv"], ["feats"]], ["feats"]],
                        ["add", ["mul", ["alpha"], ["fn1", ["var", 1]]], ["var", 0]]],
               "lhs": ["var", 2], "top": ["amax", ["var", 2]], "fn": "sqrt", "branch": None},
    "lints": {"prog": [["theta"], ["matmul", ["var", 0], ["feats"]]],
              "lhs": ["fn1", ["var", 1]], "top": ["fn1", ["amax", ["var", 1]]], "fn": "round5", "branch": "self._v == 0"},
}
_PMFS = {}


def extract_pmf_prog(kind, repo=None):
    """read the body of `_pmf` in linucb.py / lints.py off the source (ast), phase 5: the assignments after the feature matrix is
    built as expressions of the Lean type `PExp` (JSON form; local i = i-th assignment), the selection statement
    `M = np.where(L == R)[0]` as the pair (lhs, top) and the returned comprehension, which must be literally
    `[int(i in M)/len(M) for i in range(len(actions))]`.  The feature matrix is tracked with its orientation: `np.array([encode ...
    for action in actions])` is K x d, `.T` flips it, and it may only be used as d x K (columns = actions) on the right of `@` / in
    einsum('ij,ij->j').  `self._theta`/`_mu_hat` -> theta, `_A_inv`/`_B_inv` -> ainv, `self._alpha` -> alpha; ONE unary numpy function
    (np.sqrt(x) / x.round(5)) -> fn1, its name is returned.  For lints the branch `if self._v == 0` is read (the else branch draws
    from numpy's generator and is not modelled).  Anything else raises (the caller falls back and says so)."""
    import ast
    repo = repo or os.environ.get("COBA_REPO", "/repo")
    if (repo, kind) in _PMFS:
        return _PMFS[(repo, kind)]
    rel, cls = {"linucb": ("coba/learners/linucb.py", "LinUCBLearner"), "lints": ("coba/learners/lints.py", "LinTSLearner")}[kind]
    tree = ast.parse(open(os.path.join(repo, rel), encoding="utf-8").read())
    fn = None
    for node in ast.walk(tree):
        if isinstance(node, ast.ClassDef) and node.name == cls:
            for f in node.body:
                if isinstance(f, ast.FunctionDef) and f.name == "_pmf":
                    fn = f
    if fn is None:
        raise LookupError("%s._pmf not found" % cls)
    params = [a.arg for a in fn.args.args]
    if len(params) < 3:
        raise ValueError("unexpected signature of _pmf")
    actions_name = params[2]
    attrs = {"_theta": ["theta"], "_mu_hat": ["theta"], "_A_inv": ["ainv"], "_B_inv": ["ainv"], "_alpha": ["alpha"]}
    env, feat, fns, prog, sel, ret, branch = {}, {}, set(), [], None, None, [None]

    def is_self_attr(n):
        return isinstance(n, ast.Attribute) and isinstance(n.value, ast.Name) and n.value.id == "self"

    def is_np(n, name):
        return isinstance(n, ast.Call) and isinstance(n.func, ast.Attribute) and n.func.attr == name and isinstance(n.func.value, ast.Name) and not n.keywords

    def orient(n):
        """the feature matrix with its orientation, or None"""
        if isinstance(n, ast.Name) and n.id in feat:
            return feat[n.id]
        if isinstance(n, ast.Attribute) and n.attr == "T":
            o = orient(n.value)
            if o is not None:
                return "cols" if o == "rows" else "rows"
        return None

    def expr(n):
        o = orient(n)
        if o is not None:
            if o != "cols":
                raise ValueError("the feature matrix is used as K x d (line %d)" % n.lineno)
            return ["feats"]
        if isinstance(n, ast.Name):
            if n.id in env:
                return ["var", env[n.id]]
            raise ValueError("unknown name %s (line %d)" % (n.id, n.lineno))
        if is_self_attr(n) and n.attr in attrs:
            return attrs[n.attr]
        if isinstance(n, ast.BinOp):
            ops = {ast.MatMult: "matmul", ast.Add: "add", ast.Mult: "mul"}
            if type(n.op) in ops:
                l, r = expr(n.left), expr(n.right)
                if ops[type(n.op)] in ("add", "mul"):
                    # numpy's elementwise + and * commute (also on doubles): operands in a canonical order, so `a+b` and `b+a` read the same
                    l, r = sorted([l, r], key=lambda e: json.dumps(e))
                return [ops[type(n.op)], l, r]
        if is_np(n, "einsum") and len(n.args) == 3 and isinstance(n.args[0], ast.Constant) and n.args[0].value == "ij,ij->j":
            return ["einsumCols", expr(n.args[1]), expr(n.args[2])]
        if is_np(n, "amax") and len(n.args) == 1:
            return ["amax", expr(n.args[0])]
        if isinstance(n, ast.Call) and isinstance(n.func, ast.Attribute) and n.func.attr == "round" and len(n.args) == 1 \
                and isinstance(n.args[0], ast.Constant) and isinstance(n.args[0].value, int) and not n.keywords:
            fns.add("round%d" % n.args[0].value)
            return ["fn1", expr(n.func.value)]
        if isinstance(n, ast.Call) and isinstance(n.func, ast.Attribute) and isinstance(n.func.value, ast.Name) and len(n.args) == 1 and not n.keywords \
                and n.func.attr not in ("array", "where", "einsum", "outer"):
            fns.add(n.func.attr)
            return ["fn1", expr(n.args[0])]
        raise ValueError("unsupported expression %s (line %d)" % (ast.dump(n)[:60], n.lineno))

    def has_encode(n):
        return any(isinstance(c, ast.Call) and isinstance(c.func, ast.Attribute) and c.func.attr == "encode" for c in ast.walk(n))

    def feature_matrix(val):
        """np.array([... encode ... for action in actions]) possibly followed by .T"""
        flips = 0
        while isinstance(val, ast.Attribute) and val.attr == "T":
            val, flips = val.value, flips + 1
        if not (is_np(val, "array") and len(val.args) == 1 and isinstance(val.args[0], ast.ListComp)):
            raise ValueError("the feature matrix is not np.array([... for action in actions]) (line %d)" % val.lineno)
        lc = val.args[0]
        if not (len(lc.generators) == 1 and isinstance(lc.generators[0].iter, ast.Name) and lc.generators[0].iter.id == actions_name
                and not lc.generators[0].ifs and isinstance(lc.elt, ast.Call) and has_encode(lc.elt)):
            raise ValueError("the feature matrix is not built from one encode call per action (line %d)" % val.lineno)
        return "rows" if flips % 2 == 0 else "cols"

    def stmts(body):
        nonlocal sel, ret
        for st in body:
            if isinstance(st, ast.Expr) and isinstance(st.value, ast.Constant):
                continue
            if isinstance(st, ast.If):
                if all(isinstance(b, ast.Expr) and isinstance(b.value, ast.Call) for b in st.body) and not st.orelse:
                    continue            # `if self._A_inv is None: self._initialize(...)`
                tst = st.test
                if isinstance(tst, ast.Compare) and is_self_attr(tst.left) and tst.left.attr == "_v" and len(tst.ops) == 1 and isinstance(tst.ops[0], ast.Eq) \
                        and isinstance(tst.comparators[0], ast.Constant) and tst.comparators[0].value == 0 and branch[0] is None:
                    branch[0] = "self._v == 0"
                    stmts(st.body)
                    continue
                raise ValueError("unsupported if statement (line %d)" % st.lineno)
            if isinstance(st, ast.Return):
                if sel is None or ret is not None:
                    raise ValueError("return before the selection (line %d)" % st.lineno)
                v = st.value
                ok = isinstance(v, ast.ListComp) and len(v.generators) == 1 and isinstance(v.generators[0].target, ast.Name)
                if ok:
                    i = v.generators[0].target.id
                    want = ast.parse("[int(%s in %s)/len(%s) for %s in range(len(%s))]" % (i, sel[0], sel[0], i, actions_name), mode="eval").body
                    ok = ast.dump(v) == ast.dump(want)
                if not ok:
                    raise ValueError("the returned expression is not [int(i in M)/len(M) for i in range(len(actions))] (line %d)" % st.lineno)
                ret = True
                continue
            if not (isinstance(st, ast.Assign) and len(st.targets) == 1 and isinstance(st.targets[0], ast.Name)):
                raise ValueError("unsupported statement (line %d)" % st.lineno)
            if sel is not None:
                raise ValueError("assignment after the selection (line %d)" % st.lineno)
            tgt, val = st.targets[0].id, st.value
            if has_encode(val):
                feat[tgt] = feature_matrix(val)
                continue
            if is_self_attr(val) and val.attr == "_np":
                continue
            if isinstance(val, ast.BoolOp) and isinstance(val.op, ast.Or) and isinstance(val.values[0], ast.Name) and val.values[0].id == tgt:
                continue                # `context = context or []`
            if isinstance(val, ast.Subscript) and is_np(val.value, "where"):
                idx = val.slice
                cmp_ = val.value.args[0] if len(val.value.args) == 1 else None
                if not (isinstance(idx, ast.Constant) and idx.value == 0 and isinstance(cmp_, ast.Compare) and len(cmp_.ops) == 1
                        and isinstance(cmp_.ops[0], ast.Eq)):
                    raise ValueError("the selection is not np.where(L == R)[0] (line %d)" % st.lineno)
                sel = (tgt, expr(cmp_.left), expr(cmp_.comparators[0]))
                continue
            e = expr(val)
            env[tgt] = len(env)
            prog.append(e)

    stmts(fn.body)
    if sel is None or not ret:
        raise ValueError("_pmf has no selection / return of the expected form")
    if len(fns) > 1:
        raise ValueError("more than one unary numpy function: %s" % sorted(fns))
    out = {"prog": prog, "lhs": sel[1], "top": sel[2], "fn": (sorted(fns)[0] if fns else None), "branch": branch[0]}
    _PMFS[(repo, kind)] = out
    return out


def lean_pexp(e):
    if e[0] in ("theta", "ainv", "feats", "alpha"):
        return "." + e[0]
    if e[0] == "var":
        return "(.var %d)" % e[1]
    return "(.%s %s)" % (e[0], " ".join(lean_pexp(x) for x in e[1:]))


def lean_lexp(e):
    if e[0] in ("theta", "ainv", "feat", "reward", "one"):
        return "." + e[0]
    if e[0] == "var":
        return "(.var %d)" % e[1]
    return "(.%s %s %s)" % (e[0], lean_lexp(e[1]), lean_lexp(e[2]))


def lean_prog(prog):
    out = []
    for s in prog:
        out.append(".assign %d %s" % (s[1], lean_lexp(s[2])) if s[0] == "assign" else ".%s %s" % (s[0], lean_lexp(s[1])))
    return "[" + ",\n   ".join(out) + "]"


def write_generated(lean_dir):
    """regenerate lean/CobaVerif/Generated/C20LinAlg.lean from the CURRENT source; returns notes for the evidence"""
    notes, defs, ok = [], [], True
    for kind in ("linucb", "lints"):
        try:
            prog = extract_learn_prog(kind)
            notes.append("%s.learn read off the source: %d statements" % (kind, len(prog)))
        except Exception as e:
            ok = False
            prog = LAST_KNOWN_PROG[kind]
            defs.append("-- %s: learn could not be read off the source (%s); last known program:" % (kind, str(e).replace("\n", " ")[:150]))
            notes.append("%s.learn could NOT be read off the source (%s); %s_learn_source is about the last known program; the learner histories still run the real code" % (kind, e, kind))
        defs.append("def %sLearn : List LStmt :=\n  %s" % (kind, lean_prog(prog)))
    pok = True
    for kind in ("linucb", "lints"):
        try:
            pm = extract_pmf_prog(kind)
            notes.append("%s._pmf read off the source: %d assignments, selection, unary function %s" % (kind, len(pm["prog"]), pm["fn"]))
        except Exception as e:
            pok = False
            pm = LAST_KNOWN_PMF[kind]
            defs.append("-- %s: _pmf could not be read off the source (%s); last known program:" % (kind, str(e).replace("\n", " ")[:150]))
            notes.append("%s._pmf could NOT be read off the source (%s); %s_predict_source is about the last known program; the learner histories still run the real code" % (kind, e, kind))
        defs.append("def %sPredict : List PExp :=\n  [%s]" % (kind, ",\n   ".join(lean_pexp(e) for e in pm["prog"])))
        defs.append("def %sPredictLhs : PExp := %s" % (kind, lean_pexp(pm["lhs"])))
        defs.append("def %sPredictTop : PExp := %s" % (kind, lean_pexp(pm["top"])))
        defs.append("def %sPredictFn : String := %s" % (kind, json.dumps(pm["fn"] or "")))
    defs.append("def predictExtracted : Bool := %s" % ("true" if pok else "false"))
    body = ("-- GENERATED by harness/props/c20.py (props/c20_learner.py) from the bodies of `learn` and `_pmf` in coba/learners/linucb.py and lints.py\n"
            "-- on every run; do not edit.\nimport CobaVerif.Model.C20\nnamespace Coba.Generated.C20\nopen Coba.C20\n"
            + "\n".join(defs) + "\ndef linalgExtracted : Bool := %s\nend Coba.Generated.C20\n" % ("true" if ok else "false"))
    path = os.path.join(lean_dir, "CobaVerif", "Generated", "C20LinAlg.lean")
    old = open(path, encoding="utf-8").read() if os.path.exists(path) else None
    if old != body:
        with open(path, "w", encoding="utf-8") as f:
            f.write(body)
    return notes
