"""Controlled (baton-passing) scheduler + thread-based fakes for C08.

Only the thread that holds the baton runs.  Yield points are the fake queue's put/get/get_nowait,
the fake event's wait, the start of a fake process / thread / callback and the end of a thread.
At each yield point a chooser picks the next runnable thread (a thread blocked on an empty /
full queue or an unset event is not runnable).  No runnable thread while the caller has not
finished = the call hangs; this is reported to the caller's thread as `Hang`.

The fakes run the REAL coba code: `ProcessLine.run` (on a private pickled copy of the line, as
`spawn` does), `ThreadLine.run`, `SourceSink.run`, `QueueSource.read`, `QueueSink.write`, `Slice`,
`Foreach`, `Stopper`, `Pickler`/`Unpickler`, and both callbacks.  Every observed step is logged as
an action of the Lean model (lean/CobaVerif/Model/C08.lean).
"""
import collections
import ctypes
import io
import pickle
import threading
import time
from queue import Empty, Full


class Abort(BaseException):
    """unwinds a scheduled background thread"""


class Hang(BaseException):
    """raised in the caller's thread: nothing can run (or a limit was hit)"""

    def __init__(self, reason):
        super().__init__(reason)
        self.reason = reason


TRUE = lambda: True


class T:
    __slots__ = ("name", "role", "lineage", "sem", "pred", "done", "thread", "started", "call")

    def __init__(self, name, role, lineage, call=0):
        self.name, self.role, self.lineage, self.call = name, role, lineage, call
        self.sem = threading.Semaphore(0)
        self.pred = None
        self.done = False
        self.thread = None
        self.started = False


class Sched:
    def __init__(self, chooser, step_limit=4000, wall=20.0):
        self.chooser = chooser
        self.step_limit = step_limit
        self.deadline = time.time() + wall
        self.wall = wall
        self.threads = []
        self.cur = None
        self.main = None
        self.log = []
        self.choices = []        # (index chosen, number runnable) at every real choice
        self.aborted = False
        self.reason = None
        self.steps = 0
        self.lineages = 0
        self.incarnations = collections.Counter()
        self.table = {}          # persistent-id table for private copies
        self.call = 0            # index of the filter() call of a history that the caller is in
        self.call_marks = [0]    # log position at which each call started
        self.escaped = []        # exceptions that escaped a scheduled background thread
        self.keys = {}           # read_wait: UniqueKey number -> lineage of the process that owns it
        self.rw_programs = []    # phase 6: per started read_wait process, the op sequence of the REAL MyProcessLine.run
        self.rw_prog_of = {}     # id(thread record) -> that process' op list
        self.rw_starts = []      # phase 6: per process start with the REAL MyProcessLine.start: (store given, store non-empty, registered)
        self.np_probe = None     # callable returning the current `_n_procs` (or None)
        self.none_code = None    # how a `None` popped from out_queue by the caller is reported (see c08.py)

    # ---- threads
    def register_main(self):
        t = T("M", "M", None)
        t.thread = threading.current_thread()
        t.started = True
        self.threads.append(t)
        self.cur = self.main = t
        return t

    def me(self):
        cur = threading.current_thread()
        if self.aborted:
            for t in self.threads:
                if t.thread is cur:
                    return t
            raise Abort()
        t = self.cur
        if t is None or t.thread is not cur:
            raise RuntimeError("C08 scheduler: a thread that does not hold the baton touched a controlled object")
        return t

    def next_call(self):
        """the caller starts another filter() call on the same object: threads of the earlier call(s) that are still
        around stay scheduled (they are what the real code leaves behind); lineages are numbered per call"""
        self.call += 1
        self.main.call = self.call
        self.lineages = 0
        self.call_marks.append(len(self.log))

    def spawn(self, name, role, lineage, fn, on_exit=None):
        call = self.cur.call if self.cur is not None else self.call
        if call:
            name = "%d/%s" % (call, name)
        t = T(name, role, lineage, call)
        t.pred = TRUE

        def wrapper():
            t.sem.acquire()
            if self.aborted:
                t.done = True
                return
            t.started = True
            t.pred = None
            try:
                fn()
                if on_exit is not None and not self.aborted:
                    on_exit()
            except Abort:
                t.done = True
                return
            except BaseException as e:
                # the real thread would die here with a traceback on stderr; so does this one.
                # (recorded: an escape is never expected on the unchanged tree)
                import traceback as _tb
                self.escaped.append("%s: %r @ %s" % (name, e, _tb.format_exc()[-400:]))
            t.done = True
            if not self.aborted:
                self._dispatch_from_exit()

        t.thread = threading.Thread(target=wrapper, name=name, daemon=True)
        self.threads.append(t)
        t.thread.start()
        return t

    # ---- baton
    def fail(self, reason):
        if not self.aborted:
            self.aborted = True
            self.reason = reason

    def _wake_main(self):
        self.cur = self.main
        self.main.sem.release()

    def _runnable(self):
        out = []
        for t in self.threads:
            if not t.done and t.pred is not None:
                if t.pred():
                    out.append(t)
        return out

    def _limits(self):
        self.steps += 1
        if self.steps > self.step_limit:
            self.fail("step-limit")
        elif time.time() > self.deadline:
            self.fail("wall-limit")

    def _pick(self, runnable):
        if hasattr(self.chooser, "pick_all"):          # sleep-set enumeration: sees every scheduling point, forced ones too
            runnable.sort(key=lambda t: t.name)
            return self.chooser.pick_all(runnable, self)
        if len(runnable) == 1:
            return runnable[0]
        runnable.sort(key=lambda t: t.name)
        t = self.chooser(runnable, self)
        self.choices.append((runnable.index(t), len(runnable)))
        return t

    def coin(self):
        """a scheduler-decided binary choice (0/1): does a timed put/get give up now?  Recorded like a thread choice,
        so the DFS explores both branches."""
        i = self.chooser.flip(self)
        self.choices.append((i, 2))
        return i

    def timed_wait(self, blocked, exc):
        """a put/get with a finite timeout on a full/empty queue: the thread stays runnable (the timeout will fire at some
        point); the scheduler decides adversarially whether it fires now or others run first (at most 3 rounds)."""
        rounds = 0
        while blocked():
            if rounds >= 3 or self.coin() == 1:
                raise exc()
            rounds += 1
            self.yield_point()

    def yield_point(self, pred=None):
        me = self.me()
        if self.aborted:
            self._unwind(me)
        me.pred = pred or TRUE
        self._limits()
        if self.aborted:
            self._unwind(me)
        runnable = self._runnable()
        if not runnable:
            self.fail("deadlock")
            self._unwind(me)
        nxt = self._pick(runnable)
        if self.aborted:
            self._unwind(me)
        if nxt is not me:
            self.cur = nxt
            nxt.sem.release()
            if me is self.main:
                if not me.sem.acquire(timeout=max(1.0, self.deadline - time.time() + 5.0)):
                    self.fail("wall-limit")
            else:
                me.sem.acquire()
            if self.aborted:
                self._unwind(me)
        me.pred = None

    def _unwind(self, me):
        me.pred = None
        if me is self.main:
            raise Hang(self.reason)
        self._wake_main()
        raise Abort()

    def _dispatch_from_exit(self):
        self._limits()
        if self.aborted:
            self._wake_main()
            return
        runnable = self._runnable()
        if not runnable:
            if self.main.done:
                return
            self.fail("deadlock")
            self._wake_main()
            return
        nxt = self._pick(runnable)
        if self.aborted:
            self._wake_main()
            return
        self.cur = nxt
        nxt.sem.release()

    def shutdown(self):
        """called by the caller's thread when the run is over: unwind everything that is still parked"""
        self.aborted = True
        if self.reason is None:
            self.reason = "shutdown"
        self.main.done = True
        for t in self.threads:
            if t is not self.main and not t.done:
                t.sem.release()
        for t in self.threads:
            if t is not self.main and t.thread is not None:
                t.thread.join(timeout=2.0)

    # ---- logging
    def act(self, a, **kw):
        d = {"a": a, "c": self.cur.call if self.cur is not None else self.call}
        d.update(kw)
        self.log.append(d)

    # ---- private copies (what `spawn` does by pickling the Process object)
    def private_copy(self, obj):
        buf = io.BytesIO()
        table = self.table

        class P(pickle.Pickler):
            def persistent_id(self_, o):
                if isinstance(o, (FakeQueue, FakeEvent, ctypes.Array)) or type(o).__module__.startswith("multiprocessing."):
                    table[id(o)] = o
                    return id(o)
                return None

        class U(pickle.Unpickler):
            def persistent_load(self_, pid):
                return table[pid]

        P(buf, protocol=pickle.HIGHEST_PROTOCOL).dump(obj)
        buf.seek(0)
        return U(buf).load()


# ------------------------------------------------------------------ fakes
class FakeEvent:
    def __init__(self, sched):
        self.sched = sched
        self.flag = False

    def set(self):
        self.sched.me()
        self.flag = True

    def is_set(self):
        return self.flag

    def clear(self):
        self.flag = False

    def wait(self, timeout=None):
        s = self.sched
        me = s.me()
        if s.aborted:
            if me is s.main:
                raise Hang(s.reason)
            raise Abort()
        s.yield_point(lambda: self.flag)
        if me.role == "M":
            s.act("mEvent")
        return True


class FakeQueue:
    def __init__(self, sched, maxsize=0):
        self.sched = sched
        self.maxsize = maxsize
        self.kind = "in" if maxsize > 0 else "out"
        self.q = collections.deque()

    # observation helpers
    def _obs_in(self, x):
        if x is None:
            return -1
        try:
            v = pickle.loads(x)
            if v is None or isinstance(v, (bool, str)) or (isinstance(v, list) and not v):
                return 0        # the falsy head item of the stream (see c08_filters.item_key)
            return int(v[0] if isinstance(v, list) else v)
        except Exception:
            return None

    def _obs_out(self, x, popping=False):
        if isinstance(x, int) and not isinstance(x, bool):
            return x
        if x is None:
            if popping and self.sched.none_code is None:
                return -1            # the consumer reads None as the pill
            return self.sched.none_code if self.sched.none_code is not None else -1
        return -1

    def qsize(self):
        return len(self.q)

    def empty(self):
        return not self.q

    def full(self):
        return self.maxsize > 0 and len(self.q) >= self.maxsize

    def close(self):
        pass

    def join_thread(self):
        pass

    def cancel_join_thread(self):
        pass

    def put(self, x, block=True, timeout=None):
        s = self.sched
        me = s.me()
        if s.aborted:
            if me is s.main:
                raise Hang(s.reason)
            raise Abort()
        timed = (not block) or (timeout is not None)
        if self.kind == "in":
            if me.role == "L":
                s.act("loadTake", x=self._obs_in(x))
            if timed:
                s.yield_point()
                try:
                    if not block:
                        if self.full():
                            raise Full()
                    else:
                        s.timed_wait(self.full, Full)
                except Full:
                    if me.role == "L":
                        s.act("putTimeout")      # the model's environment action (enabled only when Cfg.timeouts)
                    raise
            else:
                s.yield_point(lambda: not self.full())
            self.q.append(x)
            if me.role == "L":
                s.act("loadPut", x=self._obs_in(x))
            else:
                s.act("foreignPut", who=me.name, q="in")
        else:
            if me.role == "C":
                # the callback's pill: unbounded queue, cannot block; part of the callback step
                self.q.append(x)
            elif me.role == "W":
                s.yield_point()
                self.q.append(x)
                if type(x).__name__ == "UniqueKey":
                    s.act("wKey", w=me.lineage)          # read_wait: the process writes its key
                    if id(me) in s.rw_prog_of:
                        s.rw_prog_of[id(me)].append(1)
                else:
                    s.act("wPut", w=me.lineage, x=self._obs_out(x))
            else:
                s.yield_point()
                self.q.append(x)
                s.act("foreignPut", who=me.name, q="out")

    def get(self, block=True, timeout=None):
        s = self.sched
        me = s.me()
        if s.aborted:
            if me is s.main:
                raise Hang(s.reason)
            raise Abort()
        if not block:
            return self.get_nowait()
        if timeout is not None:
            s.yield_point()
            s.timed_wait(lambda: not self.q, Empty)
        else:
            s.yield_point(lambda: len(self.q) > 0)
        x = self.q.popleft()
        if self.kind == "in" and me.role == "W":
            s.act("wGet", w=me.lineage, x=self._obs_in(x))
        elif self.kind == "out" and me.role == "M":
            if type(x).__name__ == "UniqueKey":
                s.act("cKey", w=s.keys.get(x._n, 99))    # read_wait: the caller reads a key (and sets that process' event)
            else:
                s.act("cGet", x=self._obs_out(x, popping=True))
        else:
            s.act("foreignGet", who=me.name, q=self.kind)
        return x

    def get_nowait(self):
        s = self.sched
        me = s.me()
        if not s.aborted:
            s.yield_point()
        if not self.q:
            raise Empty()
        x = self.q.popleft()
        if me.role == "M":
            if self.kind == "out" and type(x).__name__ == "UniqueKey":
                s.act("drainKey")
            else:
                s.act("drainIn" if self.kind == "in" else "drainOut")
        else:
            s.act("foreignGet", who=me.name, q=self.kind)
        return x


class FakeContext:
    def __init__(self, sched):
        self.sched = sched

    def Event(self):
        return FakeEvent(self.sched)

    def Queue(self, maxsize=0):
        return FakeQueue(self.sched, maxsize)


class _Send:
    def __init__(self):
        self.value = None
        self.hook = None

    def send(self, v):
        self.value = v
        if self.hook is not None:
            self.hook(v)

    def close(self):
        pass


class _KilledWaiting(BaseException):
    """the process dies while it waits for the caller to read its key (fault `kill_wait`)"""


class _WaitProxy:
    """the event a read_wait process waits on (phase 6: handed to the REAL MyProcessLine.run): delegates to the FakeEvent the real `start`
    registered; `sched.kill_wait` = ordinals of the waiting processes that die while they wait — the scheduler chooses the moment (one more
    yield point); if the caller has read the key by then the process just exits"""

    def __init__(self, sched, ev):
        self.sched, self.ev = sched, ev

    def set(self):
        self.ev.set()

    def is_set(self):
        return self.ev.is_set()

    def wait(self, timeout=None):
        sched = self.sched
        if getattr(self, "prog", None) is not None:
            self.prog.append(2)
        nwait = getattr(sched, "nwaits", 0)
        sched.nwaits = nwait + 1
        if nwait in getattr(sched, "kill_wait", ()):
            sched.yield_point(lambda: True)
            if not self.ev.flag:
                raise _KilledWaiting()
        return self.ev.wait()


class _Child:
    """what arrives in the spawned process: a private copy of the line + the sending end of the pipe"""

    def __init__(self, line):
        self._line = line
        self._send = _Send()


def make_fakes(sched, real_process_line, real_thread_line):
    """fake `MyProcessLine` and `ThreadLine` classes bound to one scheduler"""

    class FakeProcessLine:
        def __init__(self, line, callback=None, read_wait_store=None):
            self._line = line
            self._callback = callback
            self._read_waiters = read_wait_store
            self._alive = False
            self._started = False
            self.exitcode = None
            cur = sched.cur
            # a replacement created by a callback belongs to the lineage of the worker that retired
            self.lineage = cur.lineage if (cur is not None and cur.role == "C") else None
            self.pid = None

        def start(self):
            sched.me()
            if self.lineage is None:
                self.lineage = sched.lineages
                sched.lineages += 1
            w = self.lineage
            ck = (sched.cur.call, w)
            sched.incarnations[ck] += 1
            name = "W%d.%d" % (w, sched.incarnations[ck])
            self.pid = 100000 + 100 * w + sched.incarnations[ck]
            child = _Child(sched.private_copy(self._line))
            self._alive = True
            self._started = True
            # read_wait (what MyProcessLine.start does): an event + a UniqueKey registered in the caller's dict
            rw = self._read_waiters
            wait_ev = wait_key = None
            shim = None
            real_my = getattr(sched, "real_my_process_line", None)
            if rw is not None and real_my is not None:
                # phase 6: the REAL `MyProcessLine.start` is executed on a shim object of the real class (only `ProcessLine.start`, which would
                # create the OS process, is a no-op while it runs): it creates the event (the substituted spawn_context gives a FakeEvent) and the
                # UniqueKey and registers them in the caller's dict; the REAL `MyProcessLine.run` is executed on the same shim in `body` below
                shim = object.__new__(real_my)
                shim._read_waiters = rw
                shim._line, shim._send = child._line, child._send
                n_before = len(rw)
                saved_start = real_process_line.__dict__["start"]
                real_process_line.start = lambda self_: None
                try:
                    real_my.start(shim)
                finally:
                    real_process_line.start = saved_start
                wait_ev, wait_key = getattr(shim, "_wait", None), getattr(shim, "_wait_key", None)
                sched.rw_starts.append({"store": True, "non_empty": n_before > 0,
                                        "registered": bool(wait_key is not None and wait_ev is not None and rw.get(wait_key) is wait_ev),
                                        "store_removed": not hasattr(shim, "_read_waiters")})
                if wait_key is not None:
                    sched.keys[wait_key._n] = w
                    shim._wait_key = pickle.loads(pickle.dumps(wait_key))      # the child works on a pickled copy
                if wait_ev is not None:
                    shim._wait = _WaitProxy(sched, wait_ev)
            elif rw is not None:
                import coba.pipes.multiprocessing as _cpm
                wait_ev = FakeEvent(sched)
                wait_key = _cpm.UniqueKey()
                rw[wait_key] = wait_ev
                sched.keys[wait_key._n] = w

            # phase 5: the process dies before `run` is entered (what a missing `__main__` guard does to EVERY spawned child: exit code 1);
            # `sched.kill_spawn` = ordinals (per scheduler) of the process starts that die this way
            ordinal = getattr(sched, "nstarts", 0)
            sched.nstarts = ordinal + 1
            dies_at_start = ordinal in getattr(sched, "kill_spawn", ())

            def body():
                if dies_at_start:
                    self._alive = False
                    self.exitcode = 1
                    sched.act("wKilled", w=w, spawned=1)      # model action `wCrash w` from the W state `spawned`
                    return
                sched.act("wBegin", w=w)
                if shim is not None:
                    # phase 6: REAL `MyProcessLine.run` = real `ProcessLine.run` (line + exception capture + send), then — iff the real `start`
                    # created `_wait` — write the key through the child's REAL QueueSink and wait on the event
                    prog = []          # what the REAL run() does, as codes of the model's RWOp: 0 line ended (send), 1 key written, 2 waits
                    sched.rw_programs.append({"w": w, "has_wait": hasattr(shim, "_wait"), "ops": prog, "done": False})
                    rec = sched.rw_programs[-1]
                    sched.rw_prog_of[id(sched.me())] = prog
                    if isinstance(getattr(shim, "_wait", None), _WaitProxy):
                        shim._wait.prog = prog

                    def after_send(v):
                        prog.append(0)
                        ex, tb, po = pickle.loads(pickle.dumps(v))
                        self._exception, self._traceback, self._poisoned = ex, tb, po
                        if ex is not None:
                            sched.act("wRaise", w=w)
                        elif not po:
                            sched.act("wRetire", w=w)
                    child._send.hook = after_send
                    try:
                        real_my.run(shim)
                    except BaseException as e:
                        if type(e).__name__ == "WorkerKilled":
                            self._alive = False
                            self.exitcode = -9
                            sched.act("wKilled", w=w)
                            return
                        if isinstance(e, _KilledWaiting):
                            self._alive = False
                            self.exitcode = -9
                            sched.act("wKilledKey", w=w)
                            return
                        raise
                    rec["done"] = True
                    self._alive = False
                    self.exitcode = 0
                    return
                try:
                    real_process_line.run(child)       # REAL code: line.run() + exception capture + send
                except BaseException as e:
                    if type(e).__name__ != "WorkerKilled":
                        raise
                    # the process was killed: nothing is reported through the pipe, the exit code is the signal's
                    self._alive = False
                    self.exitcode = -9
                    sched.act("wKilled", w=w)         # model action `wCrash w` (fault extension)
                    return
                ex, tb, po = pickle.loads(pickle.dumps(child._send.value))
                self._exception, self._traceback, self._poisoned = ex, tb, po
                if wait_ev is None:
                    self._alive = False
                    self.exitcode = 0
                if ex is not None:
                    sched.act("wRaise", w=w)
                elif not po:
                    sched.act("wRetire", w=w)
                if wait_ev is not None:
                    # read_wait (what MyProcessLine.run does after the line ended): write the key, wait for the caller
                    child._line[-1].write([pickle.loads(pickle.dumps(wait_key))])
                    # phase 5 (crash × read_wait): `sched.kill_wait` = ordinals of the waiting processes that die while they wait; the scheduler
                    # chooses the moment (one more yield point); if the caller has read the key by then the process just exits
                    nwait = getattr(sched, "nwaits", 0)
                    sched.nwaits = nwait + 1
                    if nwait in getattr(sched, "kill_wait", ()):
                        sched.yield_point(lambda: True)
                        if not wait_ev.flag:
                            self._alive = False
                            self.exitcode = -9
                            sched.act("wKilledKey", w=w)      # model action `wCrashKey w`
                            return
                    wait_ev.wait()
                    self._alive = False
                    self.exitcode = 0

            def on_exit():
                cb = self._callback
                if cb is None:
                    return

                def cb_body():
                    cb(self)                          # REAL callback
                    np = None
                    if sched.np_probe is not None:
                        try:
                            np = sched.np_probe()
                        except Exception:
                            np = None
                    if np is None:
                        sched.act("wCallback", w=w)
                    else:
                        sched.act("wCallback", w=w, np=np)

                sched.spawn("C%d.%d" % (w, sched.incarnations[ck]), "C", w, cb_body)

            sched.spawn(name, "W", w, body, on_exit)

        def join(self, timeout=None):
            # like the real join: blocks the caller until the thread / process has really finished
            # (a join on a loader that is parked on a full in_queue is a hang, found by the deadlock detection)
            if sched.aborted:
                me = sched.me()
                if me is sched.main:
                    raise Hang(sched.reason)
                raise Abort()
            sched.me()
            sched.yield_point(lambda: not self._alive)
            return None

        def is_alive(self):
            return self._alive

        @property
        def pipeline(self):
            return self._line

        @property
        def exception(self):
            return getattr(self, "_exception", None)

        @property
        def traceback(self):
            return getattr(self, "_traceback", None)

        @property
        def poisoned(self):
            return getattr(self, "_poisoned", False)

    class FakeThreadLine:
        def __init__(self, line, callback=None):
            self._line = line
            self._callback = callback
            self._exception = None
            self._traceback = None
            self._poisoned = False
            self._alive = False

        def start(self):
            sched.me()
            self._alive = True

            def body():
                real_thread_line.run(self)             # REAL code (shared memory, like the real thread)
                if self._exception is not None:
                    # the loader died while fetching/pickling its next element (same baton hold as the failure)
                    sched.act("loadTake", fail=type(self._exception).__name__)
                self._alive = False

            def on_exit():
                cb = self._callback
                if cb is None:
                    return

                def cb_body():
                    sched.act("loadFinish")
                    cb(self)                          # REAL callback: writes the pills through the Stopper

                sched.spawn("LC", "L", None, cb_body)

            sched.spawn("L", "L", None, body, on_exit)

        def join(self, timeout=None):
            # like the real join: blocks the caller until the thread / process has really finished
            # (a join on a loader that is parked on a full in_queue is a hang, found by the deadlock detection)
            if sched.aborted:
                me = sched.me()
                if me is sched.main:
                    raise Hang(sched.reason)
                raise Abort()
            sched.me()
            sched.yield_point(lambda: not self._alive)
            return None

        def is_alive(self):
            return self._alive

        @property
        def pipeline(self):
            return self._line

        @property
        def exception(self):
            return self._exception

        @property
        def traceback(self):
            return self._traceback

        @property
        def poisoned(self):
            return self._poisoned

    return FakeProcessLine, FakeThreadLine


# ------------------------------------------------------------------ choosers
class PolicyChooser:
    """PRNG chooser with per-role weights, per-lineage weights and stickiness; an explicit prefix of
    choice indexes (DFS) is consumed first."""

    def __init__(self, rng, policy=None, prefix=None):
        self.rng = rng
        self.policy = policy or {}
        self.prefix = list(prefix or [])
        self.k = 0
        self.last = None

    def flip(self, sched):
        if self.k < len(self.prefix):
            i = 1 if self.prefix[self.k] else 0
            self.k += 1
            return i
        self.k += 1
        if self.rng is None:
            return 0
        return int(self.rng.below(100) < self.policy.get("timeout_pct", 50))

    def __call__(self, runnable, sched):
        if self.k < len(self.prefix):
            i = self.prefix[self.k]
            self.k += 1
            t = runnable[i] if i < len(runnable) else runnable[-1]
            self.last = t
            return t
        self.k += 1
        if self.rng is None:
            t = runnable[0]
            self.last = t
            return t
        pol = self.policy
        rw = pol.get("roles", {})
        lw = pol.get("lineages", [])
        sticky = pol.get("sticky", 1)
        ws = []
        for t in runnable:
            w = rw.get(t.role, 4)
            if t.lineage is not None and t.lineage < len(lw):
                w *= lw[t.lineage]
            if t is self.last:
                w *= sticky
            ws.append((max(1, int(w)), t))
        t = self.rng.wchoice(ws)
        self.last = t
        return t


# ------------------------------------------------------------------ sleep-set (partial-order) reduction
def _lin(a):
    return a.get("w") if a["a"] in ("wBegin", "wGet", "wPut", "wRaise", "wRetire", "wCallback") else None


_LOCAL = ("wBegin", "wRaise", "wRetire")
_TABLE = {("loadTake", "wPut"), ("loadTake", "wGet"), ("loadTake", "wCallback"), ("loadTake", "mEvent"),
          ("loadPut", "wPut"), ("loadPut", "wCallback"), ("loadPut", "cGet"), ("loadPut", "mEvent"),
          ("wGet", "cGet"), ("wGet", "mEvent"), ("wPut", "mEvent")}
_TABLE_NE = {("wGet", "wPut"), ("wGet", "wCallback")}        # independent when on different lineages


def _indep1(a, b):
    if a["a"] in _LOCAL and _lin(b) != _lin(a):
        return True
    k = (a["a"], b["a"])
    if k in _TABLE:
        return True
    return k in _TABLE_NE and a.get("w") != b.get("w")


# phase 4: the two pairs on one queue whose steps commute whenever BOTH are possible (Coba.C08.indepExtra1, theorem step_comm2):
# a thread in a sleep set was runnable when it fell asleep (a caller blocked on an empty out-queue / a loader blocked on a
# full in-queue is not runnable, so it is never in one) and commutation keeps it enabled
_TABLE2 = {("wPut", "cGet"), ("loadPut", "wGet")}
USE_INDEP2 = True


def indep(a, b):
    """Python copy of `Coba.C08.indep2` (= `indep` + `indepExtra1`, Model/C08.lean; soundness = theorems `step_comm`,
    `step_comm2`); cross-checked against the Lean driver on the pairs met during an enumeration"""
    if _indep1(a, b) or _indep1(b, a):
        return True
    return USE_INDEP2 and ((a["a"], b["a"]) in _TABLE2 or (b["a"], a["a"]) in _TABLE2)


def seg_indep(s1, s2):
    """two scheduling segments (what a thread does between two yield points) are independent when every pair of their
    actions is; a segment without a model action, or with a step the model does not have, is treated as dependent"""
    if not s1 or not s2:
        return False
    return all(indep(a, b) for a in s1 for b in s2)


class PorPruned(Exception):
    pass


class PorChooser:
    """stateless depth-first enumeration with sleep sets: one frame per scheduling point (forced ones included);
    a thread sleeps at a point when the schedules starting with it there are already covered by an explored sibling and
    everything executed since is independent of its pending segment"""

    def __init__(self, frames, forced=(), root_sleep=None):
        self.root_sleep = dict(root_sleep or {})   # sleep set at the first free scheduling point (inherited from the split)
        self.forced = list(forced)    # thread names imposed at the first scheduling points (a subtree of the enumeration)
        self.frames = frames          # shared with the enumeration loop; frames[:len(prefix)] are replayed
        self.replay = len(frames)
        self.d = 0
        self.mark = 0
        self.pairs = []               # (action, action, answer) met, for the cross-check with Lean
        self.pruned = False

    def flip(self, sched):
        return 0

    def _close_segment(self, sched):
        seg = sched.log[self.mark:]
        self.mark = len(sched.log)
        if self.d > 0:
            self.frames[self.d - 1]["seg"] = [dict(a) for a in seg]
        return seg

    def pick_all(self, runnable, sched):
        seg = self._close_segment(sched)
        names = [t.name for t in runnable]
        if self.d < self.replay:
            fr = self.frames[self.d]
            name = fr["chosen"]
            if name not in names:
                raise RuntimeError("C08 POR: schedule replay diverged at depth %d (%s not in %s)" % (self.d, name, names))
        else:
            sleep = {}
            if self.d > 0:
                par = self.frames[self.d - 1]
                cand = dict(par["sleep"])
                cand.update(par["done"])
                for nm, sg in cand.items():
                    ok = seg_indep(sg, seg)
                    if sg and seg and len(self.pairs) < 60:
                        self.pairs.append((sg[0], seg[0], indep(sg[0], seg[0])))
                    if ok:
                        sleep[nm] = sg
            if self.d == len(self.forced) and self.forced:
                sleep = dict(self.root_sleep)
            free = [nm for nm in names if nm not in sleep]
            if self.d < len(self.forced):
                # the root of a subtree: no sleep set is inherited (sound: only less pruning), the choice is imposed
                sleep = {}
                free = [self.forced[self.d]] if self.forced[self.d] in names else []
            fr = {"runnable": names, "sleep": sleep, "done": {}, "chosen": free[0] if free else None, "seg": None}
            self.frames.append(fr)
            if not free:
                self.pruned = True
                sched.fail("por-pruned")          # every continuation from here is equivalent to an explored one
                return runnable[0]
            name = fr["chosen"]
        self.d += 1
        return runnable[names.index(name)]

    def finish(self, sched):
        self._close_segment(sched)
