"""C15 Every supported prediction format is understood the same way."""
import json
import os
import sys
from collections.abc import Mapping

from core.engine import Property, F
from props.c15_learners import Scripted, make_learner, dec, enc, freeze, is_batch, HINT, DICT_FLAVOURS, MAPPING_FLAVOURS, REFUSALS

LCG_A, LCG_C, LCG_M = 116646453, 9, 2 ** 30
HINTS = ("action", "action_prob", "pmf")
# `Learner.learn(self, context, action, reward, probability, **kwargs)`: the interface itself cannot pass a kwarg with one of
# these names (python raises "multiple values for argument" at the learner's own learn) - such learners are not in the quantifier
LEARN_PARAMS = ("self", "context", "action", "reward", "probability")
# names of parameters / locals met on the way from predict to learn; a kwargs key may be called any of them (round f)
PATH_NAMES_STATIC = ("key", "method", "args", "kwargs", "has_out", "actions", "pred", "self", "context", "action", "reward", "probability")
_PATH_NAMES = None


def path_names():
    """kwargs key names that collide with a parameter name of some function on the delivery path of the code under test
    (read from the signatures at run time, so renamed / added parameters are followed), without the names the Learner
    interface itself reserves (LEARN_PARAMS) and the hint names."""
    global _PATH_NAMES
    if _PATH_NAMES is None:
        import inspect
        names = list(PATH_NAMES_STATIC)
        try:
            from coba.safety import SafeLearner
            from coba.evaluators import SequentialCB
            from coba.primitives import Learner
            for owner in (SafeLearner, SequentialCB, Learner):
                for _, f in sorted(vars(owner).items()):
                    if inspect.isfunction(f):
                        names += [p for p in inspect.signature(f).parameters]
        except Exception:
            pass
        seen = []
        for nm in names:
            if nm not in seen and nm not in LEARN_PARAMS and nm not in HINTS:
                seen.append(nm)
        _PATH_NAMES = seen
    return _PATH_NAMES
FMTS = ["A", "AP", "PM", "dA", "dAP", "dPM"]
NOBATCH_RETURNS = ("none", "keyerror")      # reactions to a batch that are not a plain exception of the learner's first operation
LCG_AINV = pow(LCG_A, -1, LCG_M)


def tie_seed(k, num, den):
    """the seed (30-bit state) whose k-th uniform draw (k >= 1) is exactly num/den (den a power of two <= 2**30): the LCG
    s' = (a*s+c) mod 2**30 is a bijection, so every state - also 0 - is the k-th successor of exactly one seed"""
    s = (num * (LCG_M // den)) % LCG_M
    for _ in range(k):
        s = (LCG_AINV * (s - LCG_C)) % LCG_M
    return s


def tie_case(case, rng_or_none, k, t_index):
    """Make the k-th PMF draw of the case (rows in call order) land EXACTLY on a boundary of that row's cumulative PMF: the
    uniform draw u equals cdf[t_index] (or 0 when t_index < 0).  `first i with u*tot < cdf[i]` then is the action after the
    boundary; a zero-probability action is never drawn."""
    rows = [r for call in case["calls"] for r in call]
    r = rows[k - 1]
    from fractions import Fraction
    ws = [Fraction(dec(x)) for x in r["pmf"]]
    cdf, acc = [], Fraction(0)
    for w in ws:
        acc += w
        cdf.append(acc)
    t = Fraction(0) if t_index < 0 else cdf[t_index]
    if not (0 <= t < 1) or LCG_M % t.denominator:
        return None
    case["seed"] = tie_seed(k, t.numerator, t.denominator)
    case["tie"] = [k, t.numerator, t.denominator]
    return case


# ----------------------------------------------------------------------------------------------
# reference semantics (what the property demands), independent of coba
# ----------------------------------------------------------------------------------------------
class RefRng:
    """coba's uniform stream (C05): s' = (a*s+c) mod m, u = s'/m; choicew = first index whose cumulative weight exceeds u*total"""

    def __init__(self, seed):
        self.s = int(seed) % LCG_M

    def choicew(self, weights):
        self.s = (LCG_A * self.s + LCG_C) % LCG_M
        r = (self.s / LCG_M) * sum(weights)
        acc = 0
        for i, w in enumerate(weights):
            acc = acc + w
            if r < acc:
                return i
        return None


def intended(case):
    """per call, per row: (index of the action, stated probability or None, kwargs dict); PMF draws from the seed"""
    rng = RefRng(1 if case.get("seed") is None else case["seed"])
    out = []
    for call in case["calls"]:
        rows = []
        for row in call:
            kw = {dec(k): dec(v) for k, v in row["kwargs"]} if case.get("kw") else {}
            if case["fmt"] in ("PM", "dPM"):
                pmf = [dec(x) for x in row["pmf"]]
                i = rng.choicew(pmf)
                rows.append((i, None if i is None else pmf[i], kw))
            elif case["fmt"] in ("AP", "dAP"):
                rows.append((row["pick"], dec(row["p"]), kw))
            else:
                rows.append((row["pick"], None, kw))
        out.append(rows)
    return out


def kind_of(v):
    (k, x), = v.items()
    return k, x


def in_quantifier(case):
    """Is the learner of this case inside the property's quantifier?  (documented format used consistently, answering with
    the offered action objects themselves, and - where the un-hinted value could be read two ways - nothing at all:
    those cases are design limits, checked by (A) only).  Returns (bool, reason)."""
    if case.get("answer", "offered") != "offered":
        return False, "answers with copies / aliases of the offered objects"
    if case.get("weird"):
        return False, "malformed answer"
    if case.get("batches"):
        return False, "one wrapper switched between batched and unbatched calls"
    fmt, kw, layout, batch = case["fmt"], bool(case.get("kw")), case["layout"], bool(case.get("batch"))
    hinted = fmt in HINT
    first = case["calls"][0]
    for call in case["calls"]:
        if not call or (not batch and len(call) != 1):
            return False, "empty call"
        keys0 = [json.dumps(k) for k, _ in call[0]["kwargs"]]
        for row in call:
            K = len(row["actions"])
            if K == 0 or not (0 <= row["pick"] < K):
                return False, "no offered actions"
            if sorted(json.dumps(k) for k, _ in row["kwargs"]) != sorted(keys0):
                return False, "kwargs keys differ between the rows of a call"
            if kw and any(dec(k) in HINTS for k, _ in row["kwargs"]):
                return False, "kwargs key named like a hint"
            if kw and any(dec(k) in LEARN_PARAMS for k, _ in row["kwargs"]):
                return False, "kwargs key named like one of learn's own parameters"
            if len(row["pmf"]) != K:
                return False, "PMF not over the actions"
            if fmt in ("PM", "dPM") and not case.get("weird"):
                ws = [dec(x) for x in row["pmf"]]
                if any(w < 0 for w in ws) or abs(sum(ws) - 1) > 0.001:
                    return False, "PMF does not sum to 1 within the documented tolerance .001"
            for a in row["actions"]:
                k, x = kind_of(a)
                if k == "n":
                    return False, "None offered as an action"
                if k == "d" and not hinted and fmt == "A" and any(dec(kk) in HINTS for kk, _ in x):
                    return False, "un-hinted sparse action with a feature named like a hint"
            if not hinted and fmt == "A":
                k, x = kind_of(row["actions"][row["pick"]])
                if k in ("t", "l") and len(x) == 2 and kind_of(x[0])[0] in ("i", "b", "n") and any(
                        kind_of(a)[0] in ("i", "b", "n") and freeze(dec(a)) == freeze(dec(x[0])) and type(dec(a)) is type(dec(x[0])) for a in row["actions"]):
                    return False, "un-hinted two-item action whose first item is itself an offered action"
    if batch and layout == "col" and not hinted:
        if fmt == "PM" and len(first[0]["actions"]) < 2:
            return False, "un-hinted column-major PMF over one action has the shape of a column of actions"
        if fmt == "A" and not kw and len(first) < 2:
            return False, "un-hinted column-major actions for a one-row batch have the shape of a row-major answer"
    return True, ""


def mapping_region(case):
    """column-major hinted answer followed by a kwargs Mapping that is not a dict: `batch_order` / `raise_if_not_valid_out`
    recognise `[{hint: column}, kwargs]` with isinstance(p, dict) although `has_kwargs` (and the Kwargs type) say Mapping
    (open finding C15-F5 until fixes/C15-colhint-kwargs-mapping.diff is in)"""
    return (bool(case.get("kw")) and case.get("kwmap") in MAPPING_FLAVOURS and bool(case.get("batch")) and case["layout"] == "col"
            and case["fmt"] in HINT)


def inplace_region(case):
    """the caller reuses ONE action list object and changes its content in place between calls, and 0/1 is (or was) among the
    actions: `SafeLearner.predict` keeps a reference to the caller's list in `_prev_actions`, so `_prev_actions != actions`
    compares the list with itself - the learner is offered the float-copy list made for an EARLIER content (stale actions), or
    no float copies at all when 0/1 only appear later (open finding C15-F6 until fixes/C15-prev-actions-snapshot.diff is in)"""
    if case.get("drop") != "inplace":
        return False
    has01, prev = False, None
    for call in case["calls"]:
        cur = [[freeze(dec(a)) for a in r["actions"]] for r in call]
        has01 = has01 or any(a == 0 or a == 1 for row in cur for a in row if not isinstance(a, (tuple, str)))
        if prev is not None and cur != prev and has01:
            return True
        prev = cur
    return False


def defect_class(case):
    """Region of a recorded defect of the pinned commit the case lies in (first match in the order the code reaches them)."""
    fmt, kw, layout, batch = case["fmt"], bool(case.get("kw")), case["layout"], bool(case.get("batch"))
    hinted = fmt in HINT
    first = case["calls"][0]
    r0 = first[0]
    K = len(r0["actions"])
    if inplace_region(case):
        return "inplace-actions"
    if mapping_region(case) and len(first) == 2:
        return "col-hint-kw-mapping"
    if batch and layout in ("row", "single") and fmt == "A" and not kw and len(first) >= 2:
        # row-major bare sparse actions whose first and last row have different feature names
        a, b = kind_of(first[0]["actions"][first[0]["pick"]]), kind_of(first[-1]["actions"][first[-1]["pick"]])
        if a[0] == "d" and b[0] == "d" and set(json.dumps(k) for k, _ in a[1]) != set(json.dumps(k) for k, _ in b[1]):
            return "sparse-rows"
    if not hinted:
        if fmt == "A":
            k, x = kind_of(r0["actions"][r0["pick"]])
            if (k == "d" and len(x) <= 2) or (k in ("t", "l") and len(x) <= 1):
                return "short-answer"
        if fmt == "PM" and K == 1:
            return "short-answer"
    if batch and layout == "col":
        if hinted and kw:
            return "col-hint-kw"
        if fmt == "A":
            return "col-A"
        if fmt == "PM":
            return "col-PM"
    if batch and fmt == "PM" and K == 2:
        k, x = kind_of(r0["pmf"][0])
        if k == "i" and any(kind_of(a) == ("i", x) for a in r0["actions"]):
            return "batched-int01-pmf"
    return "general"


# ----------------------------------------------------------------------------------------------
# running the real code
# ----------------------------------------------------------------------------------------------
def share_nan(o):
    import math
    if isinstance(o, float) and o != o:
        return math.nan
    if isinstance(o, tuple):
        return tuple(share_nan(e) for e in o)
    if isinstance(o, list):
        return [share_nan(e) for e in o]
    return o


def run_case(case):
    """Drive the real SafeLearner exactly as SequentialCB does: predict, then learn with what predict returned.
    Returns (learner, per-call records holding live objects)."""
    from coba.safety import SafeLearner
    from coba.context import CobaContext, NullLogger
    from coba.environments import Batch
    old = CobaContext._logger
    CobaContext.logger = NullLogger()
    try:
        learner = make_learner(case)
        safe0 = SafeLearner(learner) if case.get("seed") is None else SafeLearner(learner, case["seed"])
        rw_ = case.get("rewrap")
        safes, batches = [safe0], [bool(case.get("batch"))]
        if rw_:
            # SafeLearner(SafeLearner(learner), seed2): a wrapper of its own around the same learner
            safes.append(SafeLearner(safe0) if rw_.get("seed2") is None else SafeLearner(safe0, rw_["seed2"]))
            batches.append(bool(rw_.get("batch2")))
        recs = []
        try:
            learner.has_score_seen = safe0.has_score
        except Exception as e:
            learner.has_score_seen = "raised " + type(e).__name__
        for ci, call in enumerate(case["calls"]):
            w = int(rw_["who"][ci]) if rw_ else 0
            safe = safes[w]
            ctxs = [dec(r["ctx"]) for r in call]
            acts = [[dec(a) for a in r["actions"]] for r in call]
            if case.get("share_nan"):
                acts = [[share_nan(a) for a in A] for A in acts]      # `math.nan`: ONE object, the usual way a nan gets into a list
            bnow = batches[w] if not case.get("batches") else bool(case["batches"][ci])
            if bnow:
                ctx, act = Batch.List(ctxs), Batch.List(acts)
                rwd = Batch.List([0.25 * (i + 1) for i in range(len(call))])
            else:
                ctx, act, rwd = ctxs[0], acts[0], 0.25
            rec = {"ctx": ctx, "actions": act, "np0": len(learner.predict_calls), "nl0": len(learner.learn_calls), "w": w, "b": bnow, "rwd_try": rwd}
            recs.append(rec)
            owned0 = (enc(ctxs), enc(acts))      # the caller's contexts / action lists by value (phase 6: they are the caller's, not the library's)
            rec["caller_data"] = lambda o=owned0, c=ctxs, a=acts: None if (enc(c), enc(a)) == o else (o, (enc(c), enc(a)))
            try:
                out = safe.predict(ctx, act)
            except Exception as e:
                rec["exc"] = e
                rec["np1"] = len(learner.predict_calls)
                break
            rec["np1"] = len(learner.predict_calls)
            rec["out"] = out
            if not (isinstance(out, tuple) and len(out) == 3 and isinstance(out[2], Mapping) and all(isinstance(k, str) for k in out[2])):
                break
            try:
                safe.learn(ctx, out[0], rwd, out[1], **out[2])
            except Exception as e:
                rec["learn_exc"] = e
                rec["nl1"] = len(learner.learn_calls)
                break
            rec["nl1"] = len(learner.learn_calls)
            rec["rwd"] = rwd
            # SafeLearner.score for an action of every row: the named one on even calls, its neighbour on odd calls
            picks = [acts[i][(r["pick"] + ci) % len(acts[i])] for i, r in enumerate(call)]
            sact = Batch.List(picks) if bnow else picks[0]
            rec["score_arg"] = sact
            try:
                rec["score"] = safe.score(ctx, act, sact)
            except Exception as e:
                rec["score_exc"] = e
        return learner, recs
    finally:
        CobaContext._logger = old


def run_drop(case):
    """As a caller that builds a FRESH action list for every call and drops it afterwards (nothing but SafeLearner can keep it
    alive, so CPython is free to reuse its address for the next list): predict, learn, delete - no allocation of the harness in
    between.  Records hold value copies made afterwards."""
    from coba.safety import SafeLearner
    from coba.context import CobaContext, NullLogger
    from coba.environments import Batch
    old = CobaContext._logger
    CobaContext.logger = NullLogger()
    try:
        learner = make_learner(case)
        safe = SafeLearner(learner) if case.get("seed") is None else SafeLearner(learner, case["seed"])
        batch = bool(case.get("batch"))
        n = len(case["calls"])
        tpl_ctx = [[dec(r["ctx"]) for r in call] for call in case["calls"]]
        tpl_act = [tuple(tuple(dec(a) for a in r["actions"]) for r in call) for call in case["calls"]]
        rwds = [Batch.List([0.25 * (i + 1) for i in range(len(call))]) if batch else 0.25 for call in case["calls"]]
        ctxs = [Batch.List(c) if batch else c[0] for c in tpl_ctx]
        outs, marks, excs, lexcs = [None] * n, [None] * n, [None] * n, [None] * n
        learner.has_score_seen = None
        inplace = case.get("drop") == "inplace"
        owned = Batch.List([]) if batch else []          # in-place mode: the ONE list object of the caller, refilled before every call
        for ci in range(n):
            if inplace:
                actions = owned
                if batch and case.get("inplace_rows") and len(actions) == len(tpl_act[ci]):
                    for r_, t_ in zip(actions, tpl_act[ci]):
                        r_[:] = t_                       # the row lists are reused too
                elif batch:
                    actions[:] = [list(t_) for t_ in tpl_act[ci]]
                else:
                    actions[:] = tpl_act[ci][0]
            elif batch:
                actions = Batch.List(map(list, tpl_act[ci]))
            else:
                actions = list(tpl_act[ci][0])
            try:
                out = safe.predict(ctxs[ci], actions)
                outs[ci] = out
            except Exception as e:
                excs[ci] = e
            if excs[ci] is None:
                try:
                    safe.learn(ctxs[ci], out[0], rwds[ci], out[1], **out[2])
                except Exception as e:
                    lexcs[ci] = e
            marks[ci] = (len(learner.predict_calls), len(learner.learn_calls))
            del actions
            if excs[ci] is not None or lexcs[ci] is not None:
                break
        recs, p0, l0 = [], 0, 0
        for ci in range(n):
            if marks[ci] is None:
                break
            acts = [[dec(a) for a in r["actions"]] for r in case["calls"][ci]]
            rec = {"ctx": ctxs[ci], "actions": Batch.List(acts) if batch else acts[0], "np0": p0, "np1": marks[ci][0], "nl0": l0, "nl1": marks[ci][1],
                   "w": 0, "b": batch, "rwd": rwds[ci]}
            if excs[ci] is not None:
                rec["exc"] = excs[ci]
            else:
                rec["out"] = outs[ci]
                if lexcs[ci] is not None:
                    rec["learn_exc"] = lexcs[ci]
            recs.append(rec)
            p0, l0 = marks[ci]
        return learner, recs
    finally:
        CobaContext._logger = old


def same(x, y):
    """Python == that also keeps None apart from numbers"""
    return freeze(x) == freeze(y) and (x is None) == (y is None)


def short(o):
    return json.dumps(enc(o), separators=(",", ":"))[:160]


FAMILY = {"action-shape": "shape", "prob-shape": "shape", "not-a-triple": "shape"}


def monitor(case, learner, recs):
    """(B) the property itself on what the real code returned.  Returns list of (what, detail)."""
    fails = []
    want = intended(case)
    fmt, layout, batch = case["fmt"], case["layout"], bool(case.get("batch"))
    name = "%s/%s%s" % (("not" if not batch else layout), fmt, "+kw" if case.get("kw") else "")

    def bad(what, detail):
        fails.append(("%s: %s" % (name, what), detail if ci == 0 else "later:" + detail))

    ci = 0
    for ci, (rec, call, exp) in enumerate(zip(recs, case["calls"], want)):
        n = len(call)
        where = "call %d (%d row%s, %d action%s)" % (ci, n, "s" * (n != 1), len(call[0]["actions"]), "s" * (len(call[0]["actions"]) != 1))
        # the learner is offered exactly (==) the actions of THIS call (each row of it), never an earlier call's
        acts_ = rec["actions"] if batch else [rec["actions"]]
        offered = [list(a) for a in acts_]
        stale = None
        for b_, c_, a_ in learner.predict_calls[rec["np0"]:rec["np1"]]:
            for got in ([list(x) for x in a_] if b_ else [list(a_)]):
                if not any(same(got, o) for o in offered):
                    stale = got
        if stale is not None:
            bad("%s: the learner was offered %s, this call's actions are %s" % (where, short(stale), short(offered)), "offered-actions-stale")
            break
        if "exc" in rec:
            bad("%s: predict raised %s: %s" % (where, type(rec["exc"]).__name__, str(rec["exc"])[:120]), "raises-" + type(rec["exc"]).__name__)
            break
        out = rec["out"]
        if not (isinstance(out, tuple) and len(out) == 3):
            bad("%s: predict returned %s, not (action, prob, kwargs)" % (where, short(out)), "not-a-triple")
            break
        A, P, KW = out
        acts = rec["actions"] if batch else [rec["actions"]]
        if batch:
            if not (isinstance(A, (list, tuple)) and len(A) == n):
                bad("%s: actions returned %s, expected one action per row" % (where, short(A)), "action-shape")
                break
            if not (isinstance(P, (list, tuple)) and len(P) == n):
                bad("%s: probabilities returned %s, expected one per row" % (where, short(P)), "prob-shape")
                break
        else:
            A, P = [A], [P]
        stop = False
        for i in range(n):
            idx, p, _ = exp[i]
            if idx is None:
                continue
            wa = acts[i][idx]
            if not same(A[i], wa):
                offered = any(same(A[i], a) for a in acts[i])
                kind = "pmf-draw" if fmt in ("PM", "dPM") else "action"
                bad("%s row %d: action %s returned, %s %s (offered %s)" % (
                    where, i, short(A[i]), "the learner named" if kind == "action" else "the draw from the PMF with this seed is", short(wa), short(acts[i])),
                    "%s-%s" % (kind, "other-offered" if offered else "not-offered"))
                stop = True
                break
            if not same(P[i], p) or (p is not None and isinstance(P[i], bool) != isinstance(p, bool)):
                bad("%s row %d: probability %s returned, the learner stated %s" % (where, i, short(P[i]), short(p)),
                    "prob-" + ("missing" if P[i] is None else "unstated" if p is None else "wrong"))
                stop = True
                break
        if stop:
            break
        if batch:
            keys = list(exp[0][2])
            wkw = {k: [e[2][k] for e in exp] for k in keys}
            gkw = {k: (list(v) if isinstance(v, (list, tuple)) else v) for k, v in KW.items()} if isinstance(KW, Mapping) else KW
        else:
            wkw, gkw = exp[0][2], KW
        if not (isinstance(KW, Mapping) and same(gkw, wkw)):
            bad("%s: kwargs %s returned, the learner gave %s" % (where, short(KW), short(wkw)), "kwargs-wrong")
            break
        # per-row invocation of a learner that cannot handle batches: once per row, in order
        pcs = learner.predict_calls[rec["np0"]:rec["np1"]]
        if batch and layout == "single":
            single = [(c, a) for b, c, a in pcs if not b]
            if len(single) != n or any(not same(c, dec(r["ctx"])) or not same(list(a), [dec(x) for x in r["actions"]]) for (c, a), r in zip(single, call)):
                bad("%s: a learner that cannot handle batches was called per row %d times for %d rows (or with other rows)" % (where, len(single), n), "per-row-calls")
                break
        # learn receives the kwargs unchanged
        if "learn_exc" in rec:
            bad("%s: learn raised %s: %s" % (where, type(rec["learn_exc"]).__name__, str(rec["learn_exc"])[:120]), "learn-raises-" + type(rec["learn_exc"]).__name__)
            break
        lcs = [l for l in learner.learn_calls[rec["nl0"]:rec["nl1"]] if l[0] != "rejected"]
        learn_batch = bool(case.get("learn_batch", layout != "single"))
        # a learner whose learn takes batches may also be served row by row (the same content reaches it); one whose learn
        # takes ONE interaction must be called once per row - whatever its predict does with batches
        per_row = batch and (not learn_batch or (len(lcs) == n and not any(l[0] for l in lcs)))
        if per_row:
            ok = len(lcs) == n and all((not l[0]) and same(l[1], dec(r["ctx"])) and same(l[2], acts[i][e[0]]) and same(l[4], e[1]) and same(l[5], e[2])
                                       and same(l[3], rec["rwd"][i]) for i, (l, r, e) in enumerate(zip(lcs, call, exp)))
        elif batch:
            ok = (len(lcs) == 1 and isinstance(lcs[0][5], dict)
                  and same({k: list(v) if isinstance(v, (list, tuple)) else v for k, v in lcs[0][5].items()}, wkw)
                  and len(lcs[0][2]) == n and all(same(x, acts[i][e[0]]) for i, (x, e) in enumerate(zip(lcs[0][2], exp)))
                  and all(same(x, e[1]) for x, e in zip(lcs[0][4], exp)))
        else:
            ok = len(lcs) == 1 and same(lcs[0][5], wkw) and same(lcs[0][2], acts[0][exp[0][0]]) and same(lcs[0][4], exp[0][1])
        if not ok:
            bad("%s: learn received %s, expected the kwargs %s (and the predicted action/probability) per %s" % (
                where, short([l[1:] for l in lcs]), short(wkw), "row" if per_row else "call"), "learn-args-wrong")
            break
    return fails


def e2e_applicable(case):
    """the evaluator regroups nothing: every call has the size of the first one, except a smaller last one"""
    sizes = [len(c) for c in case["calls"]]
    if not case.get("batch"):
        return True
    return all(n == sizes[0] for n in sizes[:-1]) and sizes[-1] <= sizes[0]


class ListEnv:
    def __init__(self, interactions):
        self.interactions = interactions
        self.params = {}

    def read(self):
        return list(self.interactions)


E2E_UNSET = "unset"


def e2e_seeds(case):
    """(what SequentialCB is given as seed, what CobaContext.store['experiment_seed'] holds or E2E_UNSET, the seed that must take
    effect): the evaluator's own seed whenever it is not None - also when it is 0, 0.0 or False - else the experiment seed"""
    es = case.get("e2e_seed")
    if not es:
        ev = 1 if case.get("seed") is None else case["seed"]
        return ev, E2E_UNSET, ev
    ev = None if es.get("ev") is None else dec(es["ev"])
    exp = es.get("exp", E2E_UNSET)
    eff = ev if ev is not None else (None if exp == E2E_UNSET else exp)
    return ev, exp, eff


def run_e2e(case, evaluator=None):
    """the same learner behind the real evaluator: SequentialCB(learn='on', eval='on', seed).evaluate(environment, learner)"""
    from coba.evaluators import SequentialCB
    from coba.primitives import SimulatedInteraction
    from coba.environments import Batch
    from coba.context import CobaContext, NullLogger
    old = CobaContext._logger
    old_store = CobaContext.store
    CobaContext.logger = NullLogger()
    try:
        rows = [r for call in case["calls"] for r in call]
        its = [SimulatedInteraction(dec(r["ctx"]), [dec(a) for a in r["actions"]], [0.25 * (j + 1) for j in range(len(r["actions"]))]) for r in rows]
        if case.get("batch"):
            its = list(Batch(len(case["calls"][0])).filter(its))
        ev_seed, exp, _ = e2e_seeds(case)
        CobaContext.store = {} if exp == E2E_UNSET else {"experiment_seed": exp}
        learner = Scripted(case)
        ev = evaluator if evaluator is not None else SequentialCB(record=["action", "probability", "reward"], learn="on", eval="on", seed=ev_seed)
        try:
            res = list(ev.evaluate(ListEnv(its), learner))
        except Exception as e:
            return learner, e
        if case.get("e2e_seed") and evaluator is None:
            # a second evaluation by an equally configured evaluator (a fresh learner): same seed, same draws
            try:
                learner.again = list(SequentialCB(record=["action", "probability", "reward"], learn="on", eval="on", seed=ev_seed).evaluate(ListEnv(its), Scripted(case)))
            except Exception as e:
                learner.again = e
        return learner, res
    finally:
        CobaContext._logger = old
        CobaContext.store = old_store
        CobaContext.learning_info.clear()


def monitor_e2e(case, learner, res):
    ev_seed, exp, eff = e2e_seeds(case)
    is_pmf = case["fmt"] in ("PM", "dPM")
    if eff is None and is_pmf:
        # no seed anywhere: CobaRandom(None) is time-based - the draw itself is not determined; the action must still be offered
        # and the probability the PMF's entry for it
        if isinstance(res, Exception):
            return [("SequentialCB.evaluate raised %s: %s" % (type(res).__name__, str(res)[:150]), "e2e-raises-" + type(res).__name__)]
        rows = [r for call in case["calls"] for r in call]
        for i, (out, r) in enumerate(zip(res, rows)):
            idxs = [j for j, a in enumerate(r["actions"]) if same(dec(a), out.get("action"))]
            if not idxs or not any(same(dec(r["pmf"][j]), out.get("probability")) for j in idxs):
                return [("unseeded evaluation: recorded action %s / probability %s for interaction %d is not a member of the PMF %s over %s" % (
                    short(out.get("action")), short(out.get("probability")), i, short([dec(x) for x in r["pmf"]]), short([dec(a) for a in r["actions"]])), "e2e-unseeded-pmf")]
        return []
    eff_int = None if eff is None else int(eff)
    want = [e for call in intended(dict(case, seed=(1 if eff_int is None else eff_int))) for e in call]
    if case.get("e2e_seed") and ev_seed is not None and is_pmf and not isinstance(res, Exception) and hasattr(learner, "again"):
        again = getattr(learner, "again", None)
        key = lambda rs: [(short(o.get("action")), short(o.get("probability"))) for o in rs]
        if isinstance(again, Exception) or again is None or key(again) != key(res):
            return [("two SequentialCB(seed=%r) evaluations of the same environment and learner recorded different draws" % (ev_seed,), "e2e-seed-not-reproducible")]
    rows = [r for call in case["calls"] for r in call]
    name = "%s/%s%s" % (("not" if not case.get("batch") else case["layout"]), case["fmt"], "+kw" if case.get("kw") else "")
    if case.get("e2e_seed"):
        name += " SequentialCB(seed=%r), experiment_seed %s" % (ev_seed, exp)
    if isinstance(res, Exception):
        return [("%s: SequentialCB.evaluate raised %s: %s" % (name, type(res).__name__, str(res)[:150]), "e2e-raises-" + type(res).__name__)]
    if len(res) != len(rows):
        return [("%s: SequentialCB.evaluate yielded %d results for %d interactions" % (name, len(res), len(rows)), "e2e-result-count")]
    for i, (out, r, (idx, p, kw)) in enumerate(zip(res, rows, want)):
        if idx is None:
            continue
        wa = dec(r["actions"][idx])
        okr = [0.25 * (j + 1) for j, a in enumerate(r["actions"]) if same(dec(a), wa)]     # equal actions (1 == 1.0 == True) share a reward lookup
        if not same(out.get("action"), wa) or out.get("reward") not in okr:
            return [("%s: evaluator recorded action %s reward %s for interaction %d, the learner's answer means action %s reward %s" % (
                name, short(out.get("action")), out.get("reward"), i, short(wa), 0.25 * (idx + 1)), "e2e-action")]
        if not same(out.get("probability"), p):
            return [("%s: evaluator recorded probability %s for interaction %d, the learner stated %s" % (name, short(out.get("probability")), i, short(p)), "e2e-prob")]
    lcs = [l for l in learner.learn_calls if l[0] != "rejected"]
    got = []      # per interaction: (action, probability, kwargs) as learn received them
    for l in lcs:
        if l[0]:
            n = len(l[2])
            for j in range(n):
                try:
                    got.append((l[2][j], l[4][j], {k: v[j] for k, v in l[5].items()}, l[3][j]))
                except Exception:
                    got.append(("?", "?", "?", "?"))
        else:
            got.append((l[2], l[4], l[5], l[3]))
    if len(got) != len(rows):
        return [("%s: learn was given %d interactions in total, %d were evaluated" % (name, len(got), len(rows)), "e2e-learn-count")]
    for i, ((a, pr, kwg, rw), r, (idx, p, kw)) in enumerate(zip(got, rows, want)):
        if idx is None:
            continue
        if not (isinstance(kwg, dict) and same(kwg, kw)):
            return [("%s: learn received kwargs %s for interaction %d, predict returned %s" % (name, short(kwg), i, short(kw)), "e2e-learn-kwargs")]
        if not same(a, dec(r["actions"][idx])) or not same(pr, p) or rw not in [0.25 * (j + 1) for j, x in enumerate(r["actions"]) if same(dec(x), dec(r["actions"][idx]))]:
            return [("%s: learn received action %s prob %s reward %s for interaction %d, expected %s %s %s" % (
                name, short(a), short(pr), rw, i, short(dec(r["actions"][idx])), short(p), 0.25 * (idx + 1)), "e2e-learn-args")]
    return []


# ----------------------------------------------------------------------------------------------
# identity-preserving encoding for the Lean driver
# ----------------------------------------------------------------------------------------------
class Refs:
    """object identity -> who created the object (ext = environment, safe = SafeLearner's float copies, lrn = learner)"""

    def __init__(self):
        self.map, self.keep, self.n_ext, self.n_lrn, self.nans = {}, [], 0, 0, 0

    def _reg(self, o, ref):
        self.map[id(o)] = ref
        self.keep.append(o)
        return ref

    def ext(self, o):
        if isinstance(o, (float, str, tuple, list, dict)) and id(o) not in self.map:
            self.n_ext += 1
            self._reg(o, ["e", self.n_ext])
        if isinstance(o, (tuple, list)):
            for e in o:
                self.ext(e)
        elif isinstance(o, dict):
            for k, v in o.items():
                self.ext(v)

    def ref(self, o, safe=None):
        r = self.map.get(id(o))
        if r is None:
            if safe is not None:
                r = self._reg(o, ["s", safe])
            else:
                self.n_lrn += 1
                r = self._reg(o, ["l", self.n_lrn])
        return r

    def enc(self, o, safe=None):
        if o is None:
            return {"n": 0}
        if isinstance(o, bool):
            return {"b": o}
        if isinstance(o, int):
            return {"i": o}
        if isinstance(o, float):
            from fractions import Fraction
            if o != o:
                # a nan OBJECT: the model's token `mkNan ref` (equal to itself as a container item, to nothing else)
                self.nans += 1
                return {"nan": [self.ref(o, safe)]}
            if o in (float("inf"), float("-inf")) or o < -2.0 ** 40:
                raise Unencodable("inf / the range of the nan tokens is not in the model (exact rationals)")
            fr = Fraction(o)
            return {"f": [self.ref(o, safe), fr.numerator, fr.denominator]}
        if isinstance(o, str):
            return {"s": [self.ref(o), o]}
        if isinstance(o, tuple):
            return {"t": [self.ref(o), [self.enc(e) for e in o]]}
        if isinstance(o, list):
            return {"l": [self.ref(o), [self.enc(e) for e in o]]}
        if isinstance(o, Mapping):
            if not all(isinstance(k, str) for k in o):
                raise Unencodable("non-string dict key")
            return {"d": [self.ref(o), [[k, self.enc(v)] for k, v in o.items()]]}
        raise Unencodable(type(o).__name__)

    def arg(self, batched, context, actions, received=False, row=0):
        """`received`: the argument as the learner got it - a float it has not seen before at position (r,j) is SafeLearner's
        copy of the offered 0/1 action there (`row`: the batch row a per-row call is made for)"""
        if batched:
            rows = [{"ctx": self.enc(c), "actions": [self.enc(a, safe=(r * 4096 + j) if received else None) for j, a in enumerate(A)]}
                    for r, (c, A) in enumerate(zip(context, actions))]
        else:
            rows = [{"ctx": self.enc(context), "actions": [self.enc(a, safe=(row * 4096 + j) if received else None) for j, a in enumerate(actions)]}]
        return {"batch": bool(batched), "rows": rows}


class Unencodable(Exception):
    pass


EXC = {"CobaException": "CobaException", "KeyError": "KeyError", "IndexError": "IndexError", "TypeError": "TypeError",
       "AttributeError": "AttributeError", "ValueError": "ValueError", "StopIteration": "StopIteration",
       "ZeroDivisionError": "ZeroDivisionError", "NotBatchable": "LearnerError"}

_VARIANT = {}


def variant():
    """Which of the proposed repairs (fixes/C15-*.diff) does the code under test already contain?  Decided once per process by
    four tiny behavioural probes; the Lean model has the same four switches, so (A) always compares against the model of
    the code as it is (pinned commit: all off)."""
    key = os.environ.get("COBA_REPO", "/repo")
    if key in _VARIANT:
        return _VARIANT[key]

    def ok(case):
        try:
            learner, recs = run_case(case)
            return not monitor(case, learner, recs)
        except Exception:
            return False
    row = lambda acts, pick, pmf, i=0: {"ctx": {"i": i}, "actions": acts, "pick": pick, "p": {"f": [1, 2]}, "pmf": pmf, "kwargs": [[{"s": "k"}, {"i": i}]]}
    d2 = [{"d": [[{"s": "x"}, {"i": j}], [{"s": "y"}, {"i": 7}]]} for j in (2, 3)]
    s2 = [{"s": "aa"}, {"s": "bb"}]
    i01 = [{"i": 0}, {"i": 1}]
    sp = [{"d": [[{"s": "f%d" % j}, {"i": 1}]]} for j in (0, 1)]
    one = [{"i": 1}, {"i": 0}]
    fx = {
        "short": ok({"seed": 1, "fmt": "A", "kw": False, "layout": "single", "batch": False, "calls": [[row(d2, 0, one)]]}),
        "batch": ok({"seed": 1, "fmt": "PM", "kw": False, "layout": "row", "batch": True, "calls": [[row(i01, 0, one, 0), row(i01, 1, one, 1)]]}),
        "col": ok({"seed": 1, "fmt": "A", "kw": True, "layout": "col", "batch": True, "calls": [[row(s2, 0, one, 0), row(s2, 1, one, 1)]]}),
        "rowdict": ok({"seed": 1, "fmt": "A", "kw": False, "layout": "row", "batch": True, "calls": [[row(sp, 0, one, 0), row(sp, 1, one, 1)]]}),
        # not a switch of the model (its dict stands for Mapping = the repaired behaviour): decides whether (A) is run in mapping_region
        "mapping": ok({"seed": 1, "fmt": "dA", "kw": True, "kwmap": "proxy", "layout": "col", "batch": True,
                       "calls": [[row(s2, 0, one, 0), row(s2, 1, one, 1)]]}),
    }
    # phase 6, not a switch of the four-switch model either: does `_prev_actions` keep a copy (fixes/C15-prev-actions-snapshot.diff) or a
    # reference to the caller's list?  Decides which of the model's two caches (`runPrep` / `runPrepRef`) (A) compares in-place cases with
    try:
        pc = {"seed": 1, "fmt": "A", "kw": False, "layout": "single", "batch": False, "drop": "inplace",
              "calls": [[row([{"i": 0}, {"i": 1}, {"i": 2}], 2, one + [{"i": 0}], 0)], [row([{"i": 3}, {"i": 4}], 1, one, 1)]]}
        lr, rc = run_drop(pc)
        fx["snapshot"] = not monitor(pc, lr, rc)
    except Exception:
        fx["snapshot"] = False
    _VARIANT[key] = fx
    return fx


def outcome_impl(recs):
    """per call: the value predict returned, or the exception class"""
    outs = []
    for rec in recs:
        if "exc" in rec:
            outs.append({"err": EXC.get(type(rec["exc"]).__name__, type(rec["exc"]).__name__)})
        elif "out" in rec:
            o = rec["out"]
            if isinstance(o, tuple) and len(o) == 3:
                outs.append({"ok": {"a": enc(o[0]), "p": enc(o[1]), "kw": enc(o[2])}})
            else:
                outs.append({"ok": enc(o)})
    return outs


def outcome_model(rs):
    return [{"ok": r["ok"]} if "ok" in r else {"err": r["err"]} for r in rs]


def outcomes_differ(impl, model):
    if len(impl) != len(model):
        return "implementation made %d calls' worth of results, model %d" % (len(impl), len(model))
    for i, (a, b) in enumerate(zip(impl, model)):
        if "err" in a or "err" in b:
            if ("err" in a) != ("err" in b):
                return "call %d: implementation %s, model %s" % (i, json.dumps(a)[:150], json.dumps(b)[:150])
            if b["err"] != "Other" and a["err"] != b["err"]:
                return "call %d: implementation raised %s, model %s" % (i, a["err"], b["err"])
        elif a["ok"] != b["ok"]:
            return "call %d: implementation %s, model %s" % (i, json.dumps(a["ok"])[:200], json.dumps(b["ok"])[:200])
    return None


def trace_by_value(arg):
    return [bool(arg["batch"]), [[strip(r["ctx"]), [strip(a) for a in r["actions"]]] for r in arg["rows"]]]


def strip_value(v):
    """the Lean driver's by-value output as c15_learners.enc writes it"""
    return v


def strip_container(v):
    """a by-value encoded tuple/list as the list of its items; anything else as it is"""
    (k, x), = v.items()
    return x if k in ("t", "l") else v


def strip(v):
    """drop refs from a ref-carrying encoding (gives the by-value encoding of c15_learners.enc / the Lean driver)"""
    (k, x), = v.items()
    if k in ("n", "b", "i"):
        return v
    if k == "f":
        return {"f": [x[1], x[2]]}
    if k == "nan":
        return {"nan": 0}
    if k == "s":
        return {"s": x[1]}
    if k in ("t", "l"):
        return {k: [strip(e) for e in x[1]]}
    if k == "d":
        return {"d": [[{"s": kk}, strip(vv)] for kk, vv in x[1]]}
    raise ValueError(v)


# ----------------------------------------------------------------------------------------------
# generators
# ----------------------------------------------------------------------------------------------
def dy(rng, den=16):
    return {"f": [rng.randint(1, den - 1), den]}


def gen_scalar(rng):
    return rng.wchoice([(3, {"i": rng.randint(-3, 9)}), (2, dy(rng)), (2, {"s": rng.choice(["a", "bc", "xyz", "", "action"])}), (1, {"b": rng.chance(0.5)}), (1, {"n": 0})])


def gen_ctx(rng):
    r = rng.below(10)
    if r < 2:
        return {"n": 0}
    if r < 4:
        return {"i": rng.randint(0, 50)}
    if r < 5:
        return dy(rng, 8)
    if r < 6:
        return {"s": rng.choice(["u1", "ctx", "a"])}
    if r < 7:
        return {"t": [{"i": rng.randint(0, 3)} for _ in range(rng.randint(1, 3))]}
    if r < 8:
        return {"l": [dy(rng, 4) for _ in range(rng.randint(1, 3))]}
    return {"d": [[{"s": "c%d" % j}, {"i": rng.randint(0, 5)}] for j in range(rng.randint(1, 3))]}


ACTION_KINDS = ["nan", "strpre", "int01", "ints", "mixint", "bool", "fltp", "flt01", "fltmix", "str", "str1", "onehot_t", "onehot_l", "tup1", "tup2", "tup3", "lst2",
                "dict1", "dict2", "dict3", "sparse1h", "mixed"]


def gen_actions(rng, kind, K):
    if kind == "int01":
        return rng.shuffle([{"i": j} for j in range(K)])
    if kind == "ints":
        return [{"i": v} for v in rng.sample(list(range(2, 12)), K)]
    if kind == "mixint":
        return rng.shuffle([{"i": v} for v in rng.sample([0, 1] + list(range(2, 8)), K)])
    if kind == "bool":
        return rng.shuffle([{"b": False}, {"b": True}])[:max(1, min(K, 2))]
    if kind == "fltp":
        return [{"f": [v, 16]} for v in rng.sample(list(range(1, 16)), K)]
    if kind == "flt01":
        return rng.shuffle([{"f": [0, 1]}, {"f": [1, 1]}, {"f": [1, 2]}, {"f": [1, 4]}, {"f": [3, 4]}][:max(K, 1)])[:K]
    if kind == "fltmix":
        return rng.shuffle([{"i": 0}, {"f": [1, 1]}, {"f": [1, 2]}, {"i": 1}, {"f": [0, 1]}])[:K]
    if kind == "str":
        return [{"s": v} for v in rng.sample(["aa", "bb", "cat", "dog", "action", "pmf", "xy", "left", "0"], K)]
    if kind == "nan":
        # nan != nan: `_prev_actions != actions` then depends on object identity; (B) only, the model has no nan
        # phase 5: nan objects are tokens of the model ((A) too); every other draw puts 0/1 beside them (float copies are rebuilt
        # exactly when the list holds another nan OBJECT)
        if rng.chance(0.5):
            return rng.shuffle([{"nan": 0}, {"i": 0}, {"i": 1}, {"nan": 0}, {"f": [1, 4]}][:max(K, 2)])
        return rng.shuffle([{"nan": 0}, {"f": [5, 2]}, {"f": [1, 4]}, {"nan": 0}, {"i": 3}][:max(K, 2)])
    if kind == "strpre":
        # strings that are prefixes of each other / two characters whose first character is itself offered (compass points)
        pool = rng.choice([["N", "E", "NE", "SE", "S", "NW"], ["a", "ab", "abc", "b", "ba"], ["0", "1", "01", "10", "0.5"], ["x", "xy", "y", "yx", "xyz"]])
        first = rng.choice([a for a in pool if len(a) == 2])
        rest = [a for a in rng.shuffle(pool) if a != first]
        return rng.shuffle([{"s": v} for v in ([first] + rest)[:max(K, 2)]])
    if kind == "str1":
        return [{"s": v} for v in rng.sample(["a", "b", "c", "d", "e", "1"], K)]
    if kind in ("onehot_t", "onehot_l"):
        t = "t" if kind == "onehot_t" else "l"
        return [{t: [{"i": int(i == j)} for i in range(K)]} for j in range(K)]
    if kind == "tup1":
        return [{"t": [{"i": v}]} for v in rng.sample(list(range(0, 9)), K)]
    if kind == "tup2":
        return [{"t": [rng.choice([{"i": v}, {"f": [v, 8]}]), dy(rng, 4)]} for v in rng.sample(list(range(0, 9)), K)]
    if kind == "tup3":
        return [{"t": [{"i": v}, dy(rng, 4), {"s": "f"}]} for v in rng.sample(list(range(0, 9)), K)]
    if kind == "lst2":
        return [{"l": [{"f": [v, 8]}, {"f": [8 - v, 8]}]} for v in rng.sample(list(range(0, 9)), K)]
    if kind in ("dict1", "dict2", "dict3"):
        nf = int(kind[-1])
        return [{"d": [[{"s": "x"}, {"i": v}]] + [[{"s": "y%d" % t}, dy(rng, 4)] for t in range(nf - 1)]} for v in rng.sample(list(range(0, 9)), K)]
    if kind == "sparse1h":
        nf = rng.choice([1, 1, 2, 3])
        return [{"d": [[{"s": "f%d" % v}, {"i": 1}]] + [[{"s": "g%d" % t}, {"i": t}] for t in range(nf - 1)]} for v in rng.sample(list(range(0, 9)), K)]
    # mixed
    pool = [{"i": 0}, {"i": 1}, {"i": 5}, {"f": [1, 2]}, {"s": "aa"}, {"t": [{"i": 1}, {"i": 0}]}, {"l": [{"i": 5}, {"f": [1, 2]}]},
            {"d": [[{"s": "x"}, {"i": 1}]]}, {"b": True}, {"t": [{"i": 5}, {"i": 1}]}]
    return rng.sample(pool, K)


def gen_pmf(rng, K, style):
    if style == "onehot_int":
        j = rng.below(K)
        return [{"i": int(i == j)} for i in range(K)]
    if style == "onehot_flt":
        j = rng.below(K)
        return [{"f": [int(i == j), 1]} for i in range(K)]
    if style == "mixed01":
        j = rng.below(K)
        return [({"i": 1} if i == j else {"f": [0, 1]}) for i in range(K)]
    if style == "zeros":
        # dyadic, summing to exactly 1, with zero-probability actions (leading / interior / trailing) - they must never be played
        den = rng.choice([2, 4, 8])
        nz = rng.randint(1, max(1, K - 1)) if K > 1 else 0
        pos = K - nz
        cuts = sorted(rng.sample(list(range(1, den)), min(pos - 1, den - 1))) if pos > 1 else []
        parts = [b - a for a, b in zip([0] + cuts, cuts + [den])]
        parts = parts + [0] * (K - len(parts))
        where = rng.below(3)
        parts = sorted(parts) if where == 0 else sorted(parts, reverse=True) if where == 1 else rng.shuffle(parts)
        return [{"f": [p, den]} for p in parts]
    if style == "near1":
        # sum off by d/65536, d spread over the documented tolerance [0, .001] (65/65536 < .001 < 66/65536); 16-bit entries keep
        # every float operation of possible_pmf / choicew exact
        den = 65536
        d = rng.choice([1, 2, 7, 20, 40, 60, 64, 65]) * rng.choice([1, -1])
        tot = den + d
        cuts = sorted(rng.randint(0, tot) for _ in range(K - 1))
        parts = [b - a for a, b in zip([0] + cuts, cuts + [tot])]
        return [{"f": [p, den]} for p in parts]
    # dyadic entries summing to exactly 1 (float addition exact)
    den = rng.choice([4, 8, 16])
    cuts = sorted(rng.randint(0, den) for _ in range(K - 1))
    parts = [b - a for a, b in zip([0] + cuts, cuts + [den])]
    return [{"f": [p, den]} for p in parts]


def gen_kwargs(rng, keys):
    return [[{"s": k}, rng.wchoice([(3, gen_scalar(rng)), (1, {"l": [gen_scalar(rng) for _ in range(rng.randint(0, 2))]}),
                                    (1, {"d": [[{"s": "q"}, {"i": 1}]]}), (1, {"t": [{"i": 1}, {"i": 2}]})])] for k in keys]


def gen_case(rng, stress=0.3):
    fmt = rng.choice(FMTS)
    kw = rng.chance(0.5)
    mode = rng.wchoice([(3, "not"), (3, "single"), (4, "row"), (5, "col")])
    batch = mode != "not"
    layout = "single" if mode == "not" else mode
    kind = rng.choice(ACTION_KINDS)
    K = rng.wchoice([(2, 1), (4, 2), (4, 3), (2, 4), (1, 5)])
    ncalls = rng.wchoice([(3, 1), (3, 2), (2, 3)])
    keys = rng.sample(["k", "info", "z", "n_obs", "a"] + (["pmf"] if rng.chance(0.1) else []), rng.wchoice([(1, 0), (3, 1), (2, 2), (1, 3)])) if kw else []
    if kw and rng.chance(0.2):
        # kwargs keys named like the parameters of the functions they travel through (_safe_call's key / method / args / ...)
        pool = path_names()
        keys = rng.sample(pool, min(len(pool), rng.wchoice([(3, 1), (2, 2), (1, 4)])))
        if rng.chance(0.3):
            keys = keys + ["k"]
    pmf_style = rng.wchoice([(3, "onehot_int"), (1, "onehot_flt"), (1, "mixed01"), (4, "dyadic"), (3, "near1"), (3, "zeros")])
    if rng.chance(stress):
        # the heart of the disambiguation: answers whose items are 0/1-like next to action sets containing 0/1-like values
        fmt = rng.wchoice([(6, "PM"), (2, "A"), (2, "AP"), (1, "dPM")])
        kind = rng.choice(["int01", "mixint", "bool", "flt01", "fltmix", "onehot_t", "onehot_l", "lst2", "tup2", "fltp", "strpre"])
        K = rng.wchoice([(1, 1), (6, 2), (3, 3)])
        pmf_style = rng.wchoice([(5, "onehot_int"), (2, "mixed01"), (1, "onehot_flt"), (2, "dyadic"), (3, "near1"), (3, "zeros")])
    if rng.chance(0.04):
        # row-major bare sparse actions with different feature names per action (recorded defect C15-F4)
        fmt, kw, kind = "A", False, "sparse1h"
        mode = rng.choice(["row", "single"])
        batch, layout = True, mode
        K = rng.wchoice([(3, 2), (3, 3), (1, 4)])
    case = {"seed": rng.wchoice([(2, None), (3, rng.randint(0, 50)), (1, rng.randint(-2 ** 31, 2 ** 40))]),
            "fmt": fmt, "kw": kw, "layout": layout, "batch": batch,
            "wrap": rng.choice(["tuple", "list"]), "pmf_type": rng.wchoice([(3, "list"), (1, "tuple")]),
            "nobatch": rng.wchoice([(3, "raise"), (1, "none"), (1, "keyerror"), (5, rng.choice(sorted(REFUSALS)))]), "e2e": rng.chance(0.35), "calls": []}
    if batch and rng.chance(0.3):
        # batch-awareness differs per method: predict native / learn per row, predict per row / learn native, same for score
        case["learn_batch"] = rng.chance(0.5)
        case["score_batch"] = rng.chance(0.5)
    if case.get("e2e") and (fmt in ("PM", "dPM") and rng.chance(0.7) or rng.chance(0.1)):
        # which seed takes effect in SequentialCB.evaluate: its own whenever it is not None (also 0, 0.0, False), else the experiment's
        es = {"ev": rng.choice([{"i": 0}, {"i": 0}, {"f": [0, 1]}, {"b": False}, {"i": 1}, None, None, {"i": rng.randint(2, 40)}])}
        exp = rng.choice(["unset", 0, 5, rng.randint(1, 40)])
        if exp != "unset":
            es["exp"] = exp
        case["e2e_seed"] = es
        if rng.chance(0.4):
            # one evaluator object, several evaluations, the experiment seed changing in between
            es["ev"] = rng.choice([None, None, None, {"i": 0}, {"i": rng.randint(1, 9)}])
            case["e2e_runs"] = [rng.choice(["unset", 0, 5, 7, rng.randint(1, 40)]) for _ in range(rng.randint(2, 4))]
    if rng.chance(0.12):
        # has_score / score error paths: no score attribute, the base class's NotImplementedError, an implemented score that raises
        case["score_kind"] = rng.choice(["absent", "base", ["raises", "AttributeError", "'Model' object has no attribute 'score'"],
                                         ["raises", "AttributeError", "'NoneType' object has no attribute 'score_table'"],
                                         ["raises", "KeyError", "score_cache"], ["raises", "TypeError", "unsupported operand type(s)"],
                                         ["raises", "ValueError", "bad input"], ["raises", "ValueError", "bad underscore in name"],
                                         ["raises", "TypeError", "Scoreboard is missing"], ["raises", "KeyError", "scores"]])
    if kw:
        # the kwargs payload in several Mapping flavours (SafeLearner.has_kwargs tests abc.Mapping)
        case["kwmap"] = rng.wchoice([(5, "dict"), (1, "ordered"), (1, "default"), (1, "subclass"), (2, "proxy"), (2, "plain"), (2, "chain")])
    acts = gen_actions(rng, kind, K)
    K = len(acts)
    ncols = {"A": 1, "AP": 2, "PM": K}.get(fmt, 1) + (1 if kw else 0)
    seen = {}
    same_ctx = rng.chance(0.15)
    for c in range(ncalls):
        r = rng.below(10)
        if r < 2 and c > 0:
            K2 = rng.wchoice([(1, 1), (2, 2), (2, 3), (1, 4)])
            acts = gen_actions(rng, kind, K2)      # another action set
        elif r < 3 and c > 0:
            acts = [equal_twin(a) for a in acts]   # an equal list of other objects/types ([0,1] -> [False,True] / [0.0,1.0])
        K = len(acts)
        n = 1 if not batch else rng.wchoice([(2, 1), (3, 2), (3, 3), (1, 4), (2, K), (2, ncols), (1, max(1, ncols - 1))])
        call = []
        per_row_acts = batch and rng.chance(0.25)
        for i in range(n):
            A = acts if not per_row_acts else rng.shuffle(acts)
            ctx = {"n": 0} if same_ctx else gen_ctx(rng)
            row = {"ctx": ctx, "actions": A, "pick": rng.below(len(A)), "p": rng.wchoice([(4, dy(rng)), (1, {"i": 1}), (1, {"f": [1, 1]}), (1, {"f": [1, 2]})]),
                   "pmf": gen_pmf(rng, len(A), pmf_style), "kwargs": gen_kwargs(rng, keys if not (kw and rng.chance(0.25)) else rng.shuffle(keys))}
            key = json.dumps([freeze_json(ctx), [freeze_json(a) for a in A]], sort_keys=True)
            if key in seen:        # a learner is a function of what it is given: same (context, actions) -> same answer
                row = dict(seen[key], ctx=ctx, actions=A)
            else:
                seen[key] = row
            call.append(row)
        case["calls"].append(call)
    if fmt in ("PM", "dPM") and pmf_style in ("dyadic", "zeros", "onehot_int", "onehot_flt", "mixed01") and rng.chance(0.5):
        # exact ties: the uniform draw of one row lands exactly on a boundary of its cumulative PMF (0.0 incl.)
        nrows = sum(len(c) for c in case["calls"])
        k = rng.randint(1, nrows)
        K_ = len([r for c in case["calls"] for r in c][k - 1]["pmf"])
        tie_case(case, rng, k, rng.randint(-1, K_ - 1))
    return case


def gen_mixed(rng):
    """one wrapper switched between unbatched and batched calls (outside the quantifier; (A) only): the layout detected on
    the first call is kept, see mixed_history_counterexample"""
    case = gen_case(rng)
    if case["fmt"] in ("PM", "dPM"):
        case["fmt"] = rng.choice(["A", "AP", "dA", "dAP"])
    case.pop("e2e", None)
    case["batch"] = True
    if case["layout"] == "single" and rng.chance(0.5):
        case["layout"] = rng.choice(["row", "col"])
    calls = case["calls"]
    while len(calls) < 2:
        calls.append(json.loads(json.dumps(calls[0])))
    first = rng.chance(0.5)
    case["batches"] = [(first if i % 2 == 0 else not first) for i in range(len(calls))]
    k = 0
    for i, b in enumerate(case["batches"]):
        if not b:
            calls[i] = calls[i][:1]
        for r in calls[i]:
            r["ctx"] = {"i": 100 + k}      # scalar contexts: `_method2` on an unbatched call then raises before calling the learner
            k += 1
    case["nobatch"] = "raise"
    # learn / score keep their own call-style memo: batch-awareness per method, independent of predict's
    case["learn_batch"] = rng.chance(0.5)
    case["score_batch"] = rng.chance(0.5)
    return case


def gen_drop(rng):
    """a caller that builds a fresh action list per call and drops it; action sets with 0/1 (they make SafeLearner keep a private
    copy) whose contents and sizes change from call to call"""
    case = gen_case(rng)
    for k in ("e2e", "e2e_seed", "e2e_runs", "batches"):
        case.pop(k, None)
    calls = case["calls"]
    while len(calls) < rng.choice([3, 4, 5, 6]):
        calls.append(json.loads(json.dumps(calls[rng.below(len(calls))])))
    style = rng.choice(["onehot_int", "dyadic", "mixed01"])
    k = 0
    for call in calls:
        acts = gen_actions(rng, rng.choice(["int01", "mixint", "mixint", "bool", "fltmix", "ints"]), rng.choice([2, 3, 4]))
        for r in call:
            r["ctx"] = {"i": 300 + k}
            k += 1
            r["actions"] = acts
            r["pick"] = rng.below(len(acts))
            r["pmf"] = gen_pmf(rng, len(acts), style)
    case["drop"] = True
    return case


def gen_inplace(rng):
    """phase 6: a caller that owns ONE action list object and refills it in place before every call (3-6 calls).  `none01`: no
    0/1 ever (SafeLearner passes the caller's list through - always the current content); `same`: 0/1-containing content that
    never changes; `change01`: 0/1-containing content that changes (region of C15-F6)"""
    case = gen_drop(rng)
    mode = rng.choice(["none01", "none01", "same", "change01", "change01"])
    if mode != "change01":
        k = 0
        acts0 = None
        for call in case["calls"]:
            if mode == "none01":
                acts = gen_actions(rng, rng.choice(["ints", "fltp", "str", "strpre", "tup3"]), rng.choice([2, 3, 4]))
            else:
                acts0 = acts0 or gen_actions(rng, rng.choice(["int01", "mixint", "bool", "fltmix"]), rng.choice([2, 3, 4]))
                acts = acts0
            for r in call:
                r["actions"] = acts
                r["pick"] = rng.below(len(acts))
                r["pmf"] = gen_pmf(rng, len(acts), "dyadic")
                if mode == "same":
                    r["ctx"] = {"i": 700 + k}
                k += 1
    case["drop"] = "inplace"
    if case.get("batch") and rng.chance(0.35):
        case["batch"], case["layout"] = False, "single"          # an unbatched caller: one row per call
        case["calls"] = [c[:1] for c in case["calls"]]
        for k_ in ("learn_batch", "score_batch"):
            case.pop(k_, None)
    if case.get("batch") and rng.chance(0.5):
        case["inplace_rows"] = True
    return case


def gen_reuse(rng):
    """phase 6: a learner that owns its answer data - the kwargs mapping / PMF list of a row are built once and the SAME objects
    are returned whenever that row comes again; histories of 3-6 calls in which earlier calls come back (a b a, a b b a ...)"""
    case = gen_case(rng)
    for _ in range(3):
        if case.get("kw") or case["fmt"] in ("PM", "dPM"):
            break
        case = gen_case(rng)          # prefer learners that own something: a kwargs mapping or a PMF list
    case.pop("batches", None)
    calls = case["calls"]
    n = rng.choice([3, 4, 5, 6])
    while len(calls) < n:
        calls.append(json.loads(json.dumps(calls[rng.below(len(calls))])))
    case["reuse_answers"] = True
    return case


def gen_rewrap(rng):
    """SafeLearner(SafeLearner(learner), seed2): two wrappers of one learner, their calls interleaved; each wrapper is used batched
    or unbatched on its own (an unbatched wrapper is given one-row calls)"""
    case = gen_case(rng)
    if rng.chance(0.5):
        case["fmt"] = rng.choice(["PM", "dPM"])          # draws must come from each wrapper's own seed and own call count
    case.pop("e2e", None)
    calls = case["calls"]
    while len(calls) < rng.choice([2, 3, 4]):
        calls.append(json.loads(json.dumps(calls[rng.below(len(calls))])))
    who = [rng.below(2) for _ in calls]
    if len(set(who)) == 1:
        who[rng.below(len(who))] ^= 1
    batch2 = rng.chance(0.5)
    for i, w in enumerate(who):
        if not (batch2 if w else case["batch"]):
            calls[i] = calls[i][:1]
    case["rewrap"] = {"who": who, "batch2": batch2, "seed2": rng.wchoice([(1, None), (3, rng.randint(0, 50)), (1, rng.randint(-2 ** 31, 2 ** 40))])}
    return case


def equal_twin(a):
    k, x = kind_of(a)
    if k == "i" and x in (0, 1):
        return [{"b": bool(x)}, {"f": [x, 1]}][x % 2]
    if k == "b":
        return {"i": int(x)}
    if k == "f" and x[0] % x[1] == 0 and 0 <= x[0] // x[1] <= 9:
        return {"i": x[0] // x[1]}
    return json.loads(json.dumps(a))


def freeze_json(v):
    """value key of an encoded value with Python's numeric equalities (0 == 0.0 == False)"""
    k, x = kind_of(v)
    if k == "b":
        return ["num", int(x), 1]
    if k == "i":
        return ["num", x, 1]
    if k == "f":
        from fractions import Fraction
        fr = Fraction(x[0], x[1])
        return ["num", fr.numerator, fr.denominator]
    if k in ("t", "l"):
        return [k, [freeze_json(e) for e in x]]
    if k == "d":
        return ["d", sorted([freeze_json(a), freeze_json(b)] for a, b in x)]
    return [k, x]


def gen_ambiguous(rng):
    """outside the quantifier, (A) only: copies / aliases of the offered objects, un-hinted shapes that can be read two ways,
    malformed answers"""
    case = gen_case(rng)
    r = rng.below(10)
    if r < 5:
        case["answer"] = "copy"
    elif r < 7:
        case["answer"] = "alias"
        # probability-like float actions so that PMF entries can be the offered objects
        for call in case["calls"]:
            for row in call:
                K = len(row["actions"])
                if K >= 2:
                    den = 8
                    cuts = sorted(rng.randint(1, den - 1) for _ in range(K - 1))
                    parts = [b - a for a, b in zip([0] + cuts, cuts + [den])]
                    row["pmf"] = [{"f": [p, den]} for p in parts]
                    row["actions"] = [{"f": [p, den]} for p in parts][:1] + row["actions"][1:]
    elif r < 8 and rng.chance(0.5):
        case["weird"] = "pmf-just-outside-tolerance"
        for call in case["calls"]:
            for row in call:
                K = len(row["actions"])
                tot = 65536 + rng.choice([66, 70, 200, -66, -300])
                cuts = sorted(rng.randint(0, tot) for _ in range(K - 1))
                row["pmf"] = [{"f": [b - a, 65536]} for a, b in zip([0] + cuts, cuts + [tot])]
    elif r < 8:
        case["weird"] = "pmf-not-normalised"
        for call in case["calls"]:
            for row in call:
                row["pmf"] = [{"f": [1, 4]} for _ in row["actions"]] if len(row["actions"]) != 4 else [{"f": [1, 2]} for _ in row["actions"]]
    elif r < 9:
        case["weird"] = "pmf-wrong-length"
        for call in case["calls"]:
            for row in call:
                row["pmf"] = row["pmf"] + [{"i": 0}]
    else:
        case["weird"] = "hint-named-feature"
        for call in case["calls"]:
            for row in call:
                row["actions"] = [{"d": [[{"s": rng.choice(HINTS)}, {"i": j}], [{"s": "x"}, {"i": 1}]]} for j in range(len(row["actions"]))]
    # keep the learner a function of its input
    seen = {}
    for call in case["calls"]:
        for i, row in enumerate(call):
            key = json.dumps([freeze_json(row["ctx"]), [freeze_json(a) for a in row["actions"]]], sort_keys=True)
            if key in seen:
                call[i] = dict(seen[key], ctx=row["ctx"], actions=row["actions"])
            else:
                seen[key] = row
    return case


PF_TESTS = {
    "isinstance(std_pred, dict)": "isDict", "'pmf' in std_pred": "hasPmf", "not actions": "noActions",
    "no_len(pmf) or len(pmf) != len(actions)": "pmfLenBad", "'action' in std_pred": "hasAction", "'action_prob' in std_pred": "hasAP",
    "no_len(ap) or len(ap) != 2": "apLenBad", "no_len(std_pred) or isinstance(std_pred, (str, dict))": "scalarLike",
    "len(std_pred) != 2": "lenNe2", "len(std_pred) == 2": "lenEq2", "actions == [] or actions is None": "actionsEmpty",
    "SafeLearner.possible_pmf(std_pred[0], actions)": "possPmf", "SafeLearner.possible_action(std_pred[0], actions)": "possAct",
}
PF_RETURNS = {"PM*": ".ret .PM true", "AX*": ".ret .AX true", "AP*": ".ret .AP true", "PM": ".ret .PM false", "AX": ".ret .AX false", "AP": ".ret .AP false"}
PF_BINDS = {"pmf = std_pred['pmf']": "pmf", "ap = std_pred['action_prob']": "action_prob"}


def extract_pred_format_tree(path):
    """The body of SafeLearner.pred_format as a Lean `List PFStmt` (ast, no import, no execution): the `if` chain with each test mapped
    to a PFAtom by its (ast.unparse-normalised) source text, `return '<fmt>'`, `raise <CobaException built at the top>`,
    `std_pred = [std_pred]`, local bindings, `pass`.  Anything else becomes `.unknown` - then `pred_format_table` no longer proves.
    Returns (lean_term, texts, n_unknown)."""
    import ast
    tree = ast.parse(open(path, encoding="utf-8").read())
    cls = next(n for n in ast.walk(tree) if isinstance(n, ast.ClassDef) and n.name == "SafeLearner")
    fn = next(n for n in cls.body if isinstance(n, ast.FunctionDef) and n.name == "pred_format")
    texts, unknown, excs = [], [], set()

    def is_item_is_action(t):
        # any(std_pred[0] is <v> for <v> in actions), whatever the loop variable is called
        try:
            g = t.args[0]
            c = g.generators[0]
            return (isinstance(t, ast.Call) and t.func.id == "any" and len(t.args) == 1 and not t.keywords and isinstance(g, ast.GeneratorExp)
                    and len(g.generators) == 1 and not c.ifs and isinstance(c.target, ast.Name) and ast.unparse(c.iter) == "actions"
                    and isinstance(g.elt, ast.Compare) and len(g.elt.ops) == 1 and isinstance(g.elt.ops[0], ast.Is)
                    and ast.unparse(g.elt.left) == "std_pred[0]" and isinstance(g.elt.comparators[0], ast.Name) and g.elt.comparators[0].id == c.target.id)
        except Exception:
            return False

    def atom(t):
        txt = ast.unparse(t)
        texts.append(txt)
        if is_item_is_action(t):
            return ".itemIsAction"
        if txt in PF_TESTS:
            return "." + PF_TESTS[txt]
        unknown.append(txt)
        return ".unknown"

    def stmts(body, top=False):
        out = []
        for st in body:
            txt = ast.unparse(st)
            if isinstance(st, ast.Expr) and isinstance(st.value, ast.Constant) and isinstance(st.value.value, str):
                continue                                    # docstring
            if top and isinstance(st, ast.Assign) and len(st.targets) == 1 and isinstance(st.targets[0], ast.Name):
                name, v = st.targets[0].id, st.value
                is_exc = lambda c: isinstance(c, ast.Call) and getattr(c.func, "id", None) == "CobaException"
                if is_exc(v) or (isinstance(v, ast.Lambda) and is_exc(v.body)):
                    excs.add(name)                          # the exceptions built at the top
                    continue
                if name == "no_len" and txt == "no_len = lambda item: not hasattr(item, '__len__')":
                    continue
            if isinstance(st, ast.If):
                out.append(".ite %s [%s] [%s]" % (atom(st.test), ", ".join(stmts(st.body)), ", ".join(stmts(st.orelse))))
            elif isinstance(st, ast.Return) and isinstance(st.value, ast.Constant) and st.value.value in PF_RETURNS:
                out.append(PF_RETURNS[st.value.value])
            elif isinstance(st, ast.Raise) and st.cause is None and (
                    (isinstance(st.exc, ast.Name) and st.exc.id in excs) or
                    (isinstance(st.exc, ast.Call) and isinstance(st.exc.func, ast.Name) and st.exc.func.id in excs)):
                out.append(".raise")
            elif txt == "std_pred = [std_pred]":
                out.append(".wrap")
            elif txt in PF_BINDS:
                out.append(".bind %s" % json.dumps(PF_BINDS[txt]))
            elif isinstance(st, ast.Pass):
                out.append(".skip")
            else:
                unknown.append(txt)
                out.append(".unknown")
        return out
    args = [a.arg for a in fn.args.args]
    body = stmts(fn.body, top=True)
    if args[:2] != ["std_pred", "actions"]:
        unknown.append("signature " + ",".join(args))
        body = [".unknown"] + body
    return body, texts, unknown


def extract_safety_consts(path):
    """hint key lists, possible_pmf's tolerance, the has_score / score / learn probe strings and make_safe's [0,1], read from the
    source text of coba/safety.py with ast (no import, no execution)"""
    import ast
    from fractions import Fraction
    src = open(path, encoding="utf-8").read()
    tree = ast.parse(src)
    cls = next(n for n in ast.walk(tree) if isinstance(n, ast.ClassDef) and n.name == "SafeLearner")
    funcs = {}
    for n in ast.walk(cls):
        if isinstance(n, ast.FunctionDef):
            funcs.setdefault(n.name, n)
    out = {"hint_sites": []}
    strlist = lambda node: [e.value for e in node.elts] if isinstance(node, ast.List) and all(isinstance(e, ast.Constant) and isinstance(e.value, str) for e in node.elts) else None
    for n in ast.walk(cls):
        if isinstance(n, ast.Assign) and any(isinstance(t, ast.Name) and t.id == "is_hint" for t in n.targets):
            lists = [strlist(x) for x in ast.walk(n.value) if strlist(x)]
            if len(lists) != 1:
                raise ValueError("is_hint without exactly one key list")
            out["hint_sites"].append(lists[0])
    if not out["hint_sites"]:
        raise ValueError("no is_hint lambda found")
    calls = [c for c in ast.walk(cls) if isinstance(c, ast.Call) and getattr(c.func, "id", getattr(c.func, "attr", None)) == "isclose"]
    if len(calls) != 1:
        raise ValueError("expected one isclose call")
    c = calls[0]
    kw = {k.arg: k.value for k in c.keywords}
    if set(kw) != {"abs_tol"} or len(c.args) != 2 or not isinstance(c.args[1], ast.Constant) or isinstance(c.args[1].value, bool) or not isinstance(c.args[1].value, int):
        raise ValueError("isclose call reshaped")
    tol = Fraction(ast.get_source_segment(src, kw["abs_tol"]).strip())
    out["abs_tol"], out["pmf_total"] = [tol.numerator, tol.denominator], c.args[1].value

    def needle(fn, op):
        found = [x.left.value for x in ast.walk(funcs[fn]) if isinstance(x, ast.Compare) and len(x.ops) == 1 and isinstance(x.ops[0], op)
                 and isinstance(x.left, ast.Constant) and isinstance(x.left.value, str)]
        return found
    hs, sc = needle("has_score", ast.NotIn), needle("score", ast.In)
    if len(hs) != 1 or len(sc) != 1:
        raise ValueError("probe strings of has_score / score not found")
    out["has_score_needle"], out["score_needle"] = hs[0], sc[0]
    out["learn_needles"] = needle("learn", ast.In)
    zo = None
    for n in ast.walk(funcs["predict"]):
        if isinstance(n, ast.Assign) and any(isinstance(t, ast.Name) and t.id == "make_safe" for t in n.targets):
            for x in ast.walk(n.value):
                if isinstance(x, ast.Compare) and isinstance(x.ops[0], ast.In) and isinstance(x.comparators[0], ast.List):
                    zo = [ast.literal_eval(e) for e in x.comparators[0].elts]
    if zo is None or not all(isinstance(v, int) and not isinstance(v, bool) for v in zo):
        raise ValueError("make_safe's list not found")
    out["zero_one"] = zo
    return out


class C15(Property):
    id = "C15"
    prop_modules = ["CobaVerif.Props.C15"]
    quick_n, thorough_n, search_n = 6000, 150000, 4000
    case_timeout = 60
    workers = 8
    rule = ("one scripted learner (harness/props/c15_learners.py) per case answering 1-3 predict calls consistently in one of 6 formats x +-kwargs x "
            "{unbatched, batched answered row-major / column-major / by a learner that cannot handle batches (raises, returns None, KeyError)}; "
            "20 kinds of action sets (ints incl. 0/1, bools, probability-like floats, 0.0/1.0, strings, one-hot tuples/lists, 1-3 item tuples, "
            "sparse dicts with equal/different feature names, mixed) of 1-5 actions, also changing / equal-but-retyped between calls; batch sizes 1-4 "
            "biased to the number of actions and of answer columns (square case); PMFs one-hot int/float/mixed or dyadic (exact float sums); "
            "kwargs payloads in 7 Mapping flavours (50% dict, 15% dict subclasses, 30% non-dict Mappings); 30% of cases stress 0/1-like answers next to 0/1-like action sets; 35% also run through SequentialCB.evaluate; 15% of cases are outside "
            "the quantifier (copies/aliases of offered objects, malformed PMFs, hint-named features) and are checked by (A) only. "
            "after every predict/learn the same SafeLearner is asked score(context, actions, action) for the named action (even calls) or its neighbour (odd calls); "
            "kwargs key order differs between rows in 25% of kwargs cases; in 30% of batched cases learn / score take batches independently of predict; "
            "6% of cases are run as a caller that builds a fresh action list per call and drops it (0/1-containing, changing sets; (B) only); 40% of the seeded end-to-end cases "
            "evaluate 2-4 times on ONE SequentialCB object while the experiment seed changes; 12% of learners have no / the base class's / an always-raising score (has_score and score error paths, (A)); 4% of cases switch one wrapper between "
            "batched and unbatched calls ((A) only); action kind `nan` (phase 5: nan objects are tokens of the model, (A) on the recorded learner + (C) nan_encoding_faithful; one shared `math.nan` object or a fresh object per call); "
            "12% of cases are SafeLearner(SafeLearner(L), seed2) histories (two wrappers of one learner, calls interleaved, each batched or unbatched on its own); "
            "string action sets with prefixes of each other (compass points); 20% of PMFs sum to 1 +- d/65536 with d spread over the documented tolerance .001; "
            "round g: learners that cannot batch refuse with the real exception of their first operation on a batched value (18 flavours: int()/float() 'argument must be', "
            "'argument of type', missing/unexpected argument, unhashable, AttributeError incl. 'score', Index/Key/Value/ZeroDivision/Assertion/NotImplemented/RuntimeError) in predict, learn and score (50% of cases); "
            "PMF style `zeros` (zero-probability actions leading/interior/trailing) and, for half of the exact-sum PMF cases, a seed computed by inverting the LCG so that one row's uniform draw "
            "lands exactly on a boundary of its cumulative PMF (0.0 included); "
            "phase 6 (aliasing): 5% of cases are a caller that owns ONE action list object and refills it in place before every call (3-6 calls; no 0/1 ever / "
            "0/1 with unchanged content / 0/1 with changing content = region of open finding C15-F6; (B) + (A) against the model's reference-keeping or copying cache); "
            "6% are learners that own their kwargs mapping / PMF list per row and return the SAME objects when a row comes again in a 3-6 call history; on every case the "
            "caller's contexts / action lists and the learner-owned answer objects must be unchanged by value afterwards ((A): the model is purely functional); "
            "non-trivial = in-quantifier case for which the real code returned a result for every call, with >= 2 rows overall or a PMF draw; "
            "distinct by canonical JSON of the case")
    trusted_base = [
        "nan objects: CPython compares container items with `x is y or x == y` (PyObject_RichCompareBool: list.__eq__, `in`), which is what `richEq` "
        "states; the anchored code compares actions only through containers; the nan tokens are faithful for comparisons, not arithmetic ((A) on nan cases inside the quantifier only)",
        "translator: ast.unparse text of each `if` test of pred_format -> PFAtom (PF_TESTS in harness/props/c15.py); the meaning of each atom is pfEval (Model/C15.lean), "
        "compared with the real pred_format on every case (A:pred_format) and proved equal to predFormat (pred_format_table)",
        "CPython object identity: the harness numbers the objects the learner receives/returns by id(); ints in [-5,256], bools and None are compared by value by `is` in the model (small-int interning)",
        "coba.random.CobaRandom.choicew is the C05 model (finished property C05); PMF entries are dyadic so float sums are exact rationals",
        "isclose(sum,1,abs_tol=.001) modelled as |sum-1| <= 1/1000 (generated sums are 1 + d/65536 with |d| <= 65 inside, |d| >= 66 outside, or off by >= 1/16; 16-bit entries keep float sums exact)",
        "dict keys are strings (sparse features, kwargs, hints); numpy/torch answers and batches are excluded",
        "(A) also covers what learn is given (model runHistory vs the learner's learn log, kwargs compared as finite maps) and SafeLearner.score (model score vs the real result)",
        "str(ex) of the learner's own score exceptions is taken from CPython (the harness calls learner.score(None,None,None) itself and passes class + text to the model)",
        "which of the four proposed repairs the code under test contains is decided by four behavioural probes (variant()); the Lean model has the same four switches (Fixes)",
    ]
    assumptions = ["the learner is a function of (context, actions): the same row is answered the same way in batch, per-row and probe calls",
                   "a SafeLearner is used either always batched or never (as an evaluator does; the theorems' Inv); two wrappers of one learner may differ in that; switching one wrapper is modelled and compared but not claimed (mixed_*_counterexample)",
                   "kwargs of the rows of one batch have the same key set, in any order; kwargs keys are not named action/action_prob/pmf",
                   "the kwargs payload is any abc.Mapping (dict, OrderedDict/defaultdict/dict subclasses, MappingProxyType, a plain Mapping class, ChainMap); "
                   "the model's dict stands for Mapping; a non-dict Mapping after a column-major hinted answer is finding C15-F5 ((A) there only once fixes/C15-colhint-kwargs-mapping.diff is in)",
                   "kwargs keys named self / context / action / reward / probability cannot be passed through `Learner.learn(context, action, reward, probability, **kwargs)` at all (python's own 'multiple values'): outside the quantifier; every other key name, also those of internal parameters (key, method, args, kwargs, has_out, ...), is delivered unchanged",
                   "un-hinted column-major answers: not a single column for a single-row first batch, PMFs over >= 2 actions (design limits, see ambiguity_characterised and notes)"]
    partial_theorems = {"format_roundtrip_pinned_partial": "the pinned commit violates the property in the regions of the recorded defects C15-F1..F4 "
                        "(excluded by the fx=Fixes.none disjuncts of firstRowOK / dictRowsOK / colParseOK and, for C15-F2, by the float-copy premise of "
                        "pmf_entry_fresh); format_roundtrip is the full-strength theorem for the code with fixes/C15-*.diff applied",
                        "mixed_*_counterexample": "histories that switch ONE wrapper between batched and unbatched calls are not claimed (mixed_history_roundtrip is false: "
                        "the layout/call style memoised on the first call is kept); the model mirrors the code there and is compared on generated mixed histories",
                        "pyEq_seq_equiv": "== is proved an equivalence on scalars nested in tuples/lists to any depth (seqVal); dict values need duplicate-free keys "
                        "(pyEq_dict_dupkeys_counterexample: the model's key/value lists admit a repeated key, then == is not symmetric) - that case is open; "
                        "for cached action sets cached_actions_equal needs no transitivity; nan objects = tokens `mkNan ref` outside the range of the generated floats (nan_encoding_faithful; floats below -2^40 and inf are refused by the encoder)",
                        "history_roundtrip": "full strength for every Fixes value; for the model's dict = abc.Mapping reading it mirrors the code only once "
                        "fixes/C15-colhint-kwargs-mapping.diff (open finding C15-F5) is applied - until then (A) is skipped in that region",
                        "inplace_never_kept_partial / inplace_fresh_objects_partial": "the pinned `_prev_actions = actions` keeps a REFERENCE to the caller's list: the "
                        "reference-keeping cache (runPrepRef) equals the value-based `prepare` of all other theorems only for callers that never pass the "
                        "object currently kept (a fresh list per interaction is enough); inplace_stale_counterexample = open finding C15-F6 (a caller refilling "
                        "its list in place is offered stale float copies); with fixes/C15-prev-actions-snapshot.diff the code IS runPrep (no hypothesis). "
                        "(A) compares in-place callers with runPrepRef / runPrep according to a behavioural probe (variant()['snapshot'])"}

    # ---- translator part: constants of coba/safety.py re-extracted (ast) on every run -> Generated/C15Consts.lean; Props/C15.lean
    # proves they are the ones the model uses (`source_constants_match`), so an edited constant breaks a proof obligation
    def pre_build(self):
        from core import lean
        path = os.path.join(lean.LEAN_DIR, "CobaVerif", "Generated", "C15Consts.lean")
        lstr = lambda x: json.dumps(x, ensure_ascii=True)
        try:
            vals = extract_safety_consts(os.path.join(os.environ.get("COBA_REPO", "/repo"), "coba", "safety.py"))
            ok, note = True, "constants extracted from coba/safety.py: %s" % json.dumps(vals)
        except Exception as e:
            vals = {"hint_sites": [list(HINTS), list(HINTS)], "abs_tol": [1, 1000], "pmf_total": 1, "has_score_needle": "score",
                    "score_needle": "'score'", "zero_one": [0, 1], "learn_needles": ["got an unexpected", "learn() missing"]}
            ok, note = False, "constants of coba/safety.py could not be extracted (%s: %s); last known values written" % (type(e).__name__, e)
        lines = ["-- GENERATED by harness/props/c15.py from coba/safety.py (ast) on every run; do not edit.",
                 "namespace Coba.Generated.C15",
                 "/-- every `is_hint = lambda item: any(k in item for k in [...])` key list, in source order -/",
                 "def hintSites : List (List String) := [%s]" % ", ".join("[%s]" % ", ".join(lstr(k) for k in site) for site in vals["hint_sites"]),
                 "/-- `isclose(sum(item), <pmfTotal>, abs_tol=<absTolNum>/<absTolDen>)` in possible_pmf -/",
                 "def pmfTotal : Nat := %d" % vals["pmf_total"],
                 "def absTolNum : Nat := %d" % vals["abs_tol"][0],
                 "def absTolDen : Nat := %d" % vals["abs_tol"][1],
                 "/-- `<needle> not in str(ex)` in has_score; `<needle> in str(ex)` in score -/",
                 "def hasScoreNeedle : String := %s" % lstr(vals["has_score_needle"]),
                 "def scoreNeedle : String := %s" % lstr(vals["score_needle"]),
                 "/-- `make_safe = lambda a: float(a) if a in [...] else a` -/",
                 "def zeroOne : List Int := [%s]" % ", ".join(str(int(v)) for v in vals["zero_one"]),
                 "/-- the TypeError texts learn turns into a CobaException -/",
                 "def learnNeedles : List String := [%s]" % ", ".join(lstr(x) for x in vals["learn_needles"]),
                 "def extracted : Bool := %s" % ("true" if ok else "false"),
                 "end Coba.Generated.C15", ""]
        body = "\n".join(lines)
        old = open(path, encoding="utf-8").read() if os.path.exists(path) else None
        if old != body:
            os.makedirs(os.path.dirname(path), exist_ok=True)
            with open(path, "w", encoding="utf-8") as f:
                f.write(body)
        # pred_format's decision tree -> Generated/C15PredFormat.lean; `pred_format_table` proves that running it is the model's predFormat
        path2 = os.path.join(lean.LEAN_DIR, "CobaVerif", "Generated", "C15PredFormat.lean")
        try:
            tree, texts, unknown = extract_pred_format_tree(os.path.join(os.environ.get("COBA_REPO", "/repo"), "coba", "safety.py"))
            note2 = "pred_format decision tree extracted: %d tests, %d unknown%s" % (len(texts), len(unknown), (" " + json.dumps(unknown)[:300]) if unknown else "")
        except Exception as e:
            tree, texts = [".unknown"], []
            note2 = "pred_format could not be parsed (%s: %s): tree [.unknown] written" % (type(e).__name__, e)
        lines2 = ["-- GENERATED by harness/props/c15.py from SafeLearner.pred_format in coba/safety.py (ast) on every run; do not edit.",
                  "import CobaVerif.Model.C15",
                  "namespace Coba.Generated.C15",
                  "open Coba.C15 in",
                  "/-- the body of `pred_format(std_pred, actions)`, statement by statement (tests in source order: %s) -/" % "; ".join(texts).replace("-/", "- /"),
                  "def predFormatTree : List PFStmt := ["]
        lines2 += ["  " + t + ("," if i + 1 < len(tree) else "") for i, t in enumerate(tree)]
        lines2 += ["]", "end Coba.Generated.C15", ""]
        body2 = "\n".join(lines2)
        old2 = open(path2, encoding="utf-8").read() if os.path.exists(path2) else None
        if old2 != body2:
            with open(path2, "w", encoding="utf-8") as f:
                f.write(body2)
        return [note, note2]

    # ---- cases
    def generate(self, rng, tier):
        if rng.chance(0.15):
            return gen_ambiguous(rng)
        if rng.chance(0.12):
            return gen_rewrap(rng)
        if rng.chance(0.07):
            return gen_mixed(rng)
        if rng.chance(0.06):
            return gen_drop(rng)
        if rng.chance(0.05):
            return gen_inplace(rng)
        if rng.chance(0.06):
            return gen_reuse(rng)
        return gen_case(rng)

    def search(self, rng, tier):
        # in-quantifier learners only ((B) is the only check the search runs), biased to the identity-sensitive combinations
        if rng.chance(0.08):
            return gen_inplace(rng)
        if rng.chance(0.1):
            return gen_reuse(rng)
        return gen_rewrap(rng) if rng.chance(0.15) else gen_drop(rng) if rng.chance(0.1) else gen_case(rng, stress=0.6)

    def corpus(self):
        return corpus_cases()

    # ---- evaluation
    def evaluate(self, case, driver):
        if case.get("drop"):
            learner, recs = run_drop(case)
            out = self.evaluate_one(case, learner, recs, None)      # (B) only: the identities (A) needs are exactly what is dropped
            out["tags"].append("drop" if case["drop"] != "inplace" else "inplace:%s/%s" % (
                "batched" if case.get("batch") else "unbatched", "defect-region" if inplace_region(case) else "quiet-region"))
            if case["drop"] == "inplace" and driver is not None:
                self.correspond_inplace(driver, case, learner, recs, out)
            return out
        learner, recs = run_case(case)
        rw = case.get("rewrap")
        if not rw:
            return self.evaluate_one(case, learner, recs, driver)
        # two wrappers: each must behave as a fresh SafeLearner(learner, own seed) does on its own calls
        outs, fails, tags = [], [], ["rewrap:%s/%s" % ("batched" if case.get("batch") else "unbatched", "batched" if rw.get("batch2") else "unbatched")]
        for w in (0, 1):
            idx = [i for i, x in enumerate(rw["who"]) if int(x) == w]
            sub = {k: v for k, v in case.items() if k not in ("rewrap", "e2e")}
            sub["calls"] = [case["calls"][i] for i in idx]
            if w == 1:
                sub["seed"], sub["batch"] = rw.get("seed2"), bool(rw.get("batch2"))
            rs = [r for r in recs if r["w"] == w]
            if not sub["calls"] or not rs:
                continue
            o = self.evaluate_one(sub, learner, rs, driver)
            for f in o["fails"]:
                fails.append(F(f["kind"], "%s wrapper of SafeLearner(SafeLearner(L), seed2=%s) [calls %s]: %s" % (
                    "outer" if w else "inner", rw.get("seed2"), idx, f["what"]), "rewrap:" + f["sig"]))
            tags += [t for t in o["tags"] if t.startswith(("quant", "hyp", "histOK"))]
            outs.append(o)
        if driver is not None and not fails:
            self.correspond_two(driver, case, learner, recs, fails)
        return {"fails": fails, "nontrivial": bool(outs) and all(o["nontrivial"] for o in outs), "tags": tags,
                "impl": [o.get("impl") for o in outs], "model": None}

    def correspond_inplace(self, driver, case, learner, recs, out):
        """(A) for a caller that refills ONE list object in place: the action lists the real wrapper offers the learner, call after
        call, against the model's cache - `runPrepRef` (reference kept: the pinned lines) or `runPrep` (copy kept: the repaired
        lines), whichever the tree under test is - on the object history [0, 0, 0, ...]"""
        fx = variant()
        batch = bool(case.get("batch"))
        refs = Refs()
        try:
            calls = []
            for call in case["calls"]:
                ctxs = [dec(r["ctx"]) for r in call]
                acts = [[dec(a) for a in r["actions"]] for r in call]
                calls.append(refs.arg(batch, ctxs if batch else ctxs[0], acts if batch else acts[0]))
            ans = driver.ask({"fx": fx, "seed": 1, "calls": calls, "alias": [0] * len(calls)})["alias"]
        except Unencodable:
            out["tags"].append("unencodable")
            return
        which = "val" if fx.get("snapshot") else "ref"
        out["tags"].append("inplace:A/%s/%s" % (which, "never-kept" if ans.get("never_kept") else "kept-object-passed"))
        for ci, rec in enumerate(recs):
            pcs = learner.predict_calls[rec["np0"]:rec["np1"]]
            if not pcs or ci >= len(ans[which]):
                break
            b_, c_, a_ = pcs[0]          # a batch-style call is made with the whole `_safe_actions`; per-row calls (memo 2) with its rows in order
            got = [[enc(x) for x in row] for row in (a_ if b_ else [p[2] for p in pcs if not p[0]])]
            want = [[strip_value(x) for x in r["actions"]] for r in ans[which][ci]["rows"]]
            if not b_:
                want = want[:len(got)]   # a learner that raises on a stale row ends the per-row calls early
            elif not ans.get("never_kept") and len(got) != len(want):
                # a stale batch keeps its own number of rows; the driver prints an Arg as zip(contexts, rows): compare what it can show
                got, want = got[:min(len(got), len(want))], want[:min(len(got), len(want))]
            if got != want:
                out["fails"].append(F("A", "%s caller refilling ONE list object in place: call %d: the learner was offered %s, the model's cache (%s) offers %s" % (
                    "batched" if batch else "unbatched", ci, json.dumps(got)[:160], "runPrep" if which == "val" else "runPrepRef", json.dumps(want)[:160]),
                    "A:inplace-offered:%s" % which))
                break

    def correspond_two(self, driver, case, learner, recs, fails):
        """(A) for runTwo: the interleaved run of both wrappers on the learner's actual answers"""
        rw = case["rewrap"]
        refs = Refs()
        try:
            calls, recorded = [], []
            for rec in recs:
                refs.ext(rec["ctx"])
                refs.ext(rec["actions"])
                b = bool(rw.get("batch2")) if rec["w"] else bool(case.get("batch"))
                calls.append(refs.arg(b, rec["ctx"], rec["actions"]))
            for rec in recs:
                bw = bool(rw.get("batch2")) if rec["w"] else bool(case.get("batch"))
                k = 0
                for (b, c, a), ans in zip(learner.predict_calls[rec["np0"]:rec["np1"]], learner.answers[rec["np0"]:rec["np1"]]):
                    e = {"arg": refs.arg(b, c, a, received=True, row=k)}
                    if bw and not b:
                        k += 1
                    if isinstance(ans, BaseException):
                        e["exc"] = 1
                    else:
                        e["resp"] = refs.enc(ans)
                    recorded.append(e)
        except Unencodable:
            return
        if refs.nans and not in_quantifier(case)[0]:
            return        # nan tokens are faithful for comparisons only (see correspond)
        ans = driver.ask({"fx": variant(), "seed": 1 if case.get("seed") is None else case["seed"], "seed2": 1 if rw.get("seed2") is None else rw["seed2"],
                          "who": [bool(int(r["w"])) for r in recs], "calls": calls, "recorded": recorded})
        d = outcomes_differ(outcome_impl(recs), outcome_model(ans["two"]))
        if d:
            fails.append(F("A", "two wrappers of one learner, calls interleaved %s: real results differ from the model's runTwo: %s" % (rw["who"], d), "A:rewrap"))

    def evaluate_one(self, case, learner, recs, driver):
        fails, tags = [], []
        fmt, layout, batch = case["fmt"], case["layout"], bool(case.get("batch"))
        name = "%s/%s%s" % (("not" if not batch else layout), fmt, "+kw" if case.get("kw") else "")
        inq, why = in_quantifier(case)
        tags += ["fmt:" + name, "quant:" + ("in" if inq else "out:" + why[:40])]
        if case.get("kw"):
            tags.append("kwmap:%s/%s" % (case.get("kwmap", "dict"), "not" if not batch else layout))
        dclass = defect_class(case)
        tags.append("class:" + dclass)
        impl = outcome_impl(recs)
        if any("err" in o for o in impl):
            tags.append("impl-raises:" + [o["err"] for o in impl if "err" in o][0])
        nrows = sum(len(c) for c in case["calls"])
        tags.append("rows:%d" % min(nrows, 6))
        tags.append("K:%d" % len(case["calls"][0][0]["actions"]))
        if case.get("tie"):
            tags.append("tie:draw%d/%s" % (min(case["tie"][0], 4), "zero" if case["tie"][1] == 0 else "interior"))
        if fmt in ("PM", "dPM") and any(dec(x) == 0 for c in case["calls"] for r in c for x in r["pmf"][:1]):
            tags.append("pmf:leading-zero")
        if batch and (layout == "single" or case.get("learn_batch") is False or case.get("score_batch") is False):
            tags.append("nobatch:" + str(case.get("nobatch", "raise")))
        if batch and len(case["calls"][0]) == len(case["calls"][0][0]["actions"]):
            tags.append("square:n=K")
        if inq:
            for what, detail in monitor(case, learner, recs):
                # in the region of a recorded defect the first call's symptom names the finding; once the first call went wrong
                # (or right by coincidence) the memoised layout/format makes later calls fail in arbitrary ways
                fam = "later" if detail.startswith("later:") else FAMILY.get(detail, detail if detail.startswith("raises-") else "value")
                if dclass == "col-hint-kw-mapping":
                    fam = "read-row-major"        # a two-row first batch is taken for two hinted rows: arbitrary symptoms
                if dclass == "inplace-actions":
                    fam = "stale-or-unsafe"       # the learner is offered an earlier content's float copies / no float copies: arbitrary symptoms
                sig = "%s/%s" % (dclass, fam) if dclass != "general" else "general:%s/%s" % (name, detail.replace("later:", ""))
                fails.append(F("B", what + "  [seed %s]" % case.get("seed"), sig))
            if not fails and case.get("e2e") and e2e_applicable(case):
                tags.append("e2e")
                if case.get("e2e_seed"):
                    tags.append("e2e-seed:%s/%s" % (json.dumps(case["e2e_seed"].get("ev")), case["e2e_seed"].get("exp", "unset")))
                l2, res = run_e2e(case)
                for what, detail in monitor_e2e(case, l2, res):
                    fails.append(F("B", what + "  [seed %s]" % case.get("seed"), "general:%s/%s" % (name, detail)))
                if not fails and case.get("e2e_runs"):
                    # ONE SequentialCB object used for several evaluations while the experiment seed changes: each evaluation draws
                    # from the seed in effect THEN (the evaluator's own if not None, else the experiment seed of that moment)
                    from coba.evaluators import SequentialCB
                    evspec = (case.get("e2e_seed") or {}).get("ev")
                    evobj = SequentialCB(record=["action", "probability", "reward"], learn="on", eval="on", seed=None if evspec is None else dec(evspec))
                    tags.append("e2e-series:%d" % len(case["e2e_runs"]))
                    for k, exp in enumerate(case["e2e_runs"]):
                        es = {"ev": evspec}
                        if exp != E2E_UNSET:
                            es["exp"] = exp
                        sub = dict(case, e2e_seed=es)
                        l3, res3 = run_e2e(sub, evaluator=evobj)
                        for what, detail in monitor_e2e(sub, l3, res3):
                            fails.append(F("B", "evaluation %d of %s on ONE SequentialCB object: %s  [seed %s]" % (
                                k, case["e2e_runs"], what, case.get("seed")), "general:%s/series-%s" % (name, detail)))
                        if fails:
                            break
        # phase 6 (aliasing): the Lean model is purely functional - neither the caller's contexts / action lists nor the answer
        # objects the learner owns (kwargs mapping, PMF list) can be changed by the wrapper; a change is a divergence from the model
        if case.get("reuse_answers"):
            tags.append("reuse-answers:%s/%s" % ("not" if not batch else layout, "pmf" if fmt in ("PM", "dPM") else "kw" if case.get("kw") else "none-owned"))
        for what, snap, now in (learner.mutated() if hasattr(learner, "mutated") else []):
            fails.append(F("A", "%s: the %s object the learner built and handed out was changed by the library: built %s, now %s" % (
                name, what, json.dumps(snap)[:120], json.dumps(now)[:120]), "A:learner-data-mutated:%s/%s" % (name, what)))
            break
        for ci_, rec_ in enumerate(recs):
            d_ = rec_["caller_data"]() if callable(rec_.get("caller_data")) else None
            if d_ is not None:
                fails.append(F("A", "%s: call %d: the caller's contexts / action lists were changed by the library: given %s, now %s" % (
                    name, ci_, json.dumps(d_[0])[:140], json.dumps(d_[1])[:140]), "A:caller-data-mutated:%s" % name))
                break
        model = None
        if driver is not None and mapping_region(case) and not variant().get("mapping"):
            tags.append("A-skipped:mapping-region")     # the model's dict = Mapping mirrors the repaired code only
        elif driver is not None:
            model = self.correspond(driver, case, learner, recs, impl, inq, fails, tags)
        nontrivial = inq and not any("err" in o for o in impl) and len(impl) == len(case["calls"]) and (nrows >= 2 or fmt in ("PM", "dPM"))
        return {"fails": fails, "nontrivial": bool(nontrivial), "tags": tags, "impl": impl, "model": model}

    def correspond(self, driver, case, learner, recs, impl, inq, fails, tags):
        """(A) implementation = Lean model on the learner's actual answers (with CPython's identities); for learners inside the
        quantifier also: Lean's own scripted learner (the one the theorems are about) renders the same answers and gives the same results."""
        refs = Refs()
        from coba.environments import Batch
        calls = []
        try:
            for rec in recs:
                refs.ext(rec["ctx"])
                refs.ext(rec["actions"])
                calls.append(refs.arg(rec["b"], rec["ctx"], rec["actions"]))
            recorded, per_rec = [], []
            for rec in recs:
                k = 0
                per_rec.append([])
                for (b, c, a), ans in zip(learner.predict_calls[rec["np0"]:rec["np1"]], learner.answers[rec["np0"]:rec["np1"]]):
                    e = {"arg": refs.arg(b, c, a, received=True, row=k)}
                    per_rec[-1].append(e)
                    if rec["b"] and not b:
                        k += 1
                    if isinstance(ans, BaseException):
                        e["exc"] = 1
                    else:
                        e["resp"] = refs.enc(ans)
                    recorded.append(e)
        except Unencodable as e:
            tags.append("unencodable")
            return None
        fx = variant()
        tags.append("variant:" + "".join(k[0] + str(int(v)) for k, v in sorted(fx.items())))
        req = {"fx": fx, "seed": 1 if case.get("seed") is None else case["seed"], "calls": calls, "recorded": recorded}
        if refs.nans and not inq:
            # the tokens are faithful for COMPARISONS (nan_encoding_faithful), not for arithmetic: a learner outside the quantifier
            # (copies / malformed answers) can get a nan summed or drawn from as a PMF weight - there the model has nothing to say
            tags.append("nan:A-skipped/out-of-quantifier")
            return None
        if refs.nans:
            tags.append("nan:A/%s%s" % ("shared" if case.get("share_nan") else "fresh", "/calls%d" % min(len(recs), 3)))
        if case.get("answer", "offered") == "offered" and not refs.nans:
            req["spec"] = {"fmt": case["fmt"], "kw": bool(case.get("kw")), "layout": case["layout"], "tup": case.get("wrap", "tuple") == "tuple",
                           "pmfTup": case.get("pmf_type", "list") == "tuple"}
            pol = []
            lref = Refs()
            for call in case["calls"]:
                for row in call:
                    pol.append({"ctx": lref.enc(dec(row["ctx"])), "actions": [lref.enc(dec(a)) for a in row["actions"]], "pick": row["pick"],
                                "p": lref.enc(dec(row["p"])), "pmf": [lref.enc(dec(x)) for x in row["pmf"]],
                                "kw": [[dec(k), lref.enc(dec(v))] for k, v in row["kwargs"]] if case.get("kw") else []})
            req["policy"] = pol
            req["learn_batch"] = bool(case.get("learn_batch", case["layout"] != "single"))
            req["score_batch"] = bool(case.get("score_batch", case["layout"] != "single"))
            if all("rwd" in rec for rec in recs):
                req["rewards"] = [refs.enc(list(rec["rwd"]) if rec["b"] else rec["rwd"]) for rec in recs]
            if all("rwd_try" in rec for rec in recs):
                req["rewards_all"] = [refs.enc(list(rec["rwd_try"]) if rec["b"] else rec["rwd_try"]) for rec in recs]
            srecs = [rec for rec in recs if "score_arg" in rec]
            if srecs:
                req["score_tup"] = case.get("wrap", "tuple") == "tuple"
                req["scores"] = [{"batch": rec["b"],
                                  "rows": [{"ctx": refs.enc(c), "actions": [refs.enc(a) for a in A], "action": refs.enc(x)}
                                           for c, A, x in (zip(rec["ctx"], rec["actions"], rec["score_arg"]) if rec["b"]
                                                           else [(rec["ctx"], rec["actions"], rec["score_arg"])])]} for rec in srecs]
                # has_score / score error paths: what the learner's own score does (the model's input), observed directly
                kind = case.get("score_kind", "normal")
                req["score_absent"] = kind == "absent"
                try:
                    learner.score(None, None, None)
                    req["score_probe"] = {"returns": 1}
                except Exception as ex:
                    req["score_probe"] = {"attr": isinstance(ex, AttributeError), "msg": str(ex)}
                if kind == "base" or isinstance(kind, list):
                    req["score_fail"] = dict(req["score_probe"]) if "msg" in req["score_probe"] else None
        # pred_format directly: on the learner's own one-row answers (as first_row standardises them) with the actions it was
        # given, with [] and with None - real SafeLearner.pred_format vs the model's predFormat (A) vs the source's decision tree (C)
        pf_real = []
        try:
            from coba.safety import SafeLearner as _SL
            req["pf"] = []
            seen_pf = 0
            for (b, c, a), lans in zip(learner.predict_calls, learner.answers):
                if b or isinstance(lans, BaseException) or seen_pf >= 2:
                    continue
                try:
                    std = _SL.first_row(lans, "not", _SL.has_kwargs(lans, "not"))
                except Exception:
                    continue
                seen_pf += 1
                for acts_ in (a, [], None):
                    try:
                        real = {"ok": _SL.pred_format(std, acts_)}
                    except Exception as ex:
                        real = {"err": EXC.get(type(ex).__name__, type(ex).__name__)}
                    item = {"sp": refs.enc(std)}
                    if acts_ is not None:
                        item["actions"] = [refs.enc(x) for x in acts_]
                    req["pf"].append(item)
                    pf_real.append((real, "given" if acts_ is a else ("[]" if acts_ == [] else "None")))
        except Unencodable:
            req.pop("pf", None)
            pf_real = []
        ans = driver.ask(req)
        for (real, how), m in zip(pf_real, ans.get("pf") or []):
            tags.append("pf:%s/%s" % (how, real.get("ok", real.get("err"))))
            mm, tt = m["model"], m["table"]
            if ("ok" in real) != ("ok" in mm) or ("ok" in real and real["ok"] != mm["ok"]) or ("err" in real and mm["err"] != "Other" and real["err"] != mm["err"]):
                fails.append(F("A", "pred_format(%s actions): implementation %s, model %s" % (how, json.dumps(real), json.dumps(mm)), "A:pred_format:" + how))
            elif fx.get("short") and tt != mm:
                fails.append(F("C", "pred_format(%s actions): the decision tree read from the source gives %s, the model %s" % (how, json.dumps(tt), json.dumps(mm)), "C:pf-table"))
        if ans.get("alias_fresh_ok") is False:
            # (C) guard of inplace_fresh_objects_partial: a fresh list object per call - the reference-keeping cache = the value-based one
            fails.append(F("C", "fresh list object per call: runPrepRef differs from runPrep on the calls of this case", "C:alias-fresh"))
        nc = ans.get("nan_check")
        if nc and nc.get("nans"):
            # (C) nan_encoding_faithful on the objects of this case; `side` = its hypothesis (numbers outside the token range,
            # a number object is not a nan object) - true by construction of the encoding
            if not nc.get("side"):
                tags.append("nan:side-condition-false")
            elif not nc.get("ok"):
                fails.append(F("C", "nan tokens: richEq differs from pyIs||pyEq on the objects of the calls", "C:nan"))
        mrec = outcome_model(ans["recorded"])
        d = outcomes_differ(impl, mrec)
        name = "%s/%s%s" % (("not" if not case.get("batch") else case["layout"]), case["fmt"], "+kw" if case.get("kw") else "")
        if d:
            fails.append(F("A", "%s: SafeLearner.predict differs from the model run on the learner's actual answers: %s" % (name, d), "A:result:" + name))
        # (C) run = runSplit (first call decides, then runFrozen d) = runCore (decided wrapper reduced to State.core), on the very
        # definitions run_eq_runSplit / run_eq_runCore are about, for the recorded and the scripted learner
        for which in ("recorded_split", "scripted_split"):
            sc = ans.get(which)
            if sc is not None:
                tags.append("split:%s/%s" % (which[:3], "mixed" if case.get("batches") else "uniform"))
                if not (sc.get("split_ok") and sc.get("core_ok")):
                    fails.append(F("C", "%s: run / runSplit / runCore differ on the %s learner's history (%s)" % (name, which.split("_")[0], json.dumps(sc)[:200]), "C:split"))
        # the calls made to the learner
        real_trace = []
        k = 0
        for rec in recs:
            real_trace.append([trace_by_value(e["arg"]) for e in per_rec[len(real_trace)]])
        mtrace = [[[bool(a["batch"]), [[r["ctx"], r["actions"]] for r in a["rows"]]] for a in t] for t in ans["recorded_trace"]]
        if real_trace[:len(mtrace)] != mtrace[:len(real_trace)] and not d:
            fails.append(F("A", "%s: the calls SafeLearner made to the learner differ from the model: real %s, model %s" % (
                name, json.dumps([[(t[0], len(t[1])) for t in c] for c in real_trace]), json.dumps([[(t[0], len(t[1])) for t in c] for c in mtrace])), "A:trace:" + name))
        if "scripted" in ans and not case.get("weird"):
            rend = ans["rendered"]
            actual = [({"exc": "LearnerError"} if "exc" in e else strip(e["resp"])) for e in recorded]
            if case.get("nobatch", "raise") in NOBATCH_RETURNS:
                # the Lean learner of the theorems raises on a batch; `None` / another exception take the same fallback path
                actual = [({"exc": "LearnerError"} if (e["arg"]["batch"] and case["layout"] == "single") else a) for e, a in zip(recorded, actual)]
            if rend != actual:
                i = [x != y for x, y in zip(rend, actual)].index(True) if len(rend) == len(actual) else -1
                fails.append(F("A", "%s: the Lean scripted learner renders another answer than the Python one (call %d): lean %s, python %s" % (
                    name, i, json.dumps(rend[i])[:200], json.dumps(actual[i])[:200]), "A:render:" + name))
            d2 = outcomes_differ(impl, outcome_model(ans["scripted"]))
            if d2 and not d:
                fails.append(F("A", "%s: SafeLearner.predict differs from the model run on the Lean scripted learner: %s" % (name, d2), "A:scripted:" + name))
            self.compare_history(case, learner, recs, ans, fails, tags, name, bool(d or d2))
            if "hyp" in ans and not case.get("batches"):
                tags.append("hyp:%s/%s" % ("T" if ans["hyp"] else "F", "inq" if inq else "out"))
                self.check_c(case, ans, fails, name, inq)
        return {"recorded": mrec, "layout": [r.get("layout") for r in ans["recorded"]], "fmt": [r.get("fmt") for r in ans["recorded"]]}

    def compare_history(self, case, learner, recs, ans, fails, tags, name, already):
        """(A) for `runHistory` (what learn is given) and `score`; (C) for score_roundtrip"""
        if "history" in ans and not already and case.get("nobatch", "raise") not in NOBATCH_RETURNS and all("nl1" in rec for rec in recs):
            real = []
            for rec in recs:
                lcs = [l for l in learner.learn_calls[rec["nl0"]:rec["nl1"]] if l[0] != "rejected"]
                real.append([{"ctx": enc(list(l[1]) if l[0] else l[1]), "action": enc(l[2]), "reward": enc(list(l[3]) if l[0] else l[3]),
                              "prob": enc(l[4]), "kw": enc(l[5])} for l in lcs])
            def canon_kw(calls):      # **kwargs: the order of the keys means nothing
                return [dict(c, kw={"d": sorted(c["kw"]["d"], key=json.dumps)}) for c in calls]
            real = [canon_kw(c) for c in real]
            h = ans["history"]
            if "ok" in h:
                model = [canon_kw(c) for c in h["ok"]]
                if model != real:
                    i = [x != y for x, y in zip(model, real)].index(True) if len(model) == len(real) and model != real else -1
                    fails.append(F("A", "%s: what learn was given differs from the model's runHistory (interaction %d): real %s, model %s" % (
                        name, i, json.dumps(real[i])[:220], json.dumps(model[i])[:220]), "A:learn:" + name))
            else:
                fails.append(F("A", "%s: the model's runHistory raises %s, the real predict/learn sequence did not" % (name, h["err"]), "A:learn:" + name))
            tags.append("histOK:%s" % ("T" if ans.get("histOK") else "F"))
        if "historyM" in ans and not already and case.get("nobatch", "raise") not in NOBATCH_RETURNS:
            # predict / learn with both call-style memos threaded: also wrappers switched between batched and unbatched calls
            hm = ans["historyM"]
            canon = lambda calls: [dict(c, kw={"d": sorted(c["kw"]["d"], key=json.dumps)}) for c in calls]
            tags.append("historyM:%s" % ("mixed" if case.get("batches") else "uniform"))
            for i, rec in enumerate(recs):
                if i >= len(hm):
                    fails.append(F("A", "%s: the model's runHistoryM stops after %d interactions, the real run made %d" % (name, len(hm), len(recs)), "A:learnM:" + name))
                    break
                m = hm[i]
                if "exc" in rec or "learn_exc" in rec or "nl1" not in rec:
                    if "ok" in m and ("exc" in rec or "learn_exc" in rec):
                        fails.append(F("A", "%s: interaction %d: the real %s raised %s, the model's runHistoryM delivers %s" % (
                            name, i, "predict" if "exc" in rec else "learn", type(rec.get("exc", rec.get("learn_exc"))).__name__, json.dumps(m)[:160]), "A:learnM:" + name))
                    elif "err" in m and "learn_exc" in rec:
                        tags.append("historyM:learn-raises")
                    break
                if "err" in m:
                    fails.append(F("A", "%s: interaction %d: the model's runHistoryM raises %s, the real predict/learn did not" % (name, i, m["err"]), "A:learnM:" + name))
                    break
                lcs = [l for l in learner.learn_calls[rec["nl0"]:rec["nl1"]] if l[0] != "rejected"]
                real = canon([{"ctx": enc(list(l[1]) if l[0] else l[1]), "action": enc(l[2]), "reward": enc(list(l[3]) if l[0] else l[3]),
                               "prob": enc(l[4]), "kw": enc(l[5])} for l in lcs])
                if canon(m["ok"]) != real:
                    fails.append(F("A", "%s: interaction %d: what learn was given differs from the model's runHistoryM: real %s, model %s" % (
                        name, i, json.dumps(real)[:220], json.dumps(canon(m["ok"]))[:220]), "A:learnM:" + name))
                    break
        if "scores" in ans:
            srecs = [rec for rec in recs if "score_arg" in rec]
            for k, (rec, m, w) in enumerate(zip(srecs, ans["scores"], ans["scores_want"])):
                if "score_exc" in rec:
                    en = type(rec["score_exc"]).__name__
                    got = {"err": en if en in ("AttributeError", "CobaException") else "LearnerError"}
                else:
                    got = {"ok": enc(rec["score"])}
                mm = {"ok": m["ok"]} if "ok" in m else {"err": m["err"]}
                if ("err" in got) != ("err" in mm) or ("ok" in got and got["ok"] != mm["ok"]) or ("err" in got and mm["err"] not in ("Other", got["err"])):
                    fails.append(F("A", "%s: SafeLearner.score differs from the model (call %d): real %s, model %s" % (
                        name, k, json.dumps(got)[:200], json.dumps(mm)[:200]), "A:score:" + name))
                    break
                if "ok" in mm and case.get("score_kind", "normal") == "normal":
                    items = [strip_container(mm["ok"])] if not rec["b"] else strip_container(mm["ok"])
                    want = [w] if not rec["b"] else w
                    if items != want:
                        fails.append(F("C", "%s: model score %s is not the per-row scores %s of score_roundtrip" % (name, json.dumps(items)[:150], json.dumps(want)[:150]), "C:score"))
                        break
            tags.append("score")
            if "has_score" in ans:
                tags.append("has_score:%s/%s" % (ans["has_score"], str(case.get("score_kind", "normal"))[:12]))
                if ans["has_score"] != getattr(learner, "has_score_seen", None):
                    fails.append(F("A", "%s: SafeLearner.has_score is %r, the model's hasScore says %r (probe %s)" % (
                        name, getattr(learner, "has_score_seen", None), ans["has_score"], json.dumps(case.get("score_kind", "normal"))), "A:has_score"))

    def check_c(self, case, ans, fails, name, inq):
        """(C) run-time sanity check of format_roundtrip_*: whenever the hypotheses hold for a call, the model delivers the spec"""
        if not ans.get("holds"):
            bad = [d for d in ans.get("spec_detail", []) if d.get("hyp") and not d.get("ok")]
            fails.append(F("C", "%s: model run on the scripted learner does not meet the spec although the theorem's hypotheses hold: %s" % (
                name, json.dumps(bad)[:300]), "C:roundtrip"))

    # ---- shrinking
    def shrink(self, case):
        calls = case["calls"]
        if len(calls) > 1:
            for k in range(len(calls)):
                yield dict(case, calls=calls[:k] + calls[k + 1:])
        for k, call in enumerate(calls):
            if len(call) > 1:
                for i in range(len(call)):
                    yield dict(case, calls=calls[:k] + [call[:i] + call[i + 1:]] + calls[k + 1:])
        # fewer actions (same for all rows)
        K = min(len(r["actions"]) for c in calls for r in c)
        if K > 1:
            for j in range(K):
                nc = []
                for call in calls:
                    nr = []
                    for r in call:
                        A = r["actions"][:j] + r["actions"][j + 1:]
                        pmf = r["pmf"][:j] + r["pmf"][j + 1:]
                        tot = sum(dec(x) for x in pmf)
                        if tot != 1:
                            pmf = [{"i": 1}] + [{"i": 0}] * (len(A) - 1)
                        nr.append(dict(r, actions=A, pmf=pmf, pick=min(r["pick"] - (1 if r["pick"] > j else 0), len(A) - 1)))
                    nc.append(nr)
                yield dict(case, calls=nc)
        for k, call in enumerate(calls):
            for i, r in enumerate(call):
                if r["kwargs"] and len(r["kwargs"]) > 1 and i == 0:
                    yield dict(case, calls=[[dict(rr, kwargs=rr["kwargs"][:1]) for rr in c] for c in calls])
                if r["ctx"] != {"i": i}:
                    yield dict(case, calls=calls[:k] + [call[:i] + [dict(r, ctx={"i": i})] + call[i + 1:]] + calls[k + 1:])
        if case.get("seed") not in (None, 1):
            yield dict(case, seed=1)
        if case.get("rewrap"):
            rw = case["rewrap"]
            for k in range(len(calls)):
                if len(calls) > 1:
                    yield dict(case, calls=calls[:k] + calls[k + 1:], rewrap=dict(rw, who=rw["who"][:k] + rw["who"][k + 1:]))
            return
        if case.get("kwmap") not in (None, "dict"):
            yield dict(case, kwmap="dict")
        if case.get("wrap") == "list":
            yield dict(case, wrap="tuple")
        if case.get("pmf_type") == "tuple":
            yield dict(case, pmf_type="list")

    def snippet(self, case):
        return ("import sys; sys.path[:0]=['/repo','/verif/harness']\nimport json\nfrom props.c15 import replay_plain\n"
                "replay_plain(json.loads(%r))\n" % json.dumps(case))


def replay_plain(case):
    """plain reproduction: the scripted learner (harness/props/c15_learners.py) behind the real SafeLearner"""
    learner, recs = run_case(case)
    want = intended(case)
    for ci, (rec, exp) in enumerate(zip(recs, want)):
        print("call", ci, "context", rec["ctx"], "actions", rec["actions"])
        print("   learner answered:", [repr(a)[:200] for a in learner.answers[rec["np0"]:rec["np1"]]])
        print("   SafeLearner.predict ->", repr(rec.get("out", rec.get("exc")))[:300])
        print("   intended (index of action, prob, kwargs) per row:", exp)
    for what, detail in monitor(case, learner, recs):
        print("PROPERTY VIOLATED:", what)


def corpus_cases():
    cs = []

    def row(acts, pick, i=0, pmf=None, kw=None, ctx=None):
        K = len(acts)
        return {"ctx": ctx if ctx is not None else {"i": i}, "actions": acts, "pick": pick, "p": {"f": [1, 4]},
                "pmf": pmf or [{"i": int(j == pick)} for j in range(K)], "kwargs": kw if kw is not None else [[{"s": "k"}, {"i": 5 + i}]]}
    sets = {
        "int01": [{"i": 0}, {"i": 1}], "int012": [{"i": 0}, {"i": 1}, {"i": 2}], "str": [{"s": "aa"}, {"s": "bb"}, {"s": "cc"}],
        "fltp": [{"f": [1, 4]}, {"f": [3, 4]}], "onehot2": [{"t": [{"i": 1}, {"i": 0}]}, {"t": [{"i": 0}, {"i": 1}]}],
        "onehot1": [{"t": [{"i": 1}]}], "dict2": [{"d": [[{"s": "x"}, {"i": j}], [{"s": "y"}, {"i": 7}]]} for j in (2, 3)],
        "sparse": [{"d": [[{"s": "f%d" % j}, {"i": 1}]]} for j in range(3)], "one": [{"s": "only"}], "bool": [{"b": False}, {"b": True}],
    }
    for fmt in FMTS:
        for kw in (False, True):
            for mode in ("not", "single", "row", "col"):
                for an, acts in sets.items():
                    K = len(acts)
                    for n in ((1,) if mode == "not" else (1, 2, K, 3)):
                        for off in ((0, 1) if fmt == "PM" and K > 1 else (1,)):
                            rows = [row(acts, (i + off) % K, i) for i in range(n)]
                            cs.append({"seed": 1, "fmt": fmt, "kw": kw, "layout": "single" if mode == "not" else mode, "batch": mode != "not",
                                       "e2e": fmt in ("A", "PM", "dAP") and an in ("int01", "str", "sparse"), "calls": [rows, rows[:1]]})
    for flav in DICT_FLAVOURS[1:] + MAPPING_FLAVOURS:
        for fmt in FMTS:
            for mode in ("not", "single", "row", "col"):
                acts = sets["str"]
                for n in ((1,) if mode == "not" else (1, 2, 3)):
                    rows = [row(acts, (i + 1) % 3, i, kw=[[{"s": "step"}, {"i": i}], [{"s": "note"}, {"s": "x"}]]) for i in range(n)]
                    cs.append({"seed": 1, "fmt": fmt, "kw": True, "kwmap": flav, "layout": "single" if mode == "not" else mode, "batch": mode != "not",
                               "e2e": flav in ("proxy", "plain") and fmt in ("A", "AP"), "calls": [rows, rows[:1]]})
    # third round of seeded mutants: prefix strings, per-method batch awareness, PMFs inside the documented tolerance
    compass = [{"s": "NE"}, {"s": "N"}, {"s": "E"}, {"s": "SE"}]
    for fmt in ("A", "AP", "dA"):
        for kw in (False, True):
            for mode in ("not", "single", "row", "col"):
                for n in ((1,) if mode == "not" else (1, 2, 3)):
                    rows = [row(compass, (3 * i) % 4, i, kw=[[{"s": "k"}, {"i": i}]] if kw else []) for i in range(n)]
                    cs.append({"seed": 1, "fmt": fmt, "kw": kw, "layout": "single" if mode == "not" else mode, "batch": mode != "not",
                               "calls": [rows, rows[:1]]})
    for fmt in ("A", "AP", "PM", "dAP"):
        for mode in ("single", "row", "col"):
            for lb in (False, True):
                for sb in (False, True):
                    for n in (1, 2, 3):
                        rows = [row(sets["str"], (i + 1) % 3, i) for i in range(n)]
                        cs.append({"seed": 1, "fmt": fmt, "kw": True, "layout": mode, "batch": True, "learn_batch": lb, "score_batch": sb,
                                   "calls": [rows, rows[:2]]})
    for d in (1, -1, 33, -40, 65, -65):
        for kw in (False, True):
            for mode in ("not", "single", "row", "col"):
                for n in ((1,) if mode == "not" else (1, 2, 3)):
                    rows = [row(sets["str"], i % 3, i, pmf=[{"f": [21845 + (d if j == i % 3 else 0), 65536]} if j else {"f": [21846, 65536]} for j in range(3)])
                            for i in range(n)]
                    cs.append({"seed": 3, "fmt": "PM", "kw": kw, "layout": "single" if mode == "not" else mode, "batch": mode != "not",
                               "calls": [rows, rows[:1]]})
    # re-wrapped SafeLearners: a learner that cannot batch seen unbatched through one wrapper and batched through the other
    # (both orders), and PMF draws from two seeds interleaved
    for fmt in ("A", "AP", "PM", "dPM"):
        for layout in ("single", "row", "col"):
            for b0, b2 in ((False, True), (True, False), (True, True), (False, False)):
                for who in ([0, 1], [1, 0], [0, 1, 0, 1], [1, 1, 0, 0]):
                    calls = []
                    for ci, w in enumerate(who):
                        n = 2 if (b2 if w else b0) else 1
                        calls.append([row(sets["str"], (ci + i) % 3, 10 * ci + i, pmf=[{"f": [1, 4]}, {"f": [1, 2]}, {"f": [1, 4]}]) for i in range(n)])
                    cs.append({"seed": 5, "fmt": fmt, "kw": True, "layout": layout, "batch": b0, "calls": calls,
                               "rewrap": {"who": who, "batch2": b2, "seed2": 9}})
    # evaluator seed vs experiment seed (PMF draws through SequentialCB): every combination pinned
    pm3 = [{"f": [1, 4]}, {"f": [1, 2]}, {"f": [1, 4]}]
    for fmt in ("PM", "dPM"):
        for mode in ("not", "single", "row", "col"):
            for ev in ({"i": 0}, {"f": [0, 1]}, {"b": False}, {"i": 1}, None):
                for exp in ("unset", 0, 5):
                    n = 1 if mode == "not" else 2
                    calls = [[row(sets["str"], (ci + i) % 3, 10 * ci + i, pmf=pm3) for i in range(n)] for ci in range(4)]
                    es = {"ev": ev}
                    if exp != "unset":
                        es["exp"] = exp
                    cs.append({"seed": 0 if ev is None else int(dec(ev)), "fmt": fmt, "kw": False, "layout": "single" if mode == "not" else mode,
                               "batch": mode != "not", "e2e": True, "e2e_seed": es, "calls": calls})
    # one SequentialCB object evaluated repeatedly while the experiment seed changes (None -> 5 -> 0 -> 7)
    for fmt in ("PM", "dPM"):
        for mode in ("not", "row", "single"):
            for ev, runs in ((None, ["unset", 5, 0, 7]), (None, [5, 5, 0]), (None, [0, 7]), ({"i": 0}, [5, 7]), ({"i": 3}, ["unset", 0])):
                n = 1 if mode == "not" else 2
                calls = [[row(sets["str"], (ci + i) % 3, 10 * ci + i, pmf=pm3) for i in range(n)] for ci in range(4)]
                cs.append({"seed": 0, "fmt": fmt, "kw": False, "layout": "single" if mode == "not" else mode, "batch": mode != "not",
                           "e2e": True, "e2e_seed": {"ev": ev, "exp": 5}, "e2e_runs": runs, "calls": calls})
    # fresh action lists dropped after every call, contents changing, 0/1 among them
    rounds = [[0, 1, 2, 3], [1, 3], [7, 8, 1], [0, 9], [1, 5, 6, 0, 2], [4, 1]]
    for fmt in ("A", "AP", "PM", "dA"):
        for mode in ("not", "row", "single", "col"):
            for reps in (1, 2):
                calls, k = [], 0
                for rd in rounds:
                    for _ in range(reps):
                        acts = [{"i": v} for v in rd]
                        n = 1 if mode == "not" else 2
                        calls.append([row(acts, (k + i) % len(acts), 400 + 10 * k + i, pmf=[{"i": int(j == (k + i) % len(acts))} for j in range(len(acts))])
                                      for i in range(n)])
                        k += 1
                cs.append({"seed": 2, "fmt": fmt, "kw": True, "layout": "single" if mode == "not" else mode, "batch": mode != "not",
                           "drop": True, "calls": calls})
    # phase 6 (aliasing 1): the caller owns ONE action list object and refills it in place before every call.  Rounds without 0/1
    # (the caller's list is passed through: always the current content), rounds with 0/1 that never change, and rounds with 0/1
    # that change (region of C15-F6: `_prev_actions` is a reference to the caller's list)
    in_rounds = {"none01": [[2, 3, 4], [5, 6], [7, 8, 9, 2], [3, 2]], "same": [[0, 1, 2]] * 4,
                 "change01": [[0, 1, 2, 3], [1, 3], [7, 8, 1], [0, 9]], "late01": [[2, 3], [4, 5, 6], [0, 1], [1, 0, 2]]}
    for nm, rds in sorted(in_rounds.items()):
        for fmt in ("A", "AP", "PM", "dA", "dPM"):
            for mode in ("not", "row", "single", "col"):
                for rows_too in ((False,) if mode == "not" else (False, True)):
                    calls = []
                    for k, rd in enumerate(rds):
                        acts = [{"i": v} for v in rd]
                        n = 1 if mode == "not" else 2
                        calls.append([row(acts, (k + i) % len(acts), 600 + 10 * k + i, pmf=[{"i": int(j == (k + i) % len(acts))} for j in range(len(acts))])
                                      for i in range(n)])
                    c = {"seed": 2, "fmt": fmt, "kw": fmt in ("A", "PM"), "layout": "single" if mode == "not" else mode, "batch": mode != "not",
                         "drop": "inplace", "calls": calls}
                    if rows_too:
                        c["inplace_rows"] = True
                    cs.append(c)
    # phase 6 (aliasing 2): the learner owns its kwargs mapping / PMF list per row and returns the SAME objects when the row comes
    # again: histories a b a a b (the third and fourth call get the objects of the first)
    for fmt in FMTS:
        for mode in ("not", "single", "row", "col"):
            for kwmap in ("dict", "ordered", "subclass"):
                n = 1 if mode == "not" else 2
                ca = [row(sets["str"], (i + 1) % 3, i, pmf=[{"f": [1, 4]}, {"f": [1, 4]}, {"f": [1, 2]}],
                          kw=[[{"s": "k"}, {"i": 5 + i}], [{"s": "note"}, {"l": [{"i": 1}, {"s": "x"}]}]]) for i in range(n)]
                cb = [row(sets["int012"], i % 3, 50 + i, pmf=[{"f": [1, 2]}, {"f": [0, 1]}, {"f": [1, 2]}],
                          kw=[[{"s": "k"}, {"i": 9 + i}], [{"s": "note"}, {"d": [[{"s": "q"}, {"i": 1}]]}]]) for i in range(n)]
                cs.append({"seed": 4, "fmt": fmt, "kw": True, "kwmap": kwmap, "layout": "single" if mode == "not" else mode, "batch": mode != "not",
                           "reuse_answers": True, "e2e": kwmap == "dict" and fmt in ("AP", "PM"), "calls": [ca, cb, ca, ca, cb]})
    # phase 3: score kinds (has_score / score error paths), one wrapper switched between batched and unbatched calls, nan actions
    kinds = ["absent", "base", ["raises", "AttributeError", "'Model' object has no attribute 'score'"],
             ["raises", "AttributeError", "'NoneType' object has no attribute 'score_table'"], ["raises", "KeyError", "score_cache"],
             ["raises", "TypeError", "unsupported operand type(s)"],
             # has_score's probe is a substring test: "underscore" contains "score" (implemented score reported absent), "Scoreboard" does not
             ["raises", "ValueError", "bad underscore in name"], ["raises", "TypeError", "Scoreboard is missing"], ["raises", "KeyError", "scores"]]
    for sk in kinds:
        for mode in ("not", "single", "row"):
            rows = [row(sets["str"], (i + 1) % 3, i) for i in range(1 if mode == "not" else 2)]
            cs.append({"seed": 1, "fmt": "AP", "kw": True, "layout": "single" if mode == "not" else mode, "batch": mode != "not",
                       "score_kind": sk, "calls": [rows, rows[:1]]})
    for fmt in ("A", "AP", "dA", "dAP"):
        for layout in ("single", "row", "col"):
            for first in (False, True):
                calls = [[row(sets["str"], (ci + i) % 3, 100 + 10 * ci + i, ctx={"i": 100 + 10 * ci + i}) for i in range(2 if ((ci % 2 == 0) == first) else 1)]
                         for ci in range(3)]
                cs.append({"seed": 1, "fmt": fmt, "kw": False, "layout": layout, "batch": True, "nobatch": "raise",
                           "batches": [(ci % 2 == 0) == first for ci in range(3)], "calls": calls})
                for lb, sb in ((False, True), (True, False), (False, False)):
                    cs.append({"seed": 1, "fmt": fmt, "kw": False, "layout": layout, "batch": True, "nobatch": "raise", "learn_batch": lb, "score_batch": sb,
                               "batches": [(ci % 2 == 0) == first for ci in range(3)], "calls": calls})
    nan_acts = [{"nan": 0}, {"f": [5, 2]}, {"nan": 0}]
    for fmt in ("A", "AP", "PM"):
        for mode in ("not", "row"):
            rows = [row(nan_acts, (i + 2) % 3, i) for i in range(1 if mode == "not" else 2)]
            cs.append({"seed": 1, "fmt": fmt, "kw": False, "layout": "single" if mode == "not" else mode, "batch": mode != "not",
                       "calls": [rows, rows, rows[:1]]})
    # phase 5: nan objects in the model.  ONE shared nan object (`math.nan`: the cache `_prev_actions != actions` hits through the
    # identity shortcut of list.__eq__) vs a fresh nan object per call (the cache misses, float copies are rebuilt); with and
    # without 0/1 beside the nan; nan inside a tuple action; the nan itself named
    nan_sets = [[{"nan": 0}, {"f": [5, 2]}, {"nan": 0}], [{"i": 0}, {"nan": 0}, {"i": 1}], [{"nan": 0}, {"b": True}],
                [{"t": [{"nan": 0}, {"i": 1}, {"i": 2}]}, {"t": [{"i": 1}, {"nan": 0}, {"i": 3}]}, {"nan": 0}]]      # (3-tuples: a 2-tuple starting with an offered object is the documented two-readings case)
    for acts in nan_sets:
        for fmt in ("A", "AP", "PM", "dA", "dAP"):
            for mode in ("not", "single", "row", "col"):
                for shared in (True, False):
                    n = 1 if mode == "not" else 2
                    calls = [[row(acts, (ci + i) % len(acts), 10 * ci + i, kw=[[{"s": "k"}, {"i": i}]]) for i in range(n)] for ci in range(3)]
                    calls.append([row(acts[:2], i % 2, 90 + i, kw=[[{"s": "k"}, {"i": i}]]) for i in range(n)])
                    c = {"seed": 3, "fmt": fmt, "kw": fmt in ("AP", "dA"), "layout": "single" if mode == "not" else mode, "batch": mode != "not",
                         "calls": calls}
                    if shared:
                        c["share_nan"] = True
                    cs.append(c)
    # round f: kwargs keys named like the parameters of the functions on the delivery path (`_safe_call(key, method, args,
    # kwargs, has_out)` ...): learn must receive them unchanged, one at a time and all together, single and batched
    names = path_names()
    groups = [[nm] for nm in names] + [names[:5], ["k"] + names[:2]]
    for keys in groups:
        for fmt in ("A", "AP", "PM", "dA"):
            for mode in ("not", "single", "row", "col"):
                for lb in ((None,) if mode == "not" else (None, False, True)):
                    n = 1 if mode == "not" else 2
                    rows = [row(sets["str"], (i + 1) % 3, i, kw=[[{"s": nm}, {"i": 5 + i + 10 * j}] for j, nm in enumerate(keys)]) for i in range(n)]
                    c = {"seed": 1, "fmt": fmt, "kw": True, "layout": "single" if mode == "not" else mode, "batch": mode != "not",
                         "e2e": fmt in ("A", "PM") and lb is None, "calls": [rows, rows[:1]]}
                    if lb is not None:
                        c["learn_batch"] = lb
                    cs.append(c)
    # round g (1): PMF draws that land exactly on a boundary of the cumulative PMF - uniform draw 0.0 with leading zero-probability
    # actions, 1/2 on [.5,.5,0], 1/4 on [.25,0,.25,.5] (interior zero), 3/4 - as the 1st, 2nd or 3rd draw of the wrapper's generator
    H, Q, Z = {"f": [1, 2]}, {"f": [1, 4]}, {"f": [0, 1]}
    s4 = sets["str"] + [{"s": "dd"}]
    ties = [(sets["str"], [Z, H, H], -1), (sets["str"], [Z, Z, {"f": [1, 1]}], -1), (sets["str"], [H, H, Z], 0), (s4, [Q, Z, Q, H], 0),
            (s4, [Q, Z, Q, H], 2), (sets["int012"], [{"i": 0}, {"i": 1}, {"i": 0}], 0), (sets["fltp"], [H, H], 0)]
    for fmt in ("PM", "dPM"):
        for mode in ("not", "single", "row", "col"):
            for k in (1, 2, 3):
                for ti, (acts, pmf, t) in enumerate(ties):
                    n = 1 if mode == "not" else 2
                    calls = [[row(acts, 0, 10 * ci + i, pmf=pmf) for i in range(n)] for ci in range(3 if n == 1 else 2)]
                    c = tie_case({"seed": 1, "fmt": fmt, "kw": ti % 2 == 1, "layout": "single" if mode == "not" else mode, "batch": mode != "not",
                                  "e2e": ti in (0, 3, 4), "calls": calls}, None, k, t)
                    if c is not None:
                        cs.append(c)
    # round g (2): learners that cannot handle batches and say so with the exception their first operation on a batched value
    # raises (int()/float() "argument must be ...", "argument of type ... is not iterable", unhashable, AttributeError, ...), for
    # predict, learn and score, batches of 1, 2 and K rows: always one call per row with the same effect
    for flav in sorted(REFUSALS):
        for fmt, kw in (("A", True), ("AP", False), ("dAP", True), ("dPM", True)):
            for n in (1, 2, 3):
                rows = [row(sets["str"], (i + 1) % 3, i) for i in range(n)]
                cs.append({"seed": 1, "fmt": fmt, "kw": kw, "layout": "single", "batch": True, "nobatch": flav,
                           "e2e": fmt in ("A", "dPM") and n != 2, "calls": [rows, rows[:2]]})
        for layout in ("row", "col"):
            rows = [row(sets["str"], (i + 1) % 3, i) for i in range(2)]
            cs.append({"seed": 1, "fmt": "AP", "kw": True, "layout": layout, "batch": True, "nobatch": flav, "learn_batch": False,
                       "score_batch": False, "e2e": layout == "row", "calls": [rows, rows[:1]]})
    seen, out = set(), []
    for c in cs:
        k = json.dumps(c, sort_keys=True)
        if k not in seen:
            seen.add(k)
            out.append(c)
    return out


PROPERTY = C15()
