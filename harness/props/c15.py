"""C15 Every supported prediction format is understood the same way."""
import json
import os
import sys

from core.engine import Property, F
from props.c15_learners import Scripted, dec, enc, freeze, HINT

LCG_A, LCG_C, LCG_M = 116646453, 9, 2 ** 30


# ----------------------------------------------------------------------------------------------
# reference semantics (what the property demands), independent of coba
# ----------------------------------------------------------------------------------------------
class RefRng:
    """coba's uniform stream (C05): s' = (a*s+c) mod m, u = s'/m; choicew = first index whose cumulative weight exceeds u*total"""

    def __init__(self, seed):
        self.s = int(seed) % LCG_M

    def choicew(self, n, weights):
        self.s = (LCG_A * self.s + LCG_C) % LCG_M
        r = (self.s / LCG_M) * sum(weights)
        acc = 0
        for i, w in enumerate(weights):
            acc = acc + w
            if r < acc:
                return i
        return None


def intended(case):
    """per call, per row: (index of the action, stated probability or None, kwargs dict); PMF draws from the seed"""
    rng = RefRng(1 if case.get("seed") is None else case["seed"])
    out = []
    for call in case["calls"]:
        rows = []
        for row in call:
            kw = {dec(k): dec(v) for k, v in row["kwargs"]} if case.get("kw") else {}
            if case["fmt"] in ("PM", "dPM"):
                pmf = [dec(x) for x in row["pmf"]]
                i = rng.choicew(len(row["actions"]), pmf)
                rows.append((i, None if i is None else pmf[i], kw))
            elif case["fmt"] in ("AP", "dAP"):
                rows.append((row["pick"], dec(row["p"]), kw))
            else:
                rows.append((row["pick"], None, kw))
        out.append(rows)
    return out


# ----------------------------------------------------------------------------------------------
# running the real code
# ----------------------------------------------------------------------------------------------
def run_case(case, keep=None):
    """Drive the real SafeLearner exactly as SequentialCB does: predict, then learn with what predict returned.
    Returns a list of per-call records holding live objects."""
    from coba.safety import SafeLearner
    from coba.context import CobaContext, NullLogger
    from coba.environments import Batch
    old = CobaContext._logger
    CobaContext.logger = NullLogger()
    try:
        learner = Scripted(case)
        safe = SafeLearner(learner) if case.get("seed") is None else SafeLearner(learner, case["seed"])
        recs = []
        for ci, call in enumerate(case["calls"]):
            ctxs = [dec(r["ctx"]) for r in call]
            acts = [[dec(a) for a in r["actions"]] if r["actions"] is not None else None for r in call]
            if case.get("batch"):
                ctx, act = Batch.List(ctxs), Batch.List(acts)
                rwd = Batch.List([0.25 * (i + 1) for i in range(len(call))])
            else:
                ctx, act, rwd = ctxs[0], acts[0], 0.25
            rec = {"ctx": ctx, "actions": act, "np0": len(learner.predict_calls), "nl0": len(learner.learn_calls)}
            recs.append(rec)
            try:
                out = safe.predict(ctx, act)
            except Exception as e:
                rec["exc"] = e
                rec["np1"] = len(learner.predict_calls)
                break
            rec["np1"] = len(learner.predict_calls)
            rec["out"] = out
            if not (isinstance(out, tuple) and len(out) == 3 and isinstance(out[2], dict) and all(isinstance(k, str) for k in out[2])):
                break
            try:
                safe.learn(ctx, out[0], rwd, out[1], **out[2])
            except Exception as e:
                rec["learn_exc"] = e
                rec["nl1"] = len(learner.learn_calls)
                break
            rec["nl1"] = len(learner.learn_calls)
            rec["rwd"] = rwd
        return learner, recs
    finally:
        CobaContext._logger = old


def same(x, y):
    """value equality that does not confuse containers of different type (tuple vs list) nor bool/None with numbers' absence"""
    return freeze(x) == freeze(y) and (x is None) == (y is None)


def short(o):
    return json.dumps(enc(o), separators=(",", ":"))[:160]


def action_class(case):
    """coarse class of the offered actions (for tags / narrow signatures)"""
    ks = set()
    for call in case["calls"]:
        for row in call:
            for a in row["actions"]:
                (k, x), = a.items()
                if k == "i":
                    ks.add("int01" if x in (0, 1) else "int")
                elif k == "f":
                    ks.add("flt01" if x[0] in (0, x[1]) else ("fltp" if 0 < x[0] < x[1] else "flt"))
                elif k == "b":
                    ks.add("bool")
                elif k in ("t", "l", "d"):
                    ks.add({"t": "tup", "l": "lst", "d": "dict"}[k] + (str(len(x)) if len(x) < 3 else "3+"))
                else:
                    ks.add({"s": "str", "n": "none"}[k])
    return ks


def monitor(case, learner, recs):
    """(B) the property itself on what the real code returned.  Returns list of (what, sigdetail)."""
    fails = []
    want = intended(case)
    fmt, layout, batch = case["fmt"], case["layout"], bool(case.get("batch"))
    name = "%s/%s%s" % (("not" if not batch else layout), fmt, "+kw" if case.get("kw") else "")

    def bad(what, detail):
        fails.append(("%s: %s" % (name, what), "%s/%s" % (name, detail)))

    for ci, (rec, call, exp) in enumerate(zip(recs, case["calls"], want)):
        n = len(call)
        where = "call %d (%d row%s, %d action%s)" % (ci, n, "s" * (n != 1), len(call[0]["actions"]), "s" * (len(call[0]["actions"]) != 1))
        if "exc" in rec:
            bad("%s: predict raised %s: %s" % (where, type(rec["exc"]).__name__, str(rec["exc"])[:120]), "predict-raises-" + type(rec["exc"]).__name__)
            break
        out = rec["out"]
        if not (isinstance(out, tuple) and len(out) == 3):
            bad("%s: predict returned %s, not (action, prob, kwargs)" % (where, short(out)), "not-a-triple")
            break
        A, P, KW = out
        acts = rec["actions"] if batch else [rec["actions"]]
        if batch:
            if not (isinstance(A, (list, tuple)) and len(A) == n):
                bad("%s: actions returned %s, expected one action per row" % (where, short(A)), "action-shape")
                break
            if not (isinstance(P, (list, tuple)) and len(P) == n):
                bad("%s: probabilities returned %s, expected one per row" % (where, short(P)), "prob-shape")
                break
        else:
            A, P = [A], [P]
        stop = False
        for i in range(n):
            idx, p, _ = exp[i]
            if idx is None:
                continue
            wa = acts[i][idx]
            if not same(A[i], wa):
                offered = any(same(A[i], a) for a in acts[i])
                kind = "pmf-draw" if fmt in ("PM", "dPM") else "action"
                bad("%s row %d: action %s returned, the learner %s %s (offered %s)" % (
                    where, i, short(A[i]), "named" if kind == "action" else "PMF+seed draw is", short(wa), short(acts[i])),
                    "%s-%s" % (kind, "other-offered" if offered else "not-offered"))
                stop = True
                break
            if not same(P[i], p) or (p is not None and isinstance(P[i], bool)):
                bad("%s row %d: probability %s returned, the learner stated %s" % (where, i, short(P[i]), short(p)),
                    "prob-" + ("missing" if P[i] is None else "unstated" if p is None else "wrong"))
                stop = True
                break
        if stop:
            break
        if batch:
            keys = list(exp[0][2])
            wkw = {k: [e[2][k] for e in exp] for k in keys}
        else:
            wkw = exp[0][2]
        if not (isinstance(KW, dict) and same({k: (list(v) if batch and isinstance(v, (list, tuple)) else v) for k, v in KW.items()}, wkw)):
            bad("%s: kwargs %s returned, the learner gave %s" % (where, short(KW), short(wkw)), "kwargs-wrong")
            break
        # per-row invocation of a learner that cannot handle batches: once per row, in order
        pcs = learner.predict_calls[rec["np0"]:rec["np1"]]
        if batch and layout == "single":
            single = [(c, a) for b, c, a in pcs if not b]
            if len(single) != n or any(not same(c, dec(r["ctx"])) or not same(list(a), [dec(x) for x in r["actions"]]) for (c, a), r in zip(single, call)):
                bad("%s: a learner that cannot handle batches was called per row %d times for %d rows (or with other rows)" % (where, len(single), n), "per-row-calls")
                break
        # learn receives the kwargs unchanged
        if "learn_exc" in rec:
            bad("%s: learn raised %s: %s" % (where, type(rec["learn_exc"]).__name__, str(rec["learn_exc"])[:120]), "learn-raises-" + type(rec["learn_exc"]).__name__)
            break
        lcs = [l for l in learner.learn_calls[rec["nl0"]:rec["nl1"]] if l[0] != "rejected"]
        if batch and layout == "single":
            ok = len(lcs) == n and all((not l[0]) and same(l[1], dec(r["ctx"])) and same(l[2], acts[i][e[0]]) and same(l[4], e[1]) and same(l[5], e[2])
                                       and same(l[3], rec["rwd"][i]) for i, (l, r, e) in enumerate(zip(lcs, call, exp)))
        else:
            ok = len(lcs) == 1 and same(lcs[0][5], wkw if not batch else {k: v for k, v in wkw.items()}) if not batch else (
                len(lcs) == 1 and isinstance(lcs[0][5], dict) and same({k: list(v) if isinstance(v, (list, tuple)) else v for k, v in lcs[0][5].items()}, wkw)
                and len(lcs[0][2]) == n and all(same(x, acts[i][e[0]]) for i, (x, e) in enumerate(zip(lcs[0][2], exp))))
        if not ok:
            bad("%s: learn received %s, expected the kwargs %s (and the predicted action/probability) per %s" % (
                where, short([l[1:] for l in lcs]), short(wkw), "row" if layout == "single" and batch else "call"), "learn-args-wrong")
            break
    return fails


class C15(Property):
    id = "C15"
    prop_modules = ["CobaVerif.Props.C15"]
    quick_n, thorough_n, search_n = 1500, 40000, 3000
    case_timeout = 60
    workers = 8
    rule = "TODO"

    def corpus(self):
        return []

    def generate(self, rng, tier):
        raise NotImplementedError

    def evaluate(self, case, driver):
        fails, tags = [], []
        learner, recs = run_case(case)
        if case.get("answer", "offered") == "offered":
            cls = "+".join(sorted(action_class(case)))
            for what, sig in monitor(case, learner, recs):
                fails.append(F("B", what, sig))
        return {"fails": fails, "nontrivial": True, "tags": tags}

    def snippet(self, case):
        return ("import sys; sys.path[:0]=['/repo','/verif/harness']\nfrom props.c15 import replay_plain\nimport json\n"
                "replay_plain(json.loads(%r))\n" % json.dumps(case))


PROPERTY = C15()
