"""C20 Feature interaction encoding equals the mathematical polynomial expansion.

Case format (JSON):
  {"terms": [ "xxa" | {"n":[num,den], "f":bool} ... ],          interactions, in order
   "ns":    [ [name, val] ... ] }                                 keyword arguments of encode, in order
  val  = {"k":"none"} | {"k":"scalar","v":item} | {"k":"dense","v":[item..],"wrap":list|tuple|lazy|hashable}
       | {"k":"sparse","v":[[key,item]..],"wrap":dict|lazy|hashable}
  item = {"n":[num,den],"f":bool} | {"s":str}      key = {"s":str} | {"i":int} | {"b":bool} | {"fl":[num,den]}
  phase 6: "own": {"terms": edit, "at": k, "result": "scribble"|"keep"} - ownership history (see run_history)
A namespace named by a term but missing from "ns" is absent from the call.
"""
import itertools
import json
import math
import os
from collections import OrderedDict
from collections.abc import Mapping
from fractions import Fraction
from itertools import accumulate

from core.engine import Property, F

PRIMES = [2, 3, 5, 7, 11, 13, 17, 19, 23, 29, 31, 37, 41, 43, 47, 53, 59, 61, 67, 71]
SIG_POWS = "pows-starts-recurrence"          # C20-F1
SIG_ZIP = "crosspows-zip-misaligned"         # C20-F2
SIG_ABSENT = "raises-KeyError:absent-namespace"   # C20-F3
SIG_NAMES = "sparse-names-collide:monomials"      # C20-F4
SIG_FEATS = "sparse-names-collide:features"       # C20-F5
FL53_TIE = True       # the driver op "fl53" (rounding model) exists


# ------------------------------------------------------------------ building the real call
def num(it):
    a, b = it["n"]
    if it.get("b"):
        return bool(a)      # phase 6: True / False as a numeric entry of the term list (bool is a Number)
    if it.get("q"):
        return Fraction(a, b)
    if it.get("f") or b != 1:
        return a / b
    return a


class S(str):
    """a trivial str subclass (string values may be any str, e.g. coba's Categorical)"""
    def __repr__(self):
        return "S(%s)" % str.__repr__(self)


def build_item(it):
    if "s" in it:
        sc = it.get("sc")
        if sc == "cat":
            from coba.primitives import Categorical
            return Categorical(it["s"], [it["s"], it["s"] + "~"])
        if sc == "sub":
            return S(it["s"])
        return it["s"]
    return num(it)


def build_key(k):
    """key = {"s":str} | {"i":int} | phase 6: {"b":bool} | {"fl":[num,den]} (a float key such as 1.0 or 2.5)"""
    if "b" in k:
        return bool(k["b"])
    if "fl" in k:
        return k["fl"][0] / k["fl"][1]
    return k["s"] if "s" in k else k["i"]


def special_keys(v):
    return v["k"] == "sparse" and any(("b" in kk or "fl" in kk) for kk, _ in v["v"])


def collapse_pairs(v):
    """the (key, item) pairs of the dict the caller really passes: Python's dict treats 1, True and 1.0 as ONE key (first
    key object kept, last value kept)"""
    d = {}
    for kk, it in v["v"]:
        d[build_key(kk)] = it
    return list(d.items())


class CMap(Mapping):
    """a Mapping that is not a dict"""
    def __init__(self, d):
        self._d = dict(d)

    def __getitem__(self, k):
        return self._d[k]

    def __iter__(self):
        return iter(self._d)

    def __len__(self):
        return len(self._d)

    def __repr__(self):
        return "CMap(%r)" % self._d


DENSE_WRAPS = ["list", "tuple", "lazy", "hashable", "head", "encode", "keep"]
SPARSE_WRAPS = ["dict", "lazy", "hashable", "proxy", "userdict", "chainmap", "ordered", "custom", "encode", "drop"]


def build_val(v):
    k = v["k"]
    if k == "none":
        return None
    if k == "scalar":
        return build_item(v["v"])
    if k == "dense":
        items = [build_item(i) for i in v["v"]]
        w = v.get("wrap", "list")
        if w == "tuple":
            return tuple(items)
        if w == "lazy":
            from coba.pipes.rows import LazyDense
            return LazyDense(items)
        if w == "hashable":
            from coba.primitives import HashableDense
            return HashableDense(items)
        if w == "head":
            from coba.pipes.rows import HeadDense
            return HeadDense(items, {"h%d" % i: i for i in range(len(items))})
        if w == "encode":
            from coba.pipes.rows import EncodeDense
            return EncodeDense(items, [_ident] * len(items))
        if w == "keep":      # a row view that hides a trailing column
            from coba.pipes.rows import KeepDense
            return KeepDense(items + ["hidden"], {i: i for i in range(len(items))}, [True] * len(items) + [False], len(items), None)
        return items
    if k == "sparse":
        d = {build_key(kk): build_item(i) for kk, i in v["v"]}
        w = v.get("wrap", "dict")
        if w == "lazy":
            from coba.pipes.rows import LazySparse
            return LazySparse(d)
        if w == "hashable":
            from coba.primitives import HashableSparse
            return HashableSparse(d)
        if w == "proxy":
            import types
            return types.MappingProxyType(d)
        if w == "userdict":
            import collections
            return collections.UserDict(d)
        if w == "chainmap":
            import collections
            return collections.ChainMap(d)
        if w == "ordered":
            import collections
            return collections.OrderedDict(d)
        if w == "custom":
            return CMap(d)
        if w == "encode":
            from coba.pipes.rows import EncodeSparse
            return EncodeSparse(d, {}, set())
        if w == "drop":
            from coba.pipes.rows import DropSparse
            return DropSparse(d, set())
        return d
    raise ValueError(k)


def build_val_obj(v, pool):
    """like build_val, but a value carrying "obj": k re-uses the list/dict OBJECT of slot k, changed in place"""
    slot = v.get("obj")
    plain = (v["k"] == "dense" and v.get("wrap", "list") == "list") or (v["k"] == "sparse" and v.get("wrap", "dict") == "dict")
    if slot is None or not plain:
        return build_val(v)
    new = build_val(v)
    old = pool.get(slot)
    spec = json.dumps({k: x for k, x in v.items() if k != "obj"}, sort_keys=True)
    if old is not None and type(old) is type(new) and pool.get(("spec", slot)) == spec:
        return old      # phase 6: the caller re-passes the SAME object without touching it (whatever the library did to it stays)
    pool[("spec", slot)] = spec
    if old is not None and type(old) is type(new):
        if isinstance(old, list):
            old[:] = new
        else:
            old.clear()
            old.update(new)
        return old
    pool[slot] = new
    return new


class capped_memory:
    """a broken encoder may multiply strings by large numbers: while the real code runs, cap the address space of the
    worker so that this is a MemoryError (reported like any exception) and not an OOM kill; restored afterwards so
    that a driver respawned later is not affected"""
    CAP = 1024 ** 3

    def __enter__(self):
        self.old = None
        try:
            import resource
            soft, hard = resource.getrlimit(resource.RLIMIT_AS)
            if (soft == resource.RLIM_INFINITY or soft > self.CAP) and (hard == resource.RLIM_INFINITY or hard >= self.CAP):
                resource.setrlimit(resource.RLIMIT_AS, (self.CAP, hard))
                self.old = (soft, hard)
        except Exception:
            self.old = None
        return self

    def __exit__(self, *a):
        if self.old is not None:
            try:
                import resource
                resource.setrlimit(resource.RLIMIT_AS, self.old)
            except Exception:
                pass
        return False


def calls_of(case):
    return [case["ns"]] + list(case.get("hist", []))


def single(case, i):
    """call #i of the history as a case of its own"""
    return {"terms": case["terms"], "ns": [[n, {k: x for k, x in v.items() if k != "obj"}] for n, v in calls_of(case)[i]]}


OWN_TERM_EDITS = ["append", "clear", "reverse", "pop", "number", "extend-self"]
SCRIBBLE = 99991


def own_edit_terms(terms, how):
    """the caller changes, in place, the list object it passed to the constructor"""
    if how == "append":
        terms.append("xxa")
    elif how == "clear":
        terms.clear()
    elif how == "reverse":
        terms.reverse()
    elif how == "pop":
        if terms:
            terms.pop(0)
    elif how == "number":
        terms.insert(0, 5)
    elif how == "extend-self":
        terms.extend([t + "x" for t in terms if isinstance(t, str)])
    return terms


def own_snap(v):
    """the content of an argument as its owner sees it (types included)"""
    try:
        if isinstance(v, Mapping):
            return ("m", [(type(k).__name__, repr(k), type(v[k]).__name__, repr(v[k])) for k in v])
        if v is None or isinstance(v, (str, int, float, Fraction)):
            return ("s", type(v).__name__, repr(v))
        return ("d", type(v).__name__, [(type(x).__name__, repr(x)) for x in v])
    except Exception as e:      # pragma: no cover
        return ("?", repr(e))


def run_history(case, notes=None):
    """the real code: ONE encoder object, the calls of the history in order (argument objects re-used where the
    case says so); a call that raises does not end the history.
    phase 6, case["own"] = {"terms": edit, "at": k, "result": "scribble"|"keep"}: the CALLER edits in place the term list it
    passed to the constructor (before call k), overwrites every result it is handed ("scribble") or keeps the results and
    looks at them again after the later calls ("keep"); the arguments are compared before/after every call. What the
    library did to caller-owned objects is reported through `notes` as (call index, sig, what)."""
    from coba.encodings import InteractionsEncoder
    calls = calls_of(case)
    own = case.get("own") or {}
    notes = notes if notes is not None else []
    terms = build_terms(case)
    tsnap = own_snap(terms)
    try:
        enc = InteractionsEncoder(terms)
    except Exception as e:
        return [{"err": type(e).__name__, "msg": str(e)[:200]} for _ in calls]
    if own and own_snap(terms) != tsnap:
        notes.append((0, "own:constructor-changed-the-callers-term-list", "InteractionsEncoder(terms) changed the list it was given: %r -> %r" % (build_terms(case), terms)))
    import copy
    import pickle
    copiers = {"pickle": lambda e: pickle.loads(pickle.dumps(e)), "deepcopy": copy.deepcopy, "copy": copy.copy}
    copies = list(case.get("copies") or [])
    pool, outs, held = {}, [], []
    with capped_memory():
        for i, ns in enumerate(calls):
            try:
                if own.get("terms") and own.get("at", 0) == i:
                    own_edit_terms(terms, own["terms"])
                use = enc
                cp = copies[i] if i < len(copies) else None
                if cp:      # this call goes to a COPY of the encoder; "keep": later calls too
                    use = copiers[cp["op"]](enc)
                    if cp.get("keep"):
                        enc = use
                kw = {n: build_val_obj(v, pool) for n, v in ns}
                before = {n: own_snap(o) for n, o in kw.items()} if own else None
                r = use.encode(**kw)
                outs.append(canon_out(r))
                if own:
                    for n, o in kw.items():
                        if own_snap(o) != before[n]:
                            notes.append((i, "own:encode-changed-its-argument:" + before[n][0], "encode(%s=...) changed the caller's object: %r -> %r" % (n, before[n], own_snap(o))))
                    for j, (obj, can) in enumerate(held):
                        if canon_out(obj) != can:
                            notes.append((i, "own:earlier-result-changed-by-a-later-call", "the result handed out by call #%d was changed by call #%d: now %r" % (j + 1, i + 1, obj)))
                            held[j] = (obj, canon_out(obj))
                    if own.get("result") == "keep":
                        held.append((r, outs[-1]))
                    elif own.get("result") == "scribble":      # the caller overwrites what it was handed
                        if isinstance(r, list):
                            r[:] = [SCRIBBLE]
                        elif isinstance(r, dict):
                            r.clear()
                            r["x0"] = SCRIBBLE
            except Exception as e:
                outs.append({"err": type(e).__name__, "msg": str(e)[:200]})
    return outs


def _ident(x):
    return x


def build_terms(case):
    return [t if isinstance(t, str) else num(t) for t in case["terms"]]


def _numeric(v):
    import numbers
    if isinstance(v, bool):
        return False
    if isinstance(v, float):
        return math.isfinite(v)
    return isinstance(v, numbers.Rational)


def _tyname(v):
    return "int" if type(v) is int else "float" if isinstance(v, float) else "Fraction" if isinstance(v, Fraction) else type(v).__name__


def canon_out(r):
    """canonical, exact form of what encode returned ("ty": the Python types of the numbers in it)"""
    from collections.abc import Mapping
    try:
        if isinstance(r, Mapping):
            out = {}
            for k, v in r.items():
                if not isinstance(k, str) or not _numeric(v):
                    return {"bad": repr(r)[:300]}
                out[k] = Fraction(v)
            return {"sparse": out, "ty": sorted(set(_tyname(v) for v in r.values()))}
        if isinstance(r, (list, tuple)):
            vs = []
            for v in r:
                if not _numeric(v):
                    return {"bad": repr(r)[:300]}
                vs.append(Fraction(v))
            return {"dense": vs, "ty": sorted(set(_tyname(v) for v in r))}
    except Exception as e:      # pragma: no cover
        return {"bad": "uncanonicalisable: %r" % (e,)}
    return {"bad": repr(r)[:300]}


def run_impl(case):
    """the real code: one encoder, two calls (the encoder keeps counters), and a fresh encoder"""
    from coba.encodings import InteractionsEncoder
    terms = build_terms(case)
    try:
        with capped_memory():
            kw = {n: build_val(v) for n, v in case["ns"]}
            enc = InteractionsEncoder(terms)
            r1 = canon_out(enc.encode(**kw))
            r2 = canon_out(enc.encode(**{n: build_val(v) for n, v in case["ns"]}))
            r3 = canon_out(InteractionsEncoder(list(terms)).encode(**{n: build_val(v) for n, v in case["ns"]}))
    except Exception as e:
        return {"err": type(e).__name__, "msg": str(e)[:200]}
    if r1 != r2 or r1 != r3:
        return {"unstable": [jsonable(r1), jsonable(r2), jsonable(r3)]}
    return r1


def jsonable(o):
    if "dense" in o:
        return {"dense": [[v.numerator, v.denominator] for v in o["dense"]]}
    if "sparse" in o:
        return {"sparse": sorted([k, [v.numerator, v.denominator]] for k, v in o["sparse"].items())}
    return o


def from_model(m):
    if "dense" in m:
        return {"dense": [Fraction(a, b) for a, b in m["dense"]]}
    if "sparse" in m:
        return {"sparse": {k: Fraction(a, b) for k, (a, b) in m["sparse"]}}
    return {"err": m.get("err")}


# ------------------------------------------------------------------ the property, read directly
U53 = Fraction(1, 2 ** 53)


def case_tol(case):
    """relative tolerance of theorem `encode_float_model`/`float_model_rel_error`: values that may round ("r") are
    compared within (1+2^-53)^(d-1)-1 of the exact monomial, d = largest term degree; everything else exactly"""
    if not any(it.get("r") for it in all_items(case)):
        return Fraction(0)
    d = max([len(t) for t in case["terms"] if isinstance(t, str)] + [1])
    return (1 + U53) ** (d - 1) - 1


def close(a, b, tol):
    """a (observed) against b (exact)"""
    return a == b or (tol and abs(a - b) <= tol * abs(b))


def close_list(xs, ys, tol):
    return len(xs) == len(ys) and all(close(a, b, tol) for a, b in zip(xs, ys))


def fr(it):
    return Fraction(it["n"][0], it["n"][1])


def val_is_sparse(v):
    k = v["k"]
    if k == "scalar":
        return "s" in v["v"]
    if k == "dense":
        return any("s" in i for i in v["v"])
    return k == "sparse"


def feats_dense(v):
    if v is None or v["k"] == "none":
        return []
    if v["k"] == "scalar":
        return [fr(v["v"])]
    if v["k"] == "dense":
        return [fr(i) for i in v["v"]]
    return []


def feats_sparse(ns, v):
    """named features of a namespace: ([(name, value)], collided?)"""
    if v is None or v["k"] == "none":
        pairs = []
    elif v["k"] == "scalar":
        pairs = [("0", v["v"])]
    elif v["k"] == "dense":
        pairs = [(str(i), it) for i, it in enumerate(v["v"])]
    else:
        pairs = collapse_pairs(v) if special_keys(v) else [(build_key(k), it) for k, it in v["v"]]
    stage1 = OrderedDict()          # handle_str: keys are Python objects (1 and '1' stay distinct here)
    for k, it in pairs:
        if "s" in it:
            stage1["%s%s" % (k, it["s"])] = Fraction(1)
        else:
            stage1[k] = fr(it)
    named = OrderedDict()           # namespace prefix
    for k, v in stage1.items():
        named["%s%s" % (ns, k)] = v
    return list(named.items()), len(named) < len(pairs)


def factors(t):
    return [(c, t.count(c)) for c in OrderedDict.fromkeys(t)]


def prod(xs):
    r = Fraction(1)
    for x in xs:
        r *= x
    return r


def monos_ref(fs, p, sparse):
    """degree-p monomials, each unordered combination once, combinations_with_replacement order"""
    if sparse:
        return [("".join(k for k, _ in c), prod(v for _, v in c)) for c in itertools.combinations_with_replacement(fs, p)]
    return [prod(c) for c in itertools.combinations_with_replacement(fs, p)]


def pows_defective(values, degree, mul, one):
    """the recurrence recorded as C20-F1 (only used to label a failure as that known defect)"""
    if not values:
        return []
    starts = [1] * len(values)
    terms = [[one]]
    for d in range(degree):
        terms.append([mul(v, t) for v, s in zip(values, starts) for t in terms[d][(s - 1):]])
        starts = list(accumulate(starts[:1] + starts[-1:] + starts[1:-1]))
    return terms


def monos_defective(fs, p, sparse):
    if not fs:
        return []
    if sparse:
        return pows_defective(fs, p, lambda a, b: (a[0] + b[0], a[1] * b[1]), ("", Fraction(1)))[p]
    return pows_defective(fs, p, lambda a, b: a * b, Fraction(1))[p]


def term_entries(feats, t, sparse, monos=monos_ref):
    lists = [monos(feats.get(c, []), p, sparse) for c, p in factors(t)]
    out = []
    for combo in itertools.product(*lists):        # left factor major
        if sparse:
            out.append(("".join(k for k, _ in combo), prod(v for _, v in combo)))
        else:
            out.append(prod(combo))
    return out


def dedupe(ts):
    return list(OrderedDict.fromkeys(ts))


def zip_quirk_terms(case):
    """term list as the code recorded as C20-F2 sees it (label only)"""
    inter = build_terms(case)
    strs = [t for t in inter if isinstance(t, str)]
    return list(OrderedDict(zip(inter, strs)).values())


class Oracle:
    def __init__(self, case):
        self.case = case
        self.terms = [t for t in case["terms"] if isinstance(t, str)]
        self.const = sum((fr(t) for t in case["terms"] if not isinstance(t, str)), Fraction(0))
        self.given = OrderedDict((n, v) for n, v in case["ns"])
        self.named = list(OrderedDict.fromkeys("".join(self.terms)))
        self.absent = [c for c in self.named if c not in self.given]
        self.sparse = any(val_is_sparse(v) for v in self.given.values())
        self.sparse_used = any(val_is_sparse(v) for n, v in self.given.items() if n in self.named)
        self.nconst = len(case["terms"]) - len(self.terms)
        self.collided = False
        self.feats = {}
        for c in self.named:
            v = self.given.get(c)
            if self.sparse:
                fs, col = feats_sparse(c, v)
                self.collided = self.collided or col
            else:
                fs = feats_dense(v)
            self.feats[c] = fs
        self.in_quantifier = all(len(t) > 0 for t in self.terms)
        self.tol = case_tol(case)

    def name_collisions(self):
        """keys that two DIFFERENT combinations of features (or a monomial and the constant) share"""
        ids = {}
        fid = {c: [(nm, (c, i)) for i, (nm, _) in enumerate(self.feats[c])] for c in self.feats}
        for t in dedupe(self.terms):
            lists = [[("".join(k for k, _ in comb), tuple(i for _, i in comb)) for comb in itertools.combinations_with_replacement(fid.get(c, []), p)]
                     for c, p in factors(t)]
            for combo in itertools.product(*lists):
                key = "".join(k for k, _ in combo)
                ident = tuple(sorted(i for _, part in combo for i in part))
                ids.setdefault(key, set()).add(ident)
        if self.const:
            ids.setdefault("const", set()).add(("const",))
        return sorted(k for k, v in ids.items() if len(v) > 1)

    def entries(self, terms, monos=monos_ref):
        out = []
        for t in terms:
            out += term_entries(self.feats, t, self.sparse, monos)
        return out

    def dense(self, terms, monos=monos_ref):
        return ([self.const] if self.const else []) + self.entries(terms, monos)

    def sparse_candidates(self, terms, monos=monos_ref):
        cand = OrderedDict()
        for k, v in self.entries(terms, monos) + ([("const", self.const)] if self.const else []):
            cand.setdefault(k, []).append(v)
        return cand

    def sparse_dict(self, terms, monos=monos_ref):
        d = OrderedDict(self.entries(terms, monos))
        if self.const:
            d["const"] = self.const
        return dict(d)

    def matches(self, impl, terms, monos=monos_ref):
        """does what encode returned meet the statement, reading the term list as `terms`?"""
        zero_const = (not self.const) and self.nconst > 0      # a constant summing to 0 may or may not be listed
        tol = self.tol
        if self.sparse and "sparse" in impl:
            cand = self.sparse_candidates(terms, monos)
            got = dict(impl["sparse"])
            if zero_const and "const" not in cand and got.get("const") == 0:
                del got["const"]
            return set(got) == set(cand) and all(any(close(got[k], c, tol) for c in cand[k]) for k in got)
        if "dense" in impl and not self.sparse:
            exp = self.dense(terms, monos)
            return close_list(impl["dense"], exp, tol) or (zero_const and close_list(impl["dense"], [Fraction(0)] + exp, tol))
        return False

    def expected_len(self, terms):
        """dense length by the formula of `encode_length_spec`, independent of the values"""
        n = 1 if self.const else 0
        for t in terms:
            k = 1
            for c, p in factors(t):
                k *= math.comb(len(self.feats.get(c, [])) + p - 1, p)
            n += k
        return n

    def readings(self):
        d = dedupe(self.terms)
        return [d] if d == self.terms else [d, list(self.terms)]

    def size(self):
        tot = 0
        for t in dedupe(self.terms):
            n = 1
            for c, p in factors(t):
                n *= math.comb(len(self.feats.get(c, [])) + p - 1, p) if self.feats.get(c) else 0
            tot += n
        return tot


def all_items(case):
    for _, v in case["ns"]:
        if v["k"] == "scalar":
            yield v["v"]
        elif v["k"] == "dense":
            for it in v["v"]:
                yield it
        elif v["k"] == "sparse":
            for _, it in v["v"]:
                yield it


def fmt_out(o, limit=260):
    return json.dumps(jsonable(o) if ("dense" in o or "sparse" in o) else o)[:limit]


def show_call(case):
    def sv(v):
        try:
            r = repr(build_val_plain(v))
            w = v.get("wrap")
            return r if w in (None, "list", "tuple", "dict") else "%s:%s" % (w, r)
        except Exception:
            return "?"
    return "InteractionsEncoder(%r).encode(%s)" % (build_terms(case), ", ".join("%s=%s" % (n, sv(v)) for n, v in case["ns"]))


def build_val_plain(v):
    k = v["k"]
    if k == "none":
        return None
    if k == "scalar":
        return build_item(v["v"])
    if k == "dense":
        items = [build_item(i) for i in v["v"]]
        return tuple(items) if v.get("wrap") == "tuple" else items
    return {build_key(kk): build_item(i) for kk, i in v["v"]}


def monitor(case, impl):
    """(B): the statement of C20 evaluated on what the real code returned. Returns (fails, tags, oracle)."""
    o = Oracle(case)
    fails, tags = [], []
    if not o.in_quantifier:
        return fails, ["outside:empty-term"], o
    call = show_call(case)
    if "err" in impl:
        if o.absent:
            sig = "raises-%s:absent-namespace" % impl["err"]
        else:
            sig = "raises-%s" % impl["err"]
        fails.append(F("B", "%s raised %s (%s); the property promises the monomials (absent namespaces: %s)" % (call, impl["err"], impl.get("msg"), o.absent), sig))
        return fails, tags, o
    if "unstable" in impl:
        fails.append(F("B", "%s returned different results on repeated calls: %s" % (call, json.dumps(impl["unstable"])[:300]), "not-repeatable"))
        return fails, tags, o
    if "bad" in impl:
        fails.append(F("B", "%s returned something that is neither a numeric vector nor a str->number mapping: %s" % (call, impl["bad"]), "malformed-result"))
        return fails, tags, o
    if o.sparse != ("sparse" in impl):
        fails.append(F("B", "%s returned a %s although the inputs are %s" % (call, "mapping" if "sparse" in impl else "vector", "sparse/string-valued" if o.sparse else "dense"), "kind-mismatch"))
        return fails, tags, o
    if o.sparse and o.collided:
        # "keys identify the participating features": two features of one namespace got the same name (C20-F5)
        fails.append(F("B", "%s = %s: two features of a namespace are given the same name, so one of them is lost" % (call, fmt_out(impl)), SIG_FEATS))
        return fails, tags, o
    if o.sparse:
        coll = o.name_collisions()
        if coll:
            # two different combinations of features share a key: the mapping cannot identify both (C20-F4)
            fails.append(F("B", "%s = %s: different monomials share the key(s) %s, so the mapping holds one product for several monomials"
                           % (call, fmt_out(impl), coll[:4]), SIG_NAMES))
    else:
        lens = sorted(set(o.expected_len(ts) + z for ts in o.readings() for z in ((0, 1) if (not o.const and o.nconst) else (0,))))
        if len(impl["dense"]) not in lens:
            fails.append(F("B", "%s has %d entries; (constant) + sum over terms of prod over namespaces of C(n+p-1,p) = %s"
                           % (call, len(impl["dense"]), lens), "dense-length"))
            return fails, tags, o
    if any(o.matches(impl, ts) for ts in o.readings()):
        return fails, tags, o
    # the property is violated; label the failure
    d = dedupe(o.terms)
    zq = zip_quirk_terms(case)
    label = None
    for sigs, ts, mon in (([SIG_POWS], d, monos_defective), ([SIG_ZIP], zq, monos_ref), ([SIG_POWS, SIG_ZIP], zq, monos_defective)):
        if o.matches(impl, ts, mon):
            label = sigs
            break
    as_sparse = "sparse" in impl
    if as_sparse:
        exp = {"sparse": o.sparse_dict(d)}
    else:
        exp = {"dense": o.dense(d)}
    if label:
        for s in label:
            fails.append(F("B", "%s = %s, expected %s" % (call, fmt_out(impl), fmt_out(exp)), s))
        return fails, tags, o
    if as_sparse:
        cand = o.sparse_candidates(d)
        if set(impl["sparse"]) != set(cand):
            miss = [k for k in cand if k not in impl["sparse"]][:4]
            extra = [k for k in impl["sparse"] if k not in cand][:4]
            sig = "sparse-keys:%s" % ("count" if len(cand) != len(impl["sparse"]) else "names")
            what = "missing keys %s, unexpected keys %s" % (miss, extra)
        else:
            bad = [k for k in cand if not any(close(impl["sparse"][k], c, o.tol) for c in cand[k])][:4]
            sig = "sparse-values"
            what = "wrong values at %s" % [(k, str(impl["sparse"][k]), [str(x) for x in cand[k]]) for k in bad]
    else:
        e = exp["dense"]
        g = impl["dense"]
        if len(e) != len(g):
            sig, what = "dense-length", "%d entries, %d expected" % (len(g), len(e))
        elif sorted(e) == sorted(g):
            sig, what = "dense-order", "the right monomials in the wrong order"
        else:
            i = next(i for i in range(len(e)) if not close(g[i], e[i], o.tol))
            sig, what = "dense-values", "entry %d is %s, expected %s" % (i, g[i], e[i])
    fails.append(F("B", "%s = %s, expected %s: %s" % (call, fmt_out(impl), fmt_out(exp), what), sig))
    return fails, tags, o


# ------------------------------------------------------------------ translator: how the entry points treat the term argument
_NORMS = {}


def extract_norms(repo=None):
    """for each entry point, the treatments applied to its term argument before it is handed on, read off the source:
    `p = [p]` under `isinstance(p,str)` -> wrapStr, `list(p)` / `tuple(p)` anywhere -> listOf / tupleOf, nothing -> asIs.
    Raises when the parameter is rebound in a way this reader does not know."""
    import ast
    repo = repo or os.environ.get("COBA_REPO", "/repo")
    if repo in _NORMS:
        return _NORMS[repo]
    targets = {"env": ("coba/environments/core.py", "Environments", "from_linear_synthetic", "reward_features"),
               "synthetic": ("coba/environments/synthetics.py", "LinearSyntheticSimulation", "__init__", "reward_features"),
               "linucb": ("coba/learners/linucb.py", "LinUCBLearner", "__init__", "features"),
               "lints": ("coba/learners/lints.py", "LinTSLearner", "__init__", "features")}
    out = {}
    for key, (rel, cls, fn, par) in targets.items():
        tree = ast.parse(open(os.path.join(repo, rel), encoding="utf-8").read())
        func = None
        for node in ast.walk(tree):
            if isinstance(node, ast.ClassDef) and node.name == cls:
                for f in node.body:
                    if isinstance(f, ast.FunctionDef) and f.name == fn:
                        func = f
        if func is None:
            raise LookupError("%s.%s not found in %s" % (cls, fn, rel))
        found = []
        is_p = lambda n: isinstance(n, ast.Name) and n.id == par
        for node in ast.walk(func):
            if isinstance(node, ast.Assign) and any(is_p(t) for t in node.targets):
                v = node.value
                if isinstance(v, ast.List) and len(v.elts) == 1 and is_p(v.elts[0]):
                    found.append((node.lineno, "wrapStr"))
                elif isinstance(v, ast.Call) and isinstance(v.func, ast.Name) and v.func.id in ("list", "tuple") and len(v.args) == 1 and is_p(v.args[0]):
                    pass        # counted below as a call
                else:
                    raise ValueError("%s.%s rebinds %s in an unknown way (line %d)" % (cls, fn, par, node.lineno))
            if isinstance(node, ast.Call) and isinstance(node.func, ast.Name) and node.func.id in ("list", "tuple") and len(node.args) == 1 and is_p(node.args[0]):
                found.append((node.lineno, "listOf" if node.func.id == "list" else "tupleOf"))
        out[key] = [n for _, n in sorted(found)] or ["asIs"]
    _NORMS[repo] = out
    return out


# ------------------------------------------------------------------ the callers (linucb.py, lints.py, synthetics.py)
def py_to_val(x):
    """a Python argument a caller passed to encode, as a case value"""
    def item(v):
        if isinstance(v, str):
            return {"s": str(v)}
        if isinstance(v, int) and not isinstance(v, bool):
            return {"n": [v, 1]}
        if isinstance(v, Fraction):
            return {"n": [v.numerator, v.denominator], "q": True}
        a, b = float(v).as_integer_ratio()
        return {"n": [a, b], "f": True, "r": True}
    if x is None:
        return {"k": "none"}
    if isinstance(x, (list, tuple)):
        return {"k": "dense", "v": [item(v) for v in x], "wrap": "tuple" if isinstance(x, tuple) else "list"}
    if isinstance(x, dict):
        return {"k": "sparse", "v": [[{"s": k} if isinstance(k, str) else {"i": k}, item(v)] for k, v in x.items()], "wrap": "dict"}
    return {"k": "scalar", "v": item(x)}


def term_to_case(t):
    if isinstance(t, str):
        return str(t)
    if isinstance(t, int) and not isinstance(t, bool):
        return {"n": [t, 1]}
    a, b = float(t).as_integer_ratio()
    return {"n": [a, b], "f": True}


def run_caller(c):
    """run the real caller with a recording subclass substituted for the module-level name InteractionsEncoder
    (and a stub `numpy` when numpy is not installed: only the encoder calls made before the first numpy use matter)"""
    import importlib
    import importlib.machinery
    import sys
    import types
    import coba.encodings as ce
    rec = []

    class Rec(ce.InteractionsEncoder):
        def __init__(self, interactions):
            self._rec = {"terms": list(interactions), "calls": []}
            rec.append(self._rec)
            super().__init__(interactions)

        def encode(self, **kw):
            try:
                r = super().encode(**kw)
                self._rec["calls"].append((dict(kw), canon_out(r)))
                return r
            except Exception as e:
                self._rec["calls"].append((dict(kw), {"err": type(e).__name__, "msg": str(e)[:200]}))
                raise
    feats = None if c.get("features") is None else [t if isinstance(t, str) else num(t) for t in c["features"]]
    modname = {"linucb": "coba.learners.linucb", "lints": "coba.learners.lints", "synthetic": "coba.environments.synthetics",
               "synthetic_env": "coba.environments.synthetics"}[c["kind"]]
    arg = caller_arg(c, feats)
    mod = importlib.import_module(modname)
    saved = mod.InteractionsEncoder
    fake = None
    if c["kind"] in ("linucb", "lints"):
        try:
            import numpy  # noqa: F401
        except ImportError:
            fake = types.ModuleType("numpy")
            fake.__spec__ = importlib.machinery.ModuleSpec("numpy", None)
            fake.zeros = lambda d: [0] * d
            fake.identity = lambda d: [[int(i == j) for j in range(d)] for i in range(d)]
            sys.modules["numpy"] = fake
    outcome = "ok"
    try:
        mod.InteractionsEncoder = Rec
        with capped_memory():
            if c["kind"] == "synthetic":
                kwf = {} if feats is None else {"reward_features": arg}
                sim = mod.LinearSyntheticSimulation(3, n_actions=2, n_context_features=c["nctx"], n_action_features=c["nact"],
                                                    n_coefficients=None, seed=c.get("seed", 1), **kwf)
                list(sim.read())
            elif c["kind"] == "synthetic_env":
                # the public entry point: Environments.from_linear_synthetic (one simulation per seed)
                from coba.environments import Environments
                kwf = {} if feats is None else {"reward_features": arg}
                envs = Environments.from_linear_synthetic(3, n_actions=2, n_context_features=c["nctx"], n_action_features=c["nact"],
                                                          n_coefficients=None, seed=c.get("seeds", c.get("seed", 1)), **kwf)
                for env in envs:
                    list(env.read())
            else:
                cls = mod.LinUCBLearner if c["kind"] == "linucb" else mod.LinTSLearner
                lrn = cls() if feats is None else cls(features=arg)
                ctx = build_val(c["context"])
                acts = [build_val(a) for a in c["actions"]]
                lrn.predict(ctx, acts)
    except Exception as e:
        outcome = "%s: %s" % (type(e).__name__, str(e)[:120])
    finally:
        mod.InteractionsEncoder = saved
        if fake is not None and sys.modules.get("numpy") is fake:
            del sys.modules["numpy"]
    return rec, outcome


def caller_arg(c, feats):
    """the term argument in the shape the case asks for: a list, a tuple, or - one term only - the bare str"""
    if feats is None:
        return None
    shape = c.get("shape", "list")
    if shape == "tuple":
        return tuple(feats)
    if shape == "str" and len(feats) == 1 and isinstance(feats[0], str):
        return feats[0]
    return list(feats)


def synthetic_reward_check(c, feats):
    """(B) for the synthetic entry points, on the public observable only (contexts, actions, rewards): "the simulation's rewards
    are linear with respect to the requested reward features" - the reward must be an affine function of the monomials of the
    expansion of the terms and (n_coefficients=None: every weight is drawn) must depend on EVERY one of them.
    Exact least squares over Fractions. Returns (fails, tags)."""
    from coba.environments import Environments, LinearSyntheticSimulation
    nctx, nact = c["nctx"], c["nact"]
    if nctx == 0 and nact == 0:
        return [], []
    drop = "x" if nctx == 0 else "a" if nact == 0 else ""
    terms = dedupe([t for t in ([f.replace(drop, "") if drop else f for f in feats]) if t])
    if not terms or any(ch not in "xa" for t in terms for ch in t):
        return [], []
    sizes = {"x": nctx, "a": nact}
    # the distinct monomials (as multisets of features) of the expansion, in order of first appearance
    idents = []
    for t in terms:
        lists = [list(itertools.combinations_with_replacement([(ns, i) for i in range(sizes[ns])], p)) for ns, p in factors(t)]
        for combo in itertools.product(*lists):
            ident = tuple(sorted(i for part in combo for i in part))
            if ident not in idents:
                idents.append(ident)
    k = len(idents)
    if k == 0 or k > 24:
        return [], ["synthetic-reward:skipped(k=%d)" % k]
    n_actions = 2
    n_int = (k + 6) // (n_actions if nact else 1) + 2
    arg = caller_arg(c, feats)
    kw = dict(n_actions=n_actions, n_context_features=nctx, n_action_features=nact, n_coefficients=None, reward_features=arg)
    try:
        with capped_memory():
            if c["kind"] == "synthetic_env":
                seed = c.get("seeds", [c.get("seed", 1)])[0] if isinstance(c.get("seeds"), list) else c.get("seed", 1)
                inters = list(Environments.from_linear_synthetic(n_int, seed=seed, **kw)[0].read())
            else:
                inters = list(LinearSyntheticSimulation(n_int, seed=c.get("seed", 1), **kw).read())
    except Exception as e:
        return [], ["synthetic-reward:raised(%s)" % type(e).__name__]
    groups = {}
    for it in inters:
        x = it["context"] or []
        rs = it["rewards"]
        rs = [rs(a) for a in it["actions"]] if callable(rs) else list(rs)
        for j, (a, r) in enumerate(zip(it["actions"], rs)):
            val = {"x": [Fraction(v) for v in x], "a": [Fraction(v) for v in a] if nact else []}
            row = [Fraction(1)] + [prod(val[ns][i] for ns, i in ident) for ident in idents]
            groups.setdefault(0 if nact else j, []).append((row, Fraction(r)))
    call = "%s(n_context_features=%d, n_action_features=%d, n_coefficients=None, reward_features=%r)" % (
        "Environments.from_linear_synthetic" if c["kind"] == "synthetic_env" else "LinearSyntheticSimulation", nctx, nact, arg)
    fails = []
    for g, rows in sorted(groups.items()):
        n = k + 1
        if len(rows) < n + 2:
            continue
        # normal equations, solved exactly
        M = [[sum(r[i] * r[j] for r, _ in rows) for j in range(n)] + [sum(r[i] * y for r, y in rows)] for i in range(n)]
        ok = True
        for col in range(n):
            piv = next((r for r in range(col, n) if M[r][col] != 0), None)
            if piv is None:
                ok = False
                break
            M[col], M[piv] = M[piv], M[col]
            inv = 1 / M[col][col]
            M[col] = [v * inv for v in M[col]]
            for r in range(n):
                if r != col and M[r][col] != 0:
                    f = M[r][col]
                    M[r] = [a - f * b for a, b in zip(M[r], M[col])]
        if not ok:
            continue
        coef = [M[i][n] for i in range(n)]
        scale = max(abs(y) for _, y in rows) + 1
        resid = max(abs(sum(cj * rj for cj, rj in zip(coef, r)) - y) for r, y in rows)
        if resid > Fraction(1, 10 ** 8) * scale:
            fails.append(F("B", "%s: the rewards are not an affine function of the %d monomials of the expansion of %r (least-squares residual %.3g)"
                           % (call, k, terms, float(resid)), "synthetic-reward-not-affine"))
            break
        big = max(abs(cj) for cj in coef[1:])
        dead = [idents[i] for i in range(k) if abs(coef[i + 1]) <= Fraction(1, 10 ** 7) * big]
        if dead:
            name = lambda ident: "*".join("%s%d" % (ns, i) for ns, i in ident)
            fails.append(F("B", "%s: the rewards do not depend on %d of the %d monomials of the expansion of %r (e.g. %s): every weight is drawn with "
                           "n_coefficients=None, so every monomial must count" % (call, len(dead), k, terms, ", ".join(name(d) for d in dead[:4])),
                           "synthetic-reward-ignores-monomials"))
            break
    return fails, ["synthetic-reward:checked"]


def canon_terms(ts):
    """multiset of term-list entries (Python sets have no order; 1 == 1.0)"""
    return sorted(("t", t) if isinstance(t, str) else ("n", str(Fraction(t))) for t in ts)


def extract_ownership(repo=None):
    """phase 6 translator: read off coba/encodings.py (AST) what InteractionsEncoder does with caller-owned objects.
    copies: every use of the constructor's term-list parameter is as the iterable of a comprehension or as the argument of
    list / tuple / sorted / set / sum / filter / map / zip / join-like calls (it is never stored, never handed on as an object);
    fresh: every `return` of `encode` returns a local name, each assignment to that name builds a new object (a call, a
    literal, a comprehension or `[..] + name`), and no attribute of `self` is assigned from it or returned."""
    import ast
    repo = repo or os.environ.get("COBA_REPO", "/repo")
    tree = ast.parse(open(os.path.join(repo, "coba/encodings.py"), encoding="utf-8").read())
    cls = next(n for n in ast.walk(tree) if isinstance(n, ast.ClassDef) and n.name == "InteractionsEncoder")
    fns = {f.name: f for f in cls.body if isinstance(f, ast.FunctionDef)}
    init, enc = fns["__init__"], fns["encode"]
    param = init.args.args[1].arg
    parents = {}
    for n in ast.walk(init):
        for c in ast.iter_child_nodes(n):
            parents[id(c)] = n
    copies, uses = True, 0
    for n in ast.walk(init):
        if isinstance(n, ast.Name) and n.id == param:
            uses += 1
            par = parents.get(id(n))
            ok = (isinstance(par, ast.comprehension) and par.iter is n) or (
                isinstance(par, ast.Call) and n in par.args and isinstance(par.func, ast.Name) and par.func.id in ("list", "tuple", "sorted", "set", "sum", "filter", "map", "zip", "len", "frozenset"))
            if isinstance(n.ctx, ast.Store):      # re-binding the name: fine when the new value is itself a copy (`p = list(p)`)
                v = par.value if isinstance(par, ast.Assign) else None
                ok = isinstance(v, (ast.ListComp, ast.List, ast.Tuple)) or (
                    isinstance(v, ast.Call) and isinstance(v.func, ast.Name) and v.func.id in ("list", "tuple", "sorted"))
            if not ok:
                copies = False
    if uses == 0:
        raise ValueError("the term-list parameter %r is not used in __init__" % param)
    for f in cls.body:      # nothing else may look at a kept reference either
        if isinstance(f, ast.FunctionDef) and f is not init:
            for n in ast.walk(f):
                if isinstance(n, ast.Attribute) and isinstance(n.value, ast.Name) and n.value.id == "self" and n.attr.lstrip("_") in (param, "terms"):
                    copies = False
    def own_nodes(fn):      # the statements of `fn` itself, not those of functions / lambdas defined inside it
        stack = list(ast.iter_child_nodes(fn))
        while stack:
            n = stack.pop()
            yield n
            if not isinstance(n, (ast.FunctionDef, ast.Lambda, ast.AsyncFunctionDef)):
                stack.extend(ast.iter_child_nodes(n))
    rets = [n for n in own_nodes(enc) if isinstance(n, ast.Return)]
    fresh = bool(rets)
    names = set()
    for r in rets:
        if isinstance(r.value, ast.Name):
            names.add(r.value.id)
        else:
            fresh = False
    for n in own_nodes(enc):
        if isinstance(n, ast.Assign):
            for t in n.targets:
                if isinstance(t, ast.Name) and t.id in names:
                    v = n.value
                    if not (isinstance(v, (ast.Call, ast.List, ast.Dict, ast.ListComp, ast.DictComp)) or
                            (isinstance(v, ast.BinOp) and isinstance(v.op, ast.Add) and isinstance(v.left, (ast.List, ast.ListComp)))):
                        fresh = False
                    if isinstance(v, ast.Call) and not (isinstance(v.func, ast.Name) and v.func.id in ("dict", "sum", "list", "OrderedDict")):
                        fresh = False
                if isinstance(t, (ast.Attribute, ast.Subscript)) and any(isinstance(m, ast.Name) and m.id in names for m in ast.walk(n.value)):
                    fresh = False      # the result is stored somewhere
    return {"copies": copies, "fresh": fresh}


# ------------------------------------------------------------------ sending a case to the Lean driver
def to_driver(case):
    def item(it):
        return {"s": it["s"]} if "s" in it else {"n": it["n"]}

    def val(v):
        k = v["k"]
        if k == "none":
            return {"none": 1}
        if k == "scalar":
            return {"scalar": item(v["v"])}
        if k == "dense":
            return {"dense": [item(i) for i in v["v"]]}
        if special_keys(v):     # bool / float keys: the dict the caller passes, keys formatted by Python itself ("True", "1.0")
            return {"sparse": [[{"i": k} if type(k) is int else {"s": "%s" % (k,)}, item(i)] for k, i in collapse_pairs(v)]}
        return {"sparse": [[kk, item(i)] for kk, i in v["v"]]}
    return {"terms": [{"t": t} if isinstance(t, str) else {"n": t["n"]} for t in case["terms"]],
            "ns": [[n, val(v)] for n, v in case["ns"]]}


# ------------------------------------------------------------------ generator
def W(rng, table):
    return rng.wchoice([(w, v) for v, w in table])


class C20(Property):
    id = "C20"
    prop_modules = ["CobaVerif.Props.C20"]
    quick_n = 1500
    thorough_n = 60000
    search_n = 3000
    case_timeout = 60
    workers = 8
    rule = ("term lists of 0-4 terms over namespaces {x,a} (sometimes a third), degree <= 5 per namespace with multiplicity and any "
            "letter order, 0-3 numeric constants (repeated ones included), namespaces as dense vectors of distinct primes (every monomial "
            "has a unique value), small ints with zeros/negatives/duplicates, dyadic floats, sparse dicts with str/int keys and "
            "number/string values, scalars, strings, None, [], absent, lazy/hashable wrappers; sizes biased to the (n,d) boundary "
            "(3,4),(4,3); string values also as str subclasses (coba.primitives.Categorical, a trivial subclass); 45% of the cases are "
            "histories of 2-4 encode() calls on ONE encoder object (same container types with different contents incl. sequences "
            "gaining/losing strings, the SAME list/dict object re-passed after an in-place change, alternating dense/sparse/string "
            "calls, identical repeats), every call judged on its own; 30% of the cases send some calls to a COPY of the encoder made by pickle / copy.deepcopy / copy.copy (before the first call or "
            "between calls; term lists with several constants or constants only favoured); value pools also include exact big ints "
            "(2**53+1, primes near 2**31 and 2**62) and Fractions, compared exactly on the dense and the sparse path, with a check that "
            "exact inputs give exact (non-float) results; 14% of the cases use arbitrary doubles (products round; tolerance of "
            "encode_float_model); 6% run the real entry points that hand terms to InteractionsEncoder - LinUCBLearner, LinTSLearner, LinearSyntheticSimulation and "
            "Environments.from_linear_synthetic (one or several seeds) - with the term argument in every accepted shape (list, tuple, a bare "
            "str = ONE term, numeric constants, defaults), random contexts and "
            "feature counts and compare the term list they hand to the encoder with learnerTerms / syntheticTerms, and judge every encode "
            "call they make; 3% of the cases check the float multiplication law itself on random doubles with Fractions; for the synthetic entry points the rewards of the generated environment "
            "are fitted exactly (Fractions) against the monomials of the expansion: affine, and every monomial counts; learner cases with an empty "
            "context are re-run under several PYTHONHASHSEEDs; the model's `normalise` (argument shapes) is compared with the spied encoder "
            "terms; dense lengths are checked against the binomial formula independently of the values; non-trivial = at least one term and at least 3 expected entries; distinct by canonical JSON of the case; "
            "5% of the cases (+14 corpus cases) are HISTORIES of 1-9 predict/learn calls on one real LinUCBLearner / LinTSLearner (v=0) running on an exact "
            "stand-in for numpy (Fractions on lists, props/c20_numpy.py): 45% start with 1-3 requests the learner rejects (sparse action or "
            "sparse context, falsy or truthy context, through predict or learn) before the first accepted one; dyadic contexts/actions/rewards; "
            "every encode call the learner makes is judged against the expansion of the REQUESTED terms (x-less rewriting when the first "
            "accepted request has no context), the vectors must belong to the request's (context, action) pairs, pmfs and final theta/A^-1 "
            "are compared with the Lean Sherman-Morrison model, and 60% of the histories with >= 2 string terms are run a second time with "
            "the terms in another order (same pmfs; permuted model run); phase 5: every call with arbitrary doubles is also sent to the encoder "
            "computed with the rounding multiplication fmul53 (driver field model53): the real result must be within the proved bound of it, equal bit "
            "for bit when every term has degree <= 2 (one IEEE product per entry), and bit-exactness is tagged otherwise; every prediction of a learner "
            "history is recomputed by the Lean interpreter runPredict from the `_pmf` program read off the CURRENT source (sqrt / round(.,5) sent as a table "
            "of the arguments that occur) and compared with the model's pmf and the real learner's; every sparse call evaluates the whole-call equal-length "
            "condition (equalLenOK) in Lean and on the monitor's own names and checks its consequence (all monomials kept); round h: a deterministic size "
            "family in the corpus - dense namespaces of 1, 2, 63, 64, 65, 100, 257 distinct values on the mapping path (next to a string scalar, next to a "
            "sparse namespace, a string inside the vector) and on the vector path, degree 1, the cross `xa` and degree 2 (mapping path up to 65, vector path up to 100); "
            "phase 6: ownership histories (case field `own`; a deterministic corpus family of 95 four-call histories + 10% of the generated cases): the caller edits in "
            "place the term list it passed to the constructor (append / clear / reverse / pop / insert a number / extend, before call 1, 2 or 3), overwrites or keeps every "
            "result it is handed, and passes the same argument objects again untouched; every call must still return the expansion of the terms the encoder was "
            "constructed with (B, prefix own:), arguments and earlier results must be left as they were (B own:encode-changed-its-argument, "
            "own:earlier-result-changed-by-a-later-call, own:constructor-changed-the-callers-term-list), and the returned values are compared with the model's ownRun "
            "(driver op own, A:own-history); key kinds (deterministic family of 64 cases + 8% of generated sparse keys): sparse keys that are bools / floats (1 / True / 1.0, 0 / False / 0.0 in "
            "every order on one encoder, mixed in one dict, with string values), True / 1.0 among the numeric entries of the term list")
    trusted_base = [
        "products are compared exactly (ints, or dyadic floats small enough that every float product is exact); cases with arbitrary doubles "
        "are compared at the relative tolerance (1+2^-53)^(d-1)-1 of theorem encode_float_model (standard model: no under/overflow, "
        "round-to-nearest IEEE doubles satisfy FloatMul 2^-53 - assumed, magnitudes kept within 1e-70..1e60)",
        "Python dict/OrderedDict insertion semantics are modelled by an association list (dictSet/dictOf)",
        "str() of int keys and indices equals Lean's toString on Int/Nat",
        "Python's set order in the learners' rewritten term list is not modelled: the list is compared as a set; its dependence on "
        "PYTHONHASHSEED is observed by running the real learner in sub-processes (finding C20-F6 for LinTS)",
        "the float theorems rest on ONE assumption about IEEE doubles - FloatMul 2^-53 (relative error <= 2^-53 per multiplication, x*1 = x) "
        "and ExactOn (a representable product is returned exactly) - checked on CPython's doubles with exact Fractions by the "
        "`floatmul` stream of the correspondence (3% of the cases); on the dyadic value pools no assumption about rounding is needed "
        "(encode_float_exact_dyadic)",
        "phase 4: ExactOn is now PROVED for the explicit rounding model fl53 (round to nearest, ties to even, 53 significant bits, no exponent "
        "range; exactOn_fl53, encode_float53_exact_dyadic); what is trusted instead is that CPython's double multiplication IS fl53 away from "
        "under/overflow - compared step by step by the `floatmul` stream (driver op fl53), 20% of those chains built to hit exact ties",
        "the treatments of the term argument (asIs / wrapStr / listOf / tupleOf) are read off the entry points' source by a small AST "
        "reader; an unknown rebinding makes it fall back to the last known treatments and say so",
        "learner histories: numpy is replaced by an exact stand-in (props/c20_numpy.py: Fractions on lists; zeros, identity, array, @, einsum "
        "'ij,ij->j', outer, amax, where, sqrt via math.sqrt) - the REAL linucb.py / lints.py code runs on it; LinTS only with v=0 (no "
        "multivariate_normal); sqrt is the only inexact operation and is replayed identically on the model's exact bounds",
        "phase 5: FloatMul's clause x*1 = x is now restricted to representable x (FloatMulOn Rep53) and PROVED for fmul53 (floatMulOn_fmul53), so "
        "encode_float_fmul53 has no hypothesis on the multiplication left; still trusted: CPython's double `*` is fl53 away from under/overflow",
        "phase 5: the `_pmf` bodies of linucb.py / lints.py (branch v == 0) are read off the source by an AST reader (props/c20_learner.py "
        "extract_pmf_prog) into Generated/C20LinAlg.lean; np.sqrt / .round(5) are parameters of the model (a table of CPython's values on the arguments "
        "that occur is sent to the driver); LinTS with v != 0 draws from numpy's Generator (PCG64 stream, ziggurat normals, Cholesky factor), which "
        "cannot be reproduced without numpy - a stand-in would fix other draws, so that branch is not run and not modelled",
        "phase 6: Python's own dict-key identification (1 == True == 1.0: one entry, first key object, last value) and its formatting of bool / float keys "
        "('True', '1.0', '2.5') are taken from CPython: the harness collapses the pairs with a real dict and sends such keys to the model as the formatted string",
        "phase 6: what InteractionsEncoder does with caller-owned objects (constructor copies its term list; encode returns a newly built object it does not keep) "
        "is read off coba/encodings.py by a small AST reader (extract_ownership) into Generated/C20Callers.lean (obligation own_source); argument objects are "
        "compared before/after every call of an ownership history by content and type (own_snap)",
        "the callers are run with a recording subclass substituted for the module-level name InteractionsEncoder and, where numpy is "
        "not installed, a stub numpy module (only the encoder calls made before the first numpy use are observed)",
    ]
    assumptions = [
        "a term list with a repeated term string may be read as a list or as an ordered set: the statement is silent, (B) accepts both; the model de-duplicates like the code and like the callers",
        "numeric constants that sum to 0: the statement is silent on whether a 0 entry is listed, (B) accepts both; code and model omit it",
        "a mapping is demanded whenever ANY keyword argument is sparse / string-valued (\"for sparse or string-valued inputs, as a mapping\")",
        "different monomials (or features) with the same concatenated name violate \"keys identify the participating features\": recorded findings C20-F4/F5, theorems carry the distinct-names hypothesis",
        "terms that name no namespace ('') are outside the quantifier: IndexError in code and model",
        "non-numeric feature values other than str (and str subclasses), nested containers, bool, nan/inf are not generated",
    ]
    partial_theorems = {
        "encode_sparse_faithful_partial": "the mapping holds every (name, product) monomial only when the concatenated names are pairwise "
                                          "distinct; plain concatenation is not injective (C20-F4, sparse_key_collision_counterexample)",
        "sparse_feats_distinct": "no feature of a namespace is lost only when the formatted names are distinct (C20-F5, feature_name_collision_counterexample)",
    }

    # ---- translator part: the callers' default term lists are re-extracted from the source on every run
    def pre_build(self):
        import ast
        from core import lean
        repo = os.environ.get("COBA_REPO", "/repo")

        def default_of(rel, cls, arg):
            tree = ast.parse(open(os.path.join(repo, rel), encoding="utf-8").read())
            for node in ast.walk(tree):
                if isinstance(node, ast.ClassDef) and node.name == cls:
                    for fn in node.body:
                        if isinstance(fn, ast.FunctionDef) and fn.name == "__init__":
                            args = fn.args.args
                            defaults = fn.args.defaults
                            off = len(args) - len(defaults)
                            for i, a in enumerate(args):
                                if a.arg == arg and i >= off:
                                    return ast.literal_eval(defaults[i - off])
            raise LookupError("%s.%s(%s=...) not found in %s" % (cls, "__init__", arg, rel))

        def lean_inter(t):
            if isinstance(t, str):
                if not all(ch.isascii() and ch.isalnum() for ch in t):
                    raise ValueError("unexpected character in term %r" % t)
                return ".term [%s]" % ", ".join("'%s'" % ch for ch in t)
            if isinstance(t, bool) or not isinstance(t, (int, float)):
                raise ValueError("unexpected entry %r" % (t,))
            a, b = Fraction(t).numerator, Fraction(t).denominator
            return ".num (%s)" % ("%d" % a if b == 1 and a >= 0 else "(%d : Rat) / %d" % (a, b))

        notes, ok = [], True
        vals = {}
        try:
            vals["linucb"] = list(default_of("coba/learners/linucb.py", "LinUCBLearner", "features"))
            vals["lints"] = list(default_of("coba/learners/lints.py", "LinTSLearner", "features"))
            syn = default_of("coba/environments/synthetics.py", "LinearSyntheticSimulation", "reward_features")
            vals["synthetic"] = [syn] if isinstance(syn, str) else list(syn)
            import re
            src = open(os.path.join(repo, "coba/evaluators/offline.py"), encoding="utf-8").read()
            m = re.search(r"InteractionsEncoder\(\s*(['\"][^'\"]*['\"]|\[[^\]]*\])\s*\)", src)
            off = ast.literal_eval(m.group(1)) if m else "x"
            vals["offline"] = list(off)      # a str argument is iterated character by character
            if not all(isinstance(t, str) for t in vals["synthetic"]):
                raise ValueError("reward_features default is not a list of strings")
            body = ("-- GENERATED by harness/props/c20.py from coba/learners/linucb.py, lints.py, coba/environments/synthetics.py,\n"
                    "-- coba/evaluators/offline.py on every run; do not edit.\n"
                    "import CobaVerif.Model.C20\nnamespace Coba.Generated.C20\nopen Coba.C20\n"
                    "def linucbFeatures : List Inter := [%s]\ndef lintsFeatures : List Inter := [%s]\n"
                    "def syntheticFeatures : List (List Char) := [%s]\ndef offlineFeatures : List Inter := [%s]\n"
                    "def extracted : Bool := true\n%send Coba.Generated.C20\n"
                    % (", ".join(lean_inter(t) for t in vals["linucb"]), ", ".join(lean_inter(t) for t in vals["lints"]),
                       ", ".join("[%s]" % ", ".join("'%s'" % ch for ch in t) for t in vals["synthetic"] if lean_inter(t)),
                       ", ".join(lean_inter(t) for t in vals["offline"]), "@@NORMS@@"))
            notes.append("caller defaults extracted: linucb %r, lints %r, synthetic %r, offline %r" % (vals["linucb"], vals["lints"], vals["synthetic"], vals["offline"]))
        except Exception as e:
            ok = False
            body = ("-- GENERATED: the default term lists could not be extracted from the callers (%s);\n"
                    "-- `callers_wellformed` is then stated about the last known defaults only.\n"
                    "import CobaVerif.Model.C20\nnamespace Coba.Generated.C20\nopen Coba.C20\n"
                    "def linucbFeatures : List Inter := [.num (1), .term ['a'], .term ['a', 'x']]\n"
                    "def lintsFeatures : List Inter := [.num (1), .term ['a'], .term ['a', 'x']]\n"
                    "def syntheticFeatures : List (List Char) := [['a'], ['x', 'a']]\ndef offlineFeatures : List Inter := [.term ['x']]\n"
                    "def extracted : Bool := false\n@@NORMS@@end Coba.Generated.C20\n" % str(e).replace("\n", " ")[:150])
            notes.append("caller defaults could NOT be extracted (%s); callers_wellformed is about the last known defaults; the caller cases of the correspondence still run" % e)
        try:
            nm = extract_norms(repo)
            lst = lambda ns: "[%s]" % ", ".join("." + n for n in ns)
            norms = ("def envNorms : List Norm := %s\ndef syntheticNorms : List Norm := %s\ndef linucbNorms : List Norm := %s\n"
                     "def lintsNorms : List Norm := %s\ndef shapesExtracted : Bool := true\n" % (lst(nm["env"]), lst(nm["synthetic"]), lst(nm["linucb"]), lst(nm["lints"])))
            notes.append("argument treatments extracted: from_linear_synthetic %s, LinearSyntheticSimulation %s, LinUCB %s, LinTS %s" % (nm["env"], nm["synthetic"], nm["linucb"], nm["lints"]))
        except Exception as e:
            norms = ("-- the treatments of the term argument could not be read off the source (%s); last known ones:\n"
                     "def envNorms : List Norm := [.asIs]\ndef syntheticNorms : List Norm := [.wrapStr]\ndef linucbNorms : List Norm := [.asIs]\n"
                     "def lintsNorms : List Norm := [.asIs]\ndef shapesExtracted : Bool := false\n" % str(e).replace("\n", " ")[:150])
            notes.append("argument treatments could NOT be extracted (%s); synthetic_entry_shapes / learner_entry_shapes are about the last known ones; the caller cases still spy the real encoder" % e)
        try:
            ow = extract_ownership(repo)
            norms += ("def initCopiesTerms : Bool := %s\ndef encodeReturnsFresh : Bool := %s\ndef ownershipExtracted : Bool := true\n"
                      % ("true" if ow["copies"] else "false", "true" if ow["fresh"] else "false"))
            notes.append("ownership read off InteractionsEncoder: the constructor copies its term list: %r, encode returns a newly built object: %r" % (ow["copies"], ow["fresh"]))
        except Exception as e:
            norms += ("-- what InteractionsEncoder does with caller-owned objects could not be read off the source (%s); last known:\n"
                      "def initCopiesTerms : Bool := true\ndef encodeReturnsFresh : Bool := true\ndef ownershipExtracted : Bool := false\n" % str(e).replace("\n", " ")[:150])
            notes.append("ownership could NOT be read off InteractionsEncoder (%s); own_source is about the last known behaviour; the ownership histories still run on the real code" % e)
        body = body.replace("@@NORMS@@", norms)
        path = os.path.join(lean.LEAN_DIR, "CobaVerif", "Generated", "C20Callers.lean")
        old = open(path, encoding="utf-8").read() if os.path.exists(path) else None
        if old != body:
            os.makedirs(os.path.dirname(path), exist_ok=True)
            with open(path, "w", encoding="utf-8") as f:
                f.write(body)
        from props import c20_learner
        notes += c20_learner.write_generated(lean.LEAN_DIR)
        return notes

    # ---- values
    def gen_numbers(self, rng, pool, k, state):
        out = []
        for _ in range(k):
            if pool == "primes":
                p = PRIMES[state["p"] % len(PRIMES)]
                state["p"] += 1
                out.append({"n": [p, 1]})
            elif pool == "small":
                out.append({"n": [rng.choice([0, 1, 1, 2, 2, 3, -1, -2, 5]), 1]})
            elif pool == "bigint":
                # exact Python ints beyond double precision (a float detour loses digits)
                out.append({"n": [rng.choice([2 ** 53 + 1, 3000000019, 2147483647, 2147483629, 4611686018427387847, 2 ** 62 + 135,
                                              9007199254740993, 3000000007, 3, 2, 7, -(2 ** 53 + 3), 10 ** 17 + 3]), 1]})
            elif pool == "fractions":
                out.append({"n": [rng.choice([1, 2, 3, 5, 7, -4, 11, 10 ** 17 + 3, 2 ** 53 + 1]), rng.choice([1, 3, 3, 7, 9, 10, 2 ** 53 - 1])], "q": True})
            elif pool == "floats":
                # arbitrary doubles: products round; compared at the tolerance of theorem encode_float_model
                x = rng.choice([0.1, 0.3, 1 / 3, 2.7, 1.1, -0.7, 12.34, 1e-3, 3.14159, 0.0, 7.0, 0.9999999, 123.456, -2.5e-2, 1.7e2])
                if rng.chance(0.5):
                    x = x * rng.randint(1, 97) / rng.randint(1, 89)
                a, b = float(x).as_integer_ratio()
                out.append({"n": [a, b], "f": True, "r": True})
            else:
                out.append({"n": [rng.choice([1, 3, 5, 7, -3, 9, 11]), rng.choice([1, 2, 2, 4])], "f": True})
        return out

    def gen_val(self, rng, kindw, pool, state, nmax):
        kind = W(rng, kindw)
        nw = [(0, 1), (1, 2), (2, 4), (3, 5), (4, 5), (5, 2), (6, 1)]
        n = min(W(rng, nw), nmax)
        if kind == "none":
            return {"k": "none"}
        if kind == "empty":
            return {"k": "dense", "v": [], "wrap": rng.choice(["list", "list", "tuple"])}
        if kind == "scalar":
            if rng.chance(0.2):
                zero_f = {"n": [0, 1], "f": True} if pool in ("dyadic", "floats") else {"n": [0, 1]}
                return {"k": "scalar", "v": rng.choice([{"n": [0, 1]}, zero_f, {"n": [1, 1]}, {"n": [-1, 1]}])}
            return {"k": "scalar", "v": self.gen_numbers(rng, pool, 1, state)[0]}
        if kind == "scalar_str":
            return {"k": "scalar", "v": {"s": rng.choice(["abc", "d", "0", "", "x1"])}}
        if kind == "dense":
            return {"k": "dense", "v": self.gen_numbers(rng, pool, n, state), "wrap": W(rng, [("list", 8), ("tuple", 3), ("lazy", 1), ("hashable", 1), ("head", 1), ("encode", 1), ("keep", 1)])}
        if kind == "dense_str":
            items = self.gen_numbers(rng, pool, max(n, 1), state)
            for i in range(len(items)):
                if rng.chance(0.5):
                    items[i] = {"s": rng.choice(["a", "b", "c", "dd", "1", ""])}
            if not any("s" in i for i in items):
                items[rng.below(len(items))] = {"s": "s"}
            return {"k": "dense", "v": items, "wrap": rng.choice(["list", "tuple"])}
        # sparse
        keys = []
        style = rng.below(5)
        names = ["p", "q", "r", "k1", "k11", "w", "1", "2", "11", "feat"]
        coll = rng.shuffle(["1", "11", "1x1", "x1", "1%s1" % "x", "111"])
        for i in range(n):
            if style == 0:
                keys.append({"s": names[i]})
            elif style == 1:
                keys.append({"i": i + rng.choice([0, 0, 1, 10])})
            elif style == 2:
                keys.append(rng.choice([{"s": rng.choice(names)}, {"i": rng.randint(0, 12)}]))
                if rng.chance(0.08):
                    keys[-1] = rng.choice([{"b": True}, {"b": False}, {"fl": [1, 1]}, {"fl": [0, 1]}, {"fl": [5, 2]}, {"fl": [rng.randint(0, 12), 1]}])
            elif style == 3:
                keys.append({"s": "%s%d" % (rng.choice(["c", "", "1"]), i)})
            else:
                keys.append({"s": coll[i % len(coll)]})
        seen, ks = set(), []
        for k in keys:
            kk = json.dumps(k)
            if kk not in seen:
                seen.add(kk)
                ks.append(k)
        vals = self.gen_numbers(rng, pool, len(ks), state)
        for i in range(len(vals)):
            if rng.chance(0.2):
                vals[i] = {"s": rng.choice(["z", "a", "1", "lv"])}
        return {"k": "sparse", "v": [[k, v] for k, v in zip(ks, vals)], "wrap": W(rng, [("dict", 8), ("lazy", 1), ("hashable", 1), ("proxy", 1), ("userdict", 1), ("chainmap", 1), ("ordered", 1), ("custom", 1), ("encode", 1), ("drop", 1)])}

    def gen_term(self, rng, letters, focus):
        if focus:
            px = W(rng, [(0, 1), (1, 1), (2, 2), (3, 5), (4, 6), (5, 4), (6, 1)])
            pa = W(rng, [(0, 6), (1, 3), (2, 2), (3, 2), (4, 1)])
        else:
            px = W(rng, [(0, 3), (1, 6), (2, 6), (3, 5), (4, 4), (5, 2)])
            pa = W(rng, [(0, 5), (1, 6), (2, 4), (3, 2), (4, 1)])
        if rng.chance(0.2):
            px, pa = pa, px
        cnt = {letters[0]: px, letters[1]: pa}
        if len(letters) > 2:
            cnt[letters[2]] = W(rng, [(0, 4), (1, 4), (2, 2), (3, 1)])
        if sum(cnt.values()) == 0:
            cnt[rng.choice(letters)] = 1
        s = "".join(c * k for c, k in cnt.items())
        arr = rng.below(100)
        if arr < 55:
            return s
        if arr < 70:
            return s[::-1]
        return "".join(rng.shuffle(list(s)))

    def gen_collision(self, rng):
        """feature names chosen so that different monomials get the same concatenated name (dict: later wins)"""
        ps = rng.shuffle(PRIMES[:8])
        sp = lambda kvs: {"k": "sparse", "v": [[{"s": k}, {"n": [v, 1]}] for k, v in kvs], "wrap": "dict"}
        if rng.chance(0.5):
            x = sp(rng.shuffle([("1", ps[0]), ("1x1", ps[1]), ("q", ps[2])])[:rng.randint(2, 3)])
            terms = rng.shuffle(["x", "xx"] + rng.choice([[], ["xxx"], ["xa"]]))
            ns = [["x", x], ["a", sp([("k", ps[3])])]]
        else:
            x = sp(rng.shuffle([("1", ps[0]), ("1a2", ps[1])]))
            a = sp(rng.shuffle([("3", ps[2]), ("2a3", ps[3])]))
            terms = rng.shuffle(["xa"] + rng.choice([[], ["x"], ["xxa"], ["a"]]))
            ns = [["x", x], ["a", a]]
        if rng.chance(0.4):
            terms.insert(rng.below(len(terms) + 1), {"n": [rng.choice([1, 2, -1]), 1]})
        return {"terms": terms, "ns": ns}

    def gen_caller(self, rng):
        kind = rng.choice(["linucb", "lints", "synthetic", "synthetic_env", "synthetic_env"])
        P = lambda k, off: {"k": "dense", "v": [{"n": [p, 1]} for p in PRIMES[off:off + k]], "wrap": "list"}
        n = W(rng, [(1, 3), (2, 5), (3, 4), (4, 2)])
        feats = [self.gen_term(rng, ["x", "a"], False)[:6] for _ in range(n)]
        if rng.chance(0.3):
            feats.insert(rng.below(len(feats) + 1), rng.choice(feats))
        if rng.chance(0.35):
            feats += rng.choice([["x"], ["a"], ["xx"], ["x", "xa"]])
        if kind in ("synthetic", "synthetic_env"):
            shape = W(rng, [("list", 4), ("tuple", 3), ("str", 4)])
            if shape == "str":      # a single term given as a bare str is ONE term
                feats = [rng.choice([f for f in feats if len(f) > 1] or ["xa"])]
            c = {"kind": kind, "features": feats, "shape": shape, "nctx": rng.choice([0, 1, 2, 2, 3]), "nact": rng.choice([0, 1, 2, 2]), "seed": rng.randint(1, 5)}
            if kind == "synthetic_env" and rng.chance(0.3):
                c["seeds"] = [rng.randint(1, 5), rng.randint(6, 9)]
            return {"caller": c}
        for _ in range(W(rng, [(0, 3), (1, 5), (2, 2)])):
            feats.insert(0 if rng.chance(0.6) else rng.below(len(feats) + 1), rng.choice([{"n": [1, 1]}, {"n": [1, 1]}, {"n": [0, 1]}, {"n": [2, 1]}, {"n": [1, 1], "f": True}]))
        if rng.chance(0.08):
            feats.insert(rng.below(len(feats) + 1), "")
        ctx = W(rng, [({"k": "none"}, 4), ({"k": "dense", "v": [], "wrap": "list"}, 2), (P(rng.randint(1, 3), 0), 6), ({"k": "scalar", "v": {"n": [7, 1]}}, 1)])
        na = rng.randint(1, 3)
        acts = [{"k": "dense", "v": [{"n": [PRIMES[4 + i * 3 + j], 1]} for j in range(na)], "wrap": rng.choice(["list", "tuple"])} for i in range(2)]
        c = {"kind": kind, "features": feats, "shape": rng.choice(["list", "list", "tuple"]), "context": ctx, "actions": acts}
        if ctx["k"] == "none" and rng.chance(0.05):
            c["hashseeds"] = [0, 1, 2, 3]
        return {"caller": c}

    def generate(self, rng, tier, focus=False):
        if not focus and rng.chance(0.06):
            return self.gen_caller(rng)
        if rng.chance(0.05 if not focus else 0.1):
            from props import c20_learner
            return c20_learner.gen(rng, PRIMES, W)
        if not focus and rng.chance(0.03):
            return self.gen_floatmul(rng)
        case = self.gen_call(rng, tier, focus)
        self.subclass_strings(rng, case["ns"])
        if rng.chance(0.45 if not focus else 0.6):
            self.add_history(rng, case, tier)
        if rng.chance(0.3):
            self.add_copies(rng, case)
        if rng.chance(0.1):
            self.add_own(rng, case)
        return case

    def add_copies(self, rng, case):
        """some calls go to a copy of the encoder made through pickle / copy.deepcopy / copy.copy (as when a learner is
        sent to a worker process); term lists with numeric constants (several, or constants only) are favoured"""
        n = len(calls_of(case))
        cps = []
        for i in range(n):
            cps.append({"op": rng.choice(["pickle", "pickle", "deepcopy", "copy"]), "keep": rng.chance(0.5)} if rng.chance(0.6 if i == 0 else 0.4) else None)
        if not any(cps):
            cps[rng.below(n)] = {"op": rng.choice(["pickle", "deepcopy", "copy"]), "keep": rng.chance(0.5)}
        case["copies"] = cps
        ncon = sum(1 for t in case["terms"] if not isinstance(t, str))
        if ncon == 0 and rng.chance(0.75):
            for _ in range(rng.choice([1, 1, 2, 3])):
                case["terms"].insert(0 if rng.chance(0.5) else rng.below(len(case["terms"]) + 1), {"n": [rng.choice([1, 1, 2, 3, -1]), 1]})
        if rng.chance(0.06):
            case["terms"] = [t for t in case["terms"] if not isinstance(t, str)] or [{"n": [1, 1]}]

    def subclass_strings(self, rng, ns):
        """string values may be str subclasses (coba.primitives.Categorical, a trivial subclass)"""
        if not rng.chance(0.35):
            return
        for _, v in ns:
            its = [v["v"]] if v["k"] == "scalar" else v["v"] if v["k"] == "dense" else [it for _, it in v["v"]] if v["k"] == "sparse" else []
            for it in its:
                if "s" in it and rng.chance(0.6):
                    it["sc"] = rng.choice(["cat", "sub"])

    def vary(self, rng, v, state, pool="primes"):
        """same container type, different contents; sequences may gain or lose their strings"""
        v = json.loads(json.dumps(v))
        v.pop("obj", None)
        if v["k"] == "dense":
            items = v["v"]
            has_str = any("s" in it for it in items)
            r = rng.below(100)
            if has_str and r < 45:
                items = [it if "n" in it else self.gen_numbers(rng, pool, 1, state)[0] for it in items]
            elif not has_str and items and r < 35:
                items[rng.below(len(items))] = {"s": rng.choice(["a", "b", "red", ""])}
            else:
                items = [it if ("s" in it or rng.chance(0.3)) else self.gen_numbers(rng, pool, 1, state)[0] for it in items]
                if items and rng.chance(0.25):
                    items = items[:-1]
                elif len(items) < 5 and rng.chance(0.3):
                    items.append(self.gen_numbers(rng, pool, 1, state)[0])
            v["v"] = items
        elif v["k"] == "sparse":
            kvs = [[k, it if ("s" in it and rng.chance(0.6)) else (self.gen_numbers(rng, pool, 1, state)[0] if rng.chance(0.8) else {"s": "z"})] for k, it in v["v"]]
            if kvs and rng.chance(0.25):
                kvs = kvs[1:]
            v["v"] = kvs
        elif v["k"] == "scalar":
            v["v"] = {"s": rng.choice(["abc", "d", "q"])} if "s" in v["v"] else self.gen_numbers(rng, pool, 1, state)[0]
        return v

    def add_history(self, rng, case, tier):
        """further encode() calls on the same encoder object"""
        state = {"p": 9}
        n = W(rng, [(1, 6), (2, 3), (3, 1)])
        mode = W(rng, [("vary", 40), ("same-object", 30), ("alternate", 20), ("repeat", 10)])
        hist, prev = [], case["ns"]
        if mode == "same-object":
            k = 0
            for _, v in prev:
                if (v["k"] == "dense" and v.get("wrap", "list") == "list") or (v["k"] == "sparse" and v.get("wrap", "dict") == "dict"):
                    v["obj"] = k
                    k += 1
                elif v["k"] == "dense" and rng.chance(0.7):
                    v["wrap"], v["obj"] = "list", k
                    k += 1
        for _ in range(n):
            if mode == "alternate" or (mode != "repeat" and rng.chance(0.15)):
                other = self.gen_call(rng, tier, False)
                ns = [[c, v] for c, v in other["ns"]]
                self.subclass_strings(rng, ns)
            elif mode == "repeat":
                ns = json.loads(json.dumps(prev))
            else:
                ns = []
                # keep every product exact: a call with floats only receives small dyadic floats
                its = [it for it in all_items({"ns": prev}) if "n" in it]
                small = all(abs(it["n"][0]) < 2 ** 20 for it in its)
                pool = ("fractions" if any(it.get("q") for it in its)
                        else "floats" if any(it.get("r") for it in its)
                        else "dyadic" if (any(it.get("f") for it in its) and small) else "primes")
                for c, v in prev:
                    v2 = self.vary(rng, v, state, pool)
                    if mode == "same-object" and "obj" in v:
                        v2["obj"] = v["obj"]
                    ns.append([c, v2])
                if rng.chance(0.1) and len(ns) > 1:
                    ns = ns[:-1]
            hist.append(ns)
            prev = ns
        case["hist"] = hist
        for i, ns in enumerate(hist):
            t = self.trim({"terms": case["terms"], "ns": ns})
            hist[i] = t["ns"]

    def gen_call(self, rng, tier, focus=False):
        if not focus and rng.chance(0.03):
            return self.gen_collision(rng)
        letters = ["x", "a"]
        if rng.chance(0.12):
            letters.append(rng.choice(["z", "b"]))
        nterms = W(rng, [(0, 1), (1, 12), (2, 12), (3, 8), (4, 3)])
        if focus:
            nterms = W(rng, [(1, 10), (2, 6), (3, 2)])
        strs = [self.gen_term(rng, letters, focus) for _ in range(nterms)]
        if strs and rng.chance(0.10):
            strs.insert(rng.below(len(strs) + 1), rng.choice(strs))
        terms = list(strs)
        ncon = W(rng, [(0, 10), (1, 6), (2, 4), (3, 1)])
        cpool = [{"n": [1, 1]}, {"n": [1, 1]}, {"n": [2, 1]}, {"n": [-1, 1]}, {"n": [0, 1]}, {"n": [1, 2], "f": True}, {"n": [5, 2], "f": True}, {"n": [1, 1], "f": True}, {"n": [3, 1]}]
        same = rng.chance(0.5)
        first = rng.choice(cpool)
        for i in range(ncon):
            c = first if (same or i == 0) else rng.choice(cpool)
            pos = 0 if rng.chance(0.45) else rng.below(len(terms) + 1)
            terms.insert(pos, dict(c))
        # namespaces
        call = W(rng, [("dense", 45), ("sparse", 30), ("mixed", 25)])
        pool = W(rng, [("primes", 46), ("small", 10), ("dyadic", 10), ("floats", 14), ("bigint", 12), ("fractions", 8)])
        if call == "dense":
            kindw = [("dense", 74), ("scalar", 8), ("none", 6), ("empty", 6), ("absent", 5)]
        elif call == "sparse":
            kindw = [("sparse", 55), ("scalar_str", 8), ("dense_str", 12), ("dense", 8), ("none", 4), ("empty", 4), ("scalar", 3), ("absent", 4)]
        else:
            kindw = [("dense", 30), ("sparse", 20), ("scalar", 10), ("scalar_str", 6), ("dense_str", 8), ("none", 8), ("empty", 8), ("absent", 5)]
        maxdeg = {c: max([t.count(c) for t in strs] + [0]) for c in letters}
        state = {"p": 0}
        ns = []
        for c in letters:
            nmax = 6
            if pool in ("dyadic", "floats"):
                nmax = 4
            if maxdeg[c] >= 5:
                nmax = min(nmax, 5)
            kw2 = kindw
            if focus:
                kw2 = [("dense", 70), ("sparse", 20), ("absent", 5), ("none", 5)] if call != "sparse" else [("sparse", 80), ("dense", 10), ("absent", 5), ("none", 5)]
            kind = W(rng, kw2)
            if kind == "absent":
                continue
            if focus and maxdeg[c] >= 3:
                v = self.gen_val(rng, [(kind, 1)], pool, state, nmax)
                if v["k"] in ("dense", "sparse") and len(v["v"]) < 3:
                    need = rng.choice([3, 4, 4, 5]) - len(v["v"])
                    extra = self.gen_numbers(rng, pool, need, state)
                    if v["k"] == "dense":
                        v["v"] += extra
                    else:
                        v["v"] += [[{"s": "e%d" % i}, e] for i, e in enumerate(extra)]
            else:
                v = self.gen_val(rng, [(kind, 1)], pool, state, nmax)
            ns.append([c, v])
        if rng.chance(0.08):
            ns.append(["u", self.gen_val(rng, [("dense", 3), ("scalar_str", 1), ("sparse", 1), ("none", 1)], pool, state, 3)])
        if len(ns) > 1 and rng.chance(0.25):
            ns = rng.shuffle(ns)
        case = {"terms": terms, "ns": ns}
        return self.trim(case)

    def trim(self, case, limit=4000):
        """keep the expected output small: drop trailing features of the largest namespace"""
        for _ in range(40):
            o = Oracle(case)
            if o.size() <= limit:
                break
            big = max(case["ns"], key=lambda nv: len(nv[1].get("v", [])) if nv[1]["k"] in ("dense", "sparse") else 0)
            if big[1]["k"] not in ("dense", "sparse") or len(big[1]["v"]) <= 1:
                break
            big[1]["v"] = big[1]["v"][:-1]
        return case

    def search(self, rng, tier):
        return self.generate(rng, tier, focus=True)

    # ---- finite sweeps and boundary corpus
    def single(self, n, d, mode, extra_terms=(), a=None):
        if mode == "dense":
            xv = {"k": "dense", "v": [{"n": [p, 1]} for p in PRIMES[:n]], "wrap": "list"}
        elif mode == "strings":
            xv = {"k": "dense", "v": [{"s": chr(ord("a") + i)} for i in range(n)], "wrap": "list"}
        else:
            xv = {"k": "sparse", "v": [[{"s": "k%d" % i}, {"n": [p, 1]}] for i, p in enumerate(PRIMES[:n])], "wrap": "dict"}
        ns = [["x", xv]]
        if a is not None:
            ns.append(["a", a])
        return {"terms": ["x" * d] + list(extra_terms), "ns": ns}

    def exhaustive(self, tier):
        out = []
        for n in range(0, 7):
            for d in range(1, 7):
                for mode in ("dense", "sparse", "strings"):
                    out.append(self.single(n, d, mode))
                if n * d <= 20:
                    out.append(self.single(n, d, "dense", extra_terms=("xa", "a" * min(d, 3)), a={"k": "dense", "v": [{"n": [p, 1]} for p in PRIMES[10:10 + min(n, 3)]], "wrap": "tuple"}))
        return out

    def corpus(self):
        P = lambda *ps: {"k": "dense", "v": [{"n": [p, 1]} for p in ps], "wrap": "list"}
        one = {"n": [1, 1]}
        D = lambda *its: {"k": "dense", "v": list(its), "wrap": "list"}
        cs = [
            self.single(3, 4, "dense"), self.single(4, 3, "dense"), self.single(3, 3, "dense"), self.single(2, 6, "dense"),
            self.single(5, 5, "dense"), self.single(3, 4, "sparse"), self.single(4, 3, "strings"), self.single(1, 5, "dense"),
            self.single(0, 2, "dense"),
            {"terms": [one, one, "x", "a"], "ns": [["x", P(2)], ["a", P(3)]]},
            {"terms": ["x", one, "x"], "ns": [["x", P(2, 3)]]},
            {"terms": ["x", "x"], "ns": [["x", P(2, 3)]]},
            {"terms": ["x", one, "x", "a", "a"], "ns": [["x", P(2, 3)], ["a", P(5)]]},
            {"terms": ["xa"], "ns": [["x", P(2, 3)]]},
            {"terms": ["xa", "x"], "ns": [["x", {"k": "sparse", "v": [[{"s": "p"}, {"n": [2, 1]}]], "wrap": "dict"}]]},
            {"terms": ["xa"], "ns": [["x", P(2, 3)], ["a", {"k": "none"}]]},
            {"terms": ["xa", "a"], "ns": [["x", P()], ["a", P(5, 7)]]},
            {"terms": ["xa"], "ns": [["x", P(2, 3)], ["a", {"k": "scalar", "v": {"n": [7, 1]}}]]},
            {"terms": ["x"], "ns": [["x", P(2, 3)], ["a", {"k": "scalar", "v": {"s": "s"}}]]},
            {"terms": ["ax", "xa", "xax", {"n": [5, 2], "f": True}], "ns": [["x", P(2, 3)], ["a", P(5, 7)]]},
            {"terms": ["xa", {"n": [3, 1]}], "ns": [["x", {"k": "dense", "v": [{"s": "u"}, {"n": [3, 1]}], "wrap": "list"}], ["a", {"k": "dense", "v": [{"n": [5, 1]}, {"s": "w"}], "wrap": "tuple"}]]},
            {"terms": ["xx"], "ns": [["x", {"k": "sparse", "v": [[{"i": 1}, {"n": [2, 1]}], [{"s": "1"}, {"n": [3, 1]}]], "wrap": "dict"}]]},
            {"terms": ["xx"], "ns": [["x", {"k": "sparse", "v": [[{"s": "1"}, {"n": [2, 1]}], [{"s": "11"}, {"n": [3, 1]}], [{"s": "1x1"}, {"n": [5, 1]}]], "wrap": "dict"}]]},
            {"terms": ["xx"], "ns": [["x", {"k": "sparse", "v": [[{"s": "1"}, {"s": "2"}], [{"i": 12}, {"n": [7, 1]}], [{"s": "12"}, {"n": [5, 1]}]], "wrap": "dict"}]]},
            {"terms": ["c", {"n": [2, 1]}], "ns": [["c", {"k": "sparse", "v": [[{"s": "onst"}, {"n": [3, 1]}]], "wrap": "dict"}]]},
            {"terms": ["x", "xx"], "ns": [["x", {"k": "sparse", "v": [[{"s": "1"}, {"n": [2, 1]}], [{"s": "1x1"}, {"n": [3, 1]}]], "wrap": "dict"}]]},
            {"terms": ["xa"], "ns": [["x", {"k": "sparse", "v": [[{"s": "1"}, {"n": [2, 1]}], [{"s": "1a2"}, {"n": [3, 1]}]], "wrap": "dict"}], ["a", {"k": "sparse", "v": [[{"s": "2a3"}, {"n": [5, 1]}], [{"s": "3"}, {"n": [7, 1]}]], "wrap": "dict"}]]},
            {"terms": [""], "ns": [["x", P(2)]]},
            {"terms": [{"n": [0, 1]}, "x"], "ns": [["x", P(2, 3)]]},
            {"terms": [], "ns": [["x", P(2, 3)]]},
            {"terms": [{"n": [2, 1]}], "ns": []},
            {"terms": ["xxxa", "aaa"], "ns": [["a", P(2, 3, 5, 7)], ["x", P(11, 13, 17)]]},
            {"terms": ["xxxxaaa"], "ns": [["x", P(2, 3, 5)], ["a", P(7, 11, 13, 17)]]},
            # copies of the encoder (pickle / deepcopy / copy) and exact big values (seeded round c20c: c-m2, c-m4)
            {"terms": [one], "ns": [], "copies": [{"op": "copy", "keep": False}]},
            {"terms": [one, {"n": [2, 1]}, "x"], "ns": [["x", P(2, 3)]], "hist": [[["x", D({"s": "b"}, {"n": [3, 1]})]], [["x", P(5)]]],
             "copies": [{"op": "pickle", "keep": True}, None, {"op": "deepcopy", "keep": False}]},
            {"terms": ["xa", {"n": [3, 1]}], "ns": [["x", P(2, 3)], ["a", {"k": "scalar", "v": {"s": "s"}}]], "copies": [{"op": "deepcopy", "keep": True}]},
            {"terms": ["xa"], "ns": [["x", {"k": "sparse", "wrap": "dict", "v": [[{"s": "p"}, {"n": [3000000019, 1]}]]}], ["a", D({"n": [3000000007, 1]})]]},
            {"terms": ["xx", "x"], "ns": [["x", D({"n": [2 ** 53 + 1, 1]}, {"s": "t"}, {"n": [4611686018427387847, 1]})]]},
            {"terms": ["xx", "x"], "ns": [["x", D({"n": [2 ** 53 + 1, 1]}, {"n": [4611686018427387847, 1]})]]},
            {"terms": ["xa", {"n": [1, 3], "q": True}], "ns": [["x", D({"n": [1, 3], "q": True}, {"n": [10 ** 17 + 3, 7], "q": True})], ["a", {"k": "sparse", "wrap": "dict", "v": [[{"s": "k"}, {"n": [2, 9], "q": True}]]}]]},
            # namespace container flavours (seeded round c20f: fm2): every Mapping flavour sparse, every coba Dense flavour dense, mixed
            {"terms": ["xa", "xx"], "ns": [["x", {"k": "sparse", "wrap": "proxy", "v": [[{"s": "p"}, {"n": [2, 1]}], [{"s": "q"}, {"n": [3, 1]}]]}], ["a", {"k": "dense", "wrap": "tuple", "v": [{"n": [5, 1]}, {"n": [7, 1]}]}]]},
            {"terms": ["xa", "xx"], "ns": [["x", {"k": "sparse", "wrap": "userdict", "v": [[{"s": "p"}, {"n": [2, 1]}], [{"s": "q"}, {"n": [3, 1]}]]}], ["a", {"k": "dense", "wrap": "head", "v": [{"n": [5, 1]}, {"n": [7, 1]}]}]]},
            {"terms": ["xa", "xx"], "ns": [["x", {"k": "sparse", "wrap": "chainmap", "v": [[{"s": "p"}, {"n": [2, 1]}], [{"s": "q"}, {"n": [3, 1]}]]}], ["a", {"k": "dense", "wrap": "encode", "v": [{"n": [5, 1]}, {"n": [7, 1]}]}]]},
            {"terms": ["xa", "xx"], "ns": [["x", {"k": "sparse", "wrap": "ordered", "v": [[{"s": "p"}, {"n": [2, 1]}], [{"s": "q"}, {"n": [3, 1]}]]}], ["a", {"k": "dense", "wrap": "keep", "v": [{"n": [5, 1]}, {"n": [7, 1]}]}]]},
            {"terms": ["xa", "xx"], "ns": [["x", {"k": "sparse", "wrap": "custom", "v": [[{"s": "p"}, {"n": [2, 1]}], [{"s": "q"}, {"n": [3, 1]}]]}], ["a", {"k": "dense", "wrap": "hashable", "v": [{"n": [5, 1]}, {"n": [7, 1]}]}]]},
            {"terms": ["xa", "xx"], "ns": [["x", {"k": "sparse", "wrap": "encode", "v": [[{"s": "p"}, {"n": [2, 1]}], [{"s": "q"}, {"n": [3, 1]}]]}], ["a", {"k": "dense", "wrap": "lazy", "v": [{"n": [5, 1]}, {"n": [7, 1]}]}]]},
            {"terms": ["xa", "xx"], "ns": [["x", {"k": "sparse", "wrap": "drop", "v": [[{"s": "p"}, {"n": [2, 1]}], [{"s": "q"}, {"n": [3, 1]}]]}], ["a", {"k": "dense", "wrap": "list", "v": [{"n": [5, 1]}, {"n": [7, 1]}]}]]},
            {"terms": ["xa"], "ns": [["x", {"k": "sparse", "wrap": "custom", "v": [[{"s": "p"}, {"s": "v"}]]}], ["a", {"k": "sparse", "wrap": "proxy", "v": [[{"i": 1}, {"n": [3, 1]}]]}]]},
            {"terms": ["xxa"], "ns": [["x", {"k": "dense", "wrap": "keep", "v": [{"n": [2, 1]}, {"n": [3, 1]}, {"n": [5, 1]}]}], ["a", {"k": "dense", "wrap": "head", "v": [{"n": [7, 1]}]}]]},
            # the callers with their default term lists
            {"caller": {"kind": "linucb", "features": None, "context": P(2, 3), "actions": [P(5, 7), P(11, 13)]}},
            {"caller": {"kind": "linucb", "features": None, "context": {"k": "none"}, "actions": [P(5, 7), P(11, 13)]}},
            {"caller": {"kind": "lints", "features": None, "context": P(2, 3), "actions": [P(5), P(11)]}},
            {"caller": {"kind": "lints", "features": None, "context": {"k": "dense", "v": [], "wrap": "list"}, "actions": [P(5), P(11)]}},
            {"caller": {"kind": "synthetic", "features": None, "nctx": 2, "nact": 2}},
            {"caller": {"kind": "synthetic", "features": None, "nctx": 0, "nact": 2}},
            {"caller": {"kind": "synthetic", "features": None, "nctx": 2, "nact": 0}},
            # the learners' list(set(...)) for an empty context across PYTHONHASHSEED (phase 3)
            {"caller": {"kind": "lints", "features": [one, "a", "ax", "xa", "aa", "aaa"], "shape": "list", "context": {"k": "none"}, "actions": [P(5, 7), P(11, 13)], "hashseeds": [0, 1, 2, 3, 4, 5]}},
            {"caller": {"kind": "linucb", "features": [one, "a", "ax", "xa", "aa", "aaa"], "shape": "list", "context": {"k": "none"}, "actions": [P(5, 7), P(11, 13)], "hashseeds": [0, 1, 2, 3, 4, 5]}},
            # every accepted shape of the term argument through the public entry points (seeded round c20d: d-m1)
            {"caller": {"kind": "synthetic_env", "features": ["xa"], "shape": "str", "nctx": 2, "nact": 3, "seed": 3}},
            {"caller": {"kind": "synthetic_env", "features": ["xxa"], "shape": "str", "nctx": 2, "nact": 2, "seeds": [1, 2]}},
            {"caller": {"kind": "synthetic_env", "features": ["a", "xa"], "shape": "tuple", "nctx": 2, "nact": 2, "seed": 1}},
            {"caller": {"kind": "synthetic_env", "features": ["xa", "xa", "x"], "shape": "list", "nctx": 1, "nact": 2, "seed": 1}},
            {"caller": {"kind": "synthetic_env", "features": None, "nctx": 2, "nact": 2, "seed": 1}},
            {"caller": {"kind": "synthetic_env", "features": ["xa"], "shape": "str", "nctx": 0, "nact": 2, "seed": 1}},
            {"caller": {"kind": "synthetic", "features": ["xa"], "shape": "str", "nctx": 2, "nact": 2, "seed": 1}},
            # the rewards depend on every monomial of repeated-namespace terms (seeded round c20e: em3)
            {"caller": {"kind": "synthetic", "features": ["xxa"], "shape": "list", "nctx": 3, "nact": 2, "seed": 1}},
            {"caller": {"kind": "synthetic_env", "features": ["xx"], "shape": "str", "nctx": 2, "nact": 2, "seed": 2}},
            {"caller": {"kind": "synthetic", "features": ["a", "xa", "xxx", "aa"], "shape": "tuple", "nctx": 3, "nact": 2, "seed": 3}},
            {"caller": {"kind": "synthetic", "features": ["xx", "x"], "shape": "list", "nctx": 3, "nact": 0, "seed": 1}},
            {"caller": {"kind": "synthetic", "features": ["xaa", "a"], "shape": "list", "nctx": 0, "nact": 3, "seed": 1}},
            # requested terms that are letter permutations of one another are DIFFERENT terms ('xa' x-major, 'ax' a-major; 'xxa' / 'xax' /
            # 'axx'): the simulation must build its encoder for every one of them, in the order given (seeded round i: C20-im2)
            *[{"caller": {"kind": kind, "features": fs, "shape": shape, "nctx": nctx, "nact": nact, "seed": seed}}
              for fs, kind, shape, nctx, nact, seed in [
                  (["xa", "ax"], "synthetic", "list", 2, 2, 1), (["xa", "ax"], "synthetic_env", "tuple", 2, 3, 3), (["ax", "xa"], "synthetic", "list", 1, 2, 2),
                  (["a", "xxa", "xax"], "synthetic", "list", 2, 2, 3), (["a", "xxa", "xax"], "synthetic_env", "list", 2, 1, 1),
                  (["ax", "xa", "a"], "synthetic", "tuple", 2, 2, 1), (["ax", "xa", "a"], "synthetic_env", "list", 3, 2, 2),
                  (["xxa", "axx", "xax"], "synthetic", "list", 2, 2, 1), (["xxa", "axx", "xax"], "synthetic_env", "tuple", 2, 1, 3),
                  (["xa", "x", "ax", "xa"], "synthetic", "list", 2, 2, 2), (["aax", "axa", "xaa", "a"], "synthetic", "list", 1, 2, 1),
                  (["xa", "ax", "xxa", "axx"], "synthetic_env", "list", 2, 2, 5)]],
            {"caller": {"kind": "linucb", "features": [one, "a", "ax"], "shape": "tuple", "context": P(2, 3), "actions": [P(5, 7), P(11, 13)]}},
            {"caller": {"kind": "lints", "features": [one, "a", "xxa"], "shape": "tuple", "context": {"k": "none"}, "actions": [P(5), P(11)]}},
            # histories on one encoder object (minimised seeded mutants m2-m4 of round c20b)
            {"terms": ["x", "xx"], "ns": [["x", D({"s": "a"}, {"n": [3, 1]})]], "hist": [[["x", P(2, 3)]], [["x", D({"n": [5, 1]}, {"s": "b"})]]]},
            {"terms": ["x", "xx"], "ns": [["x", P(2, 3)]], "hist": [[["x", D({"s": "a"}, {"n": [3, 1]})]], [["x", P(5, 7)]]]},
            {"terms": ["xa"], "ns": [], "hist": [[["x", D({"s": ""})]]]},
            {"terms": ["xx", "xa"], "ns": [["x", dict(P(2, 3), obj=0)], ["a", dict(P(5), obj=1)]],
             "hist": [[["x", dict(P(7, 11), obj=0)], ["a", dict(P(5), obj=1)]], [["x", dict(P(7, 11, 13), obj=0)], ["a", dict(P(17, 19), obj=1)]]]},
            {"terms": ["xx"], "ns": [["x", {"k": "sparse", "obj": 0, "wrap": "dict", "v": [[{"s": "p"}, {"n": [2, 1]}], [{"s": "q"}, {"n": [3, 1]}]]}]],
             "hist": [[["x", {"k": "sparse", "obj": 0, "wrap": "dict", "v": [[{"s": "p"}, {"n": [5, 1]}], [{"s": "r"}, {"s": "v"}]]}]]]},
            {"terms": ["x"], "ns": [["x", {"k": "scalar", "v": {"s": "d", "sc": "cat"}}]]},
            {"terms": ["xx", "xa"], "ns": [["x", D({"s": "red", "sc": "cat"}, {"n": [3, 1]})], ["a", D({"n": [5, 1]}, {"s": "s", "sc": "sub"})]]},
            {"terms": ["xa"], "ns": [["x", {"k": "sparse", "wrap": "dict", "v": [[{"i": 1}, {"s": "red", "sc": "cat"}], [{"s": "k"}, {"n": [3, 1]}]]}], ["a", {"k": "scalar", "v": {"s": "t", "sc": "sub"}}]]},
        ]
        # goal-3 witnesses (phase 5): the non-vacuity example of `sparse_call_faithful_of_equal_length` and the regrouping witness of
        # `sparse_call_no_collision_counterexample` (`xxa`,`xax` list the same monomials twice); the `c`+`onst` witness is above
        SP = lambda *kv: {"k": "sparse", "v": [[{"s": k}, {"n": [v, 1]}] for k, v in kv], "wrap": "dict"}
        cs += [{"terms": ["x", "xa", "xxa"], "ns": [["x", SP(("p", 2), ("q", 3))], ["a", SP(("k", 5))]]},
               {"terms": ["xxa", "xax"], "ns": [["x", SP(("p", 2))], ["a", SP(("k", 5))]]}]
        cs += self.size_family()
        # phase 6: the witness of theorem own_keep_terms_counterexample (the caller extends its term list after construction), then the family
        cs.append({"terms": ["x"], "ns": [["x", {"k": "dense", "v": [{"n": [2, 1]}], "wrap": "list"}]], "own": {"terms": "extend-self", "at": 0}})
        cs += self.own_family()
        cs += self.key_family()
        from props import c20_learner
        cs += c20_learner.corpus()
        return cs

    SIZES = (1, 2, 63, 64, 65, 100, 257)

    def key_family(self):
        """phase 6 (deterministic, every tier): key kinds. Histories on ONE encoder whose sparse namespaces are keyed by ints, then by
        the bools / floats that Python's dict (and any cache keyed by the key object) identifies with them - 1 / True / 1.0, 0 / False /
        0.0 - in every order, with positional keys of a dense vector on the mapping path in between; mixed dicts ({1:…, True:…} is ONE
        entry); string-valued entries under bool / float keys; True / 1.0 among the numeric entries of the term list"""
        def Sp(kv):
            return {"k": "sparse", "wrap": "dict", "v": [[{"b": k} if isinstance(k, bool) else {"i": k} if isinstance(k, int) else {"fl": [int(k * 2), 2]} if isinstance(k, float) else {"s": k},
                                                          {"s": x} if isinstance(x, str) else {"n": [x, 1]}] for k, x in kv]}
        ints, bools, floats = Sp([(1, 2), (0, 3)]), Sp([(True, 5), (False, 7)]), Sp([(1.0, 11), (2.5, 13), (0.0, 17)])
        dense = {"k": "dense", "wrap": "list", "v": [{"n": [19, 1]}, {"n": [23, 1]}]}
        strs = Sp([(True, "red"), (1.5, "b"), ("k", 29)])
        mixed = Sp([(1, 2), (True, 3), (1.0, 5), ("1", 7), (0, 11), (False, 13)])
        a = {"k": "scalar", "v": {"s": "b"}}
        out = []
        for tl in (["x", "xa"], ["xx"], [{"n": [1, 1], "b": True}, "x"], [{"n": [1, 1], "f": True}, {"n": [1, 1]}, {"n": [1, 1], "b": True}, "ax"]):
            for order in itertools.permutations([ints, bools, floats]):
                cs = [[["x", json.loads(json.dumps(v))], ["a", a]] for v in order]
                out.append({"terms": json.loads(json.dumps(tl)), "ns": cs[0], "hist": cs[1:]})
            for first in (dense, ints):
                cs = [[["x", json.loads(json.dumps(v))], ["a", a]] for v in (first, bools, strs, mixed, first)]
                out.append({"terms": json.loads(json.dumps(tl)), "ns": cs[0], "hist": cs[1:]})
            for v in (bools, floats, strs, mixed):
                out.append({"terms": json.loads(json.dumps(tl)), "ns": [["x", json.loads(json.dumps(v))]]})
                out.append({"terms": json.loads(json.dumps(tl)), "ns": [["x", dict(json.loads(json.dumps(v)), wrap="custom")], ["a", json.loads(json.dumps(bools))]]})
        return out

    def own_family(self):
        """phase 6 (deterministic, every tier): ownership histories. One encoder, four calls A, A, B, B — the second of each pair
        passes the SAME argument objects again, untouched by the caller — for every in-place edit of the caller's term list
        (none / append / clear / reverse / pop / insert a number / extend) before call 1, 2 or 3, the caller overwriting
        ("scribble") or keeping ("keep") every result it is handed; A/B = dense, sparse, dense-with-a-string, sparse-with-a-string-value in rotation"""
        def D(xs, slot):
            return {"k": "dense", "v": [{"n": [x, 1]} if not isinstance(x, str) else {"s": x} for x in xs], "wrap": "list", "obj": slot}

        def Sp(kv, slot):
            return {"k": "sparse", "v": [[{"s": k}, {"n": [x, 1]} if not isinstance(x, str) else {"s": x}] for k, x in kv], "wrap": "dict", "obj": slot}
        flavours = [[["x", D([2, 3], 0)], ["a", D([5, 7], 1)]],
                    [["x", Sp([("p", 2), ("q", 3)], 2)], ["a", D([5, 7], 1)]],
                    [["x", D([2, "b", 3], 3)], ["a", Sp([("k", 11)], 4)]],
                    [["x", Sp([("p", 2), ("c", "red"), ("q", 3)], 5)], ["a", D([5, 7], 1)]]]
        tls = [["x"], [{"n": [1, 1]}, "x", "xa"], ["xxa", "a"], [{"n": [2, 1]}, {"n": [3, 1]}], ["a", "x", "xa", "xx"]]
        out, i = [], 0
        for edit in [None] + OWN_TERM_EDITS:
            for at in ([0, 1, 2] if edit else [0]):
                for tl in tls:
                    a, b = flavours[i % 4], flavours[(i + 1 + (i // 4) % 3) % 4]
                    cs = json.loads(json.dumps([a, a, b, b]))
                    own = {"result": "scribble" if i % 2 == 0 else "keep"}
                    if edit:
                        own.update(terms=edit, at=at)
                    out.append({"terms": json.loads(json.dumps(tl)), "ns": cs[0], "hist": cs[1:], "own": own})
                    i += 1
        return out

    def add_own(self, rng, case):
        """phase 6: the caller edits what it shares with the encoder (see run_history); plain argument objects are re-passed"""
        calls = calls_of(case)
        if len(calls) == 1 or rng.chance(0.4):      # pass the same objects again, untouched
            k = 0
            for _, v in calls[-1]:
                if "obj" not in v and ((v["k"] == "dense" and v.get("wrap", "list") == "list") or (v["k"] == "sparse" and v.get("wrap", "dict") == "dict")):
                    v["obj"] = 50 + k
                    k += 1
            case.setdefault("hist", []).append(json.loads(json.dumps(calls[-1])))
        own = {}
        if rng.chance(0.7):
            own["terms"] = rng.choice(OWN_TERM_EDITS)
            own["at"] = rng.below(len(calls_of(case)))
        if not own or rng.chance(0.7):
            own["result"] = rng.choice(["scribble", "keep"])
        case["own"] = own

    def size_family(self):
        """round h: DETERMINISTIC sizes of a dense namespace - 1, 2, 63, 64, 65, 100, 257 elements - on the sparse/string path
        (next to a string scalar, a sparse namespace, or with a string inside the vector itself) and on the dense path, degree 1
        and degree 2 (degree 2 on the mapping path up to 65 elements: the model's insertion-ordered dict is quadratic).  Every
        value is distinct, so a lost, truncated or misplaced feature changes the result."""
        out = []
        for n in self.SIZES:
            xs = {"k": "dense", "v": [{"n": [i + 2, 1]} for i in range(n)], "wrap": "list"}
            xt = {"k": "dense", "v": [{"n": [i + 2, 1]} for i in range(n)], "wrap": "tuple"}
            xz = {"k": "dense", "v": [{"n": [i + 2, 1]} for i in range(n - 1)] + [{"s": "z"}], "wrap": "list"}
            sb = {"k": "scalar", "v": {"s": "b"}}
            sk = {"k": "sparse", "v": [[{"s": "k"}, {"n": [5, 1]}]], "wrap": "dict"}
            a2 = {"k": "dense", "v": [{"n": [3, 1]}, {"n": [5, 1]}], "wrap": "list"}
            out += [
                {"terms": ["x", "xa"], "ns": [["x", xs], ["a", sb]]},           # mapping path: string scalar next to the vector
                {"terms": ["x", "xa"], "ns": [["x", xt], ["a", sk]]},           # mapping path: sparse namespace next to the vector
                {"terms": ["x"], "ns": [["x", xz]]},                            # mapping path: a string inside the vector itself
                {"terms": ["x", "xa"], "ns": [["x", xs], ["a", a2]]},           # vector path, degree 1 and the cross
            ]
            if n <= 100:
                out.append({"terms": ["xx"], "ns": [["x", xt]]})                # vector path, degree 2: n(n+1)/2 entries
            if n <= 65:
                out.append({"terms": ["xx"], "ns": [["x", xs], ["a", sb]]})     # mapping path, degree 2
        return out

    # ---- evaluation
    def evaluate(self, case, driver):
        """a case is a history of 1-4 encode() calls on ONE encoder object; encode is a function of (terms,
        arguments) only, so every call is judged on its own, (A)(B)(C), exactly like a single call"""
        if "caller" in case:
            return self.evaluate_caller(case, driver)
        if "learner" in case:
            from props import c20_learner
            from core import lean as _lean
            return c20_learner.evaluate(self, case, driver, {"build_val": build_val, "build_val_plain": build_val_plain, "canon_out": canon_out,
                                                             "py_to_val": py_to_val, "term_to_case": term_to_case, "DriverError": _lean.DriverError})
        if "floatmul" in case:
            return self.evaluate_floatmul(case, driver)
        calls = calls_of(case)
        copies = [c for c in (case.get("copies") or [])][:len(calls)]
        copies += [None] * (len(calls) - len(copies)) if any(copies) else []
        own = case.get("own") or {}
        if len(calls) == 1 and not any(copies) and not own:
            return self.evaluate_call(single(case, 0), run_impl(single(case, 0)), driver)
        notes = []
        impls = run_history(case, notes)
        plain = None      # the same history without copying the encoder (computed when a call on a copy fails)
        plain_own = None  # the same history without the caller's edits of shared objects
        out = {"fails": [], "tags": ["hist:%d" % len(calls)], "nontrivial": False, "impl": [], "model": []}
        for cp in copies:
            if cp:
                out["tags"].append("copy:%s%s" % (cp["op"], ":kept" if cp.get("keep") else ""))
        slots = [v.get("obj") for ns in calls for _, v in ns if v.get("obj") is not None]
        if len(set(slots)) < len(slots):
            out["tags"].append("hist:same-object-changed-in-place")
        if own:
            # phase 6: ownership history. (B) the library must leave caller-owned objects alone ...
            out["tags"] += ["own:terms-" + str(own.get("terms")) + ("@%d" % own.get("at", 0) if own.get("terms") else ""), "own:result-" + str(own.get("result"))]
            specs = [json.dumps([[n, {k: x for k, x in v.items() if k != "obj"}] for n, v in ns], sort_keys=True) for ns in calls]
            if any(specs[i] == specs[j] and set(v.get("obj") for _, v in calls[i] if "obj" in v) & set(v.get("obj") for _, v in calls[j] if "obj" in v)
                   for i in range(len(calls)) for j in range(i)):
                out["tags"].append("own:same-objects-passed-again-untouched")
            for i, sig, what in notes:
                out["fails"].append(F("B", "%s; history: %s" % (what, self.snippet(case).replace("\n", " | ")[:700]), sig))
            # ... (A) and the values returned are those of the model's ownership history `ownRun` (theorem own_history_eq_spec)
            if driver is not None:
                ops = []
                for i, ns in enumerate(calls):
                    if own.get("terms") and own.get("at", 0) == i:
                        edited = own_edit_terms(list(case["terms"]), own["terms"])
                        ops.append({"editTerms": [{"t": t} if isinstance(t, str) else {"n": [5, 1]} if t == 5 else {"n": t["n"]} for t in edited]})
                    ops.append({"encode": to_driver({"terms": [], "ns": [[n, {k: x for k, x in v.items() if k != "obj"}] for n, v in ns]})["ns"]})
                    if own.get("result") == "scribble":
                        ops.append({"editResult": i})
                ans = driver.ask({"op": "own", "terms": to_driver({"terms": case["terms"], "ns": []})["terms"], "ops": ops})
                if len(ans["returned"]) != len(calls) or ans["held"] != len(calls) or ans["encTerms"] != to_driver({"terms": case["terms"], "ns": []})["terms"]:
                    out["fails"].append(F("C", "ownRun returned %d values for %d calls / changed the encoder's terms" % (len(ans["returned"]), len(calls)), "C:own-run"))
                else:
                    for i, m in enumerate(ans["returned"]):
                        one = single(case, i)
                        if not self.same(impls[i], from_model(m), case_tol(one)):
                            out["fails"].append(F("A", "call #%d of an ownership history (%r): the real encoder returned %s, the model's ownRun %s"
                                                  % (i + 1, own, fmt_out(impls[i]), fmt_out(from_model(m))), "A:own-history"))
                    out["tags"].append("own:model-history-agrees" if not any(f["sig"] == "A:own-history" for f in out["fails"]) else "own:model-history-differs")
        kinds = set()
        for i in range(len(calls)):
            one = single(case, i)
            r = self.evaluate_call(one, impls[i], driver)
            kinds.add("sparse" if Oracle(one).sparse else "dense")
            for f in r["fails"]:
                f = dict(f)
                copied = any(copies[:i + 1]) and (bool(copies[i]) or any(c and c.get("keep") for c in copies[:i]))
                if f["kind"] in ("A", "B") and copied:
                    if plain is None:
                        plain = run_history({k: v for k, v in case.items() if k != "copies"})
                    alone = self.evaluate_call(one, plain[i], driver)
                    if not any(g["kind"] == f["kind"] for g in alone["fails"]):
                        f["sig"] = "copy:" + f["sig"]
                        f["what"] = ("a COPY of the encoder (%s) behaves differently from the encoder it was copied from. "
                                     % "/".join(sorted(set(c["op"] for c in copies[:i + 1] if c)))) + f["what"]
                        f["what"] = "call #%d of %d on one encoder: %s" % (i + 1, len(calls), f["what"])
                        out["fails"].append(f)
                        continue
                if f["kind"] in ("A", "B") and own:
                    # phase 6: is the same history right when the caller leaves the shared objects alone?
                    if plain_own is None:
                        plain_own = run_history({k: v for k, v in case.items() if k != "own"})
                    alone = self.evaluate_call(one, plain_own[i], driver)
                    if not any(g["kind"] == f["kind"] for g in alone["fails"]):
                        f["sig"] = "own:" + f["sig"]
                        f["what"] = ("encode() depends on what the CALLER did to objects it owns (%r: the term list it passed to the constructor / results it "
                                     "was handed); the same history without those edits is right. call #%d of %d: %s" % (own, i + 1, len(calls), f["what"]))
                        out["fails"].append(f)
                        continue
                if f["kind"] in ("A", "B") and i > 0:
                    # does the same call on a fresh encoder with fresh argument objects behave?
                    alone = self.evaluate_call(one, run_impl(one), driver)
                    if not any(g["kind"] == f["kind"] for g in alone["fails"]):
                        f["sig"] = "stateful:" + f["sig"]
                        f["what"] = ("encode() depends on earlier calls on the same encoder object (a fresh encoder with fresh "
                                     "arguments gives the right result). ") + f["what"]
                f["what"] = "call #%d of %d on one encoder: %s" % (i + 1, len(calls), f["what"])
                out["fails"].append(f)
            out["tags"] += r["tags"] if i == 0 else [t for t in r["tags"] if t.startswith(("B:", "A:", "result:", "val:"))]
            out["nontrivial"] = out["nontrivial"] or r["nontrivial"]
            out["impl"].append(r["impl"])
            out["model"].append(r["model"])
        if len(kinds) > 1:
            out["tags"].append("hist:dense-and-sparse-calls")
        return out

    def evaluate_floatmul(self, case, driver=None):
        """the ONE remaining assumption of the float theorems, checked on CPython's doubles with exact Fractions:
        fl(a*b) = a*b*(1+eps), |eps| <= 2^-53 (FloatMul), a*1 = a, and fl(a*b) = a*b whenever a*b is a double (ExactOn)"""
        fails, tags = [], ["floatmul"]
        xs = [a / b for a, b in case["floatmul"]]
        acc = xs[0]
        for y in xs[1:]:
            exact = Fraction(acc) * Fraction(y)
            got = acc * y
            if not math.isfinite(got) or (exact != 0 and abs(exact) < Fraction(1, 2 ** 1000)):
                tags.append("floatmul:out-of-range")
                break
            if abs(Fraction(got) - exact) > U53 * abs(exact):
                fails.append(F("C", "float law: %r * %r = %r, exact %s: relative error above 2^-53" % (acc, y, got, exact), "C:floatmul-law"))
            m = exact.numerator
            den = exact.denominator
            if den & (den - 1) == 0 and abs(m) <= 2 ** 53:
                tags.append("floatmul:representable")
                if Fraction(got) != exact:
                    fails.append(F("C", "float law: %r * %r = %r although the exact product %s is a double" % (acc, y, got, exact), "C:floatmul-exact"))
            if acc * 1 != acc or 1 * acc != acc:
                fails.append(F("C", "float law: %r * 1 != itself" % acc, "C:floatmul-one"))
            acc = got
        model = None
        if driver is not None and FL53_TIE:
            # the Lean rounding model `fl53` (round to nearest even, 53 bits, no exponent range) against CPython's doubles, step by step
            from core import lean as _lean
            try:
                model = driver.ask({"op": "fl53", "chain": case["floatmul"]})["prods"]
                acc2 = xs[0]
                for i, y in enumerate(xs):
                    if i > 0:
                        acc2 = acc2 * y
                    if not math.isfinite(acc2) or (acc2 != 0 and abs(acc2) < 2.0 ** -1000) or (acc2 == 0 and i > 0 and xs[i] != 0 and Fraction(model[i][0], model[i][1]) != 0):
                        tags.append("fl53:out-of-range")
                        break
                    if Fraction(model[i][0], model[i][1]) != Fraction(acc2):
                        fails.append(F("A", "rounding model: step %d of the chain %r: CPython gives %r, fl53 gives %s" % (i, xs, acc2, Fraction(model[i][0], model[i][1])), "A:fl53-model"))
                        break
                else:
                    tags.append("fl53:chain-agrees")
            except _lean.DriverError as e:
                fails.append(F("A", "Lean driver op fl53 failed: %s" % str(e)[:160], "A:fl53-driver"))
        return {"fails": fails, "tags": tags, "nontrivial": len(xs) >= 2, "impl": repr(acc), "model": model}

    def gen_floatmul(self, rng):
        xs = []
        if rng.chance(0.2):
            # exact ties of the rounding (phase 4, rounding model fl53): a 53-bit odd significand times 1.5 / 2.5 / 0.75 / 3 / 5 ends in
            # exactly one half unit in the last place -> round to even
            m = rng.randint(2 ** 52, 2 ** 53 - 1) | 1
            xs.append(list(float(m * 2.0 ** rng.randint(-60, 8)).as_integer_ratio()))
            for _ in range(rng.randint(1, 3)):
                xs.append(list(float(rng.choice([1.5, 2.5, 0.75, 3.0, 5.0, 1.25, -1.5, 0.375])).as_integer_ratio()))
            return {"floatmul": xs, "ties": True}
        for _ in range(rng.randint(2, 8)):
            if rng.chance(0.4):     # dyadic with few bits: products stay representable for a while
                x = rng.randint(-4095, 4095) / 2 ** rng.randint(0, 12)
            else:
                x = (rng.randint(1, 2 ** 53) / 2 ** 53) * 10.0 ** rng.randint(-6, 6) * rng.choice([1, -1])
            xs.append(list(float(x).as_integer_ratio()))
        return {"floatmul": xs}

    def evaluate_caller(self, case, driver):
        """the real LinUCB / LinTS / LinearSyntheticSimulation code builds a term list and calls encode: (A) the list
        equals the model's `learnerTerms` / `syntheticTerms`; (B) every encode call they made meets the statement"""
        c = case["caller"]
        rec, outcome = run_caller(c)
        fails, tags = [], ["caller:" + c["kind"]]
        if not rec:
            return {"fails": [], "tags": tags + ["caller:no-encoder(%s)" % outcome.split(":")[0]], "nontrivial": False, "impl": outcome, "model": None}
        eff = rec[-1]["terms"]
        syn = c["kind"] in ("synthetic", "synthetic_env")
        has_ctx = True if syn else bool(build_val(c["context"]))
        tags.append("caller:%s" % ("as-given" if (not syn and has_ctx) else "rewritten"))
        tags.append("caller-arg:" + (c.get("shape", "list") if c.get("features") is not None else "default"))
        derived = syn or not has_ctx or c.get("features") is None
        if c.get("features") is not None:
            # (B) the encoder the entry point ends up using has exactly the terms the caller passed (a bare str is ONE term)
            passed = [t if isinstance(t, str) else num(t) for t in c["features"]]
            dd0 = lambda ts: [t for i, t in enumerate(ts) if t not in ts[:i]]
            shown = caller_arg(c, passed)
            if syn and c["nctx"] > 0 and c["nact"] > 0:
                want = dd0([t for t in passed if t != ""])
                for r in rec:
                    if dd0([t for t in r["terms"] if t != ""]) != want:
                        fails.append(F("B", "%s(reward_features=%r) ended up with an encoder for the terms %r, not for the terms passed"
                                       % ("Environments.from_linear_synthetic" if c["kind"] == "synthetic_env" else "LinearSyntheticSimulation", shown, r["terms"]),
                                       "caller-terms-differ:%s" % c.get("shape", "list")))
                        break
            elif not syn and list(rec[0]["terms"]) != passed:
                fails.append(F("B", "%s(features=%r) built its encoder for the terms %r, not for the terms passed" % (c["kind"], shown, rec[0]["terms"]),
                               "caller-terms-differ:%s" % c.get("shape", "list")))
        if c.get("features") is None:
            tags.append("caller:default-features")
        if derived and any(isinstance(t, str) and t == "" for t in eff):
            fails.append(F("B", "%s built the term list %r for InteractionsEncoder: it contains a term naming no namespace" % (c["kind"], eff), "caller-empty-term"))
        if syn:
            feats_py = ([t for t in rec[0]["terms"]] if c.get("features") is None else [t for t in c["features"]])
            if c.get("features") is None:
                # the default reward_features: take them from the simulation itself (params), not from the spied encoder
                try:
                    import coba.environments.synthetics as _syn
                    feats_py = list(_syn.LinearSyntheticSimulation(1).params["reward_features"])
                except Exception:
                    pass
            if all(isinstance(t, str) for t in feats_py):
                rf, rt = synthetic_reward_check(c, feats_py)
                fails += rf
                tags += rt
        ncalls = 0
        for r in rec:
            for kw, res in r["calls"]:
                one = {"terms": [term_to_case(t) for t in r["terms"]], "ns": [[k, py_to_val(v)] for k, v in kw.items()]}
                out = self.evaluate_call(one, res, driver)
                ncalls += 1
                for f in out["fails"]:
                    fails.append(dict(f, what="inside %s: %s" % (c["kind"], f["what"]), sig="caller:" + f["sig"]))
        if c.get("hashseeds") and not syn and not has_ctx:
            # Python's str hashes differ between processes (PYTHONHASHSEED): does the term list a learner builds for an empty
            # context - and with it the layout of its feature vector - depend on the process?
            import subprocess
            import sys
            from core import lean as _lean
            code = ("import sys, json, warnings; warnings.filterwarnings('ignore'); sys.path.insert(0, %r); sys.path.insert(0, %r);"
                    "from props.c20 import run_caller; rec, _ = run_caller(json.loads(sys.stdin.read()));"
                    "print(json.dumps([str(t) for t in rec[-1]['terms']]))" % (os.environ.get("COBA_REPO", "/repo"), os.path.join(_lean.VERIF, "harness")))
            orders = {}
            for k in c["hashseeds"]:
                pr = subprocess.run([sys.executable, "-W", "ignore", "-c", code], input=json.dumps({kk: vv for kk, vv in c.items() if kk != "hashseeds"}),
                                    capture_output=True, text=True, timeout=50, env=dict(os.environ, PYTHONHASHSEED=str(k)))
                if pr.returncode == 0 and pr.stdout.strip():
                    orders.setdefault(pr.stdout.strip().splitlines()[-1], []).append(k)
            tags.append("caller:hashseed-orders:%d" % len(orders))
            if len(orders) > 1:
                if c["kind"] == "lints":
                    # LinTS draws its weights coordinate by coordinate from a seeded generator (multivariate_normal), so the
                    # layout decides which feature gets which draw: predictions of a seeded learner differ between processes
                    fails.append(F("B", "LinTSLearner(features=%r) with an empty context hands its terms to InteractionsEncoder in an order that depends on "
                                   "PYTHONHASHSEED (%s): 'terms in the order given' is lost in list(set(...)), and the seeded Thompson draw is assigned "
                                   "to different features in different processes" % ([t if isinstance(t, str) else num(t) for t in c["features"]],
                                                                                      "; ".join("%s for seeds %s" % (o, ks) for o, ks in sorted(orders.items()))),
                                   "learner-term-order-hash-dependent:lints"))
                else:
                    tags.append("caller:order-varies(linucb: unobservable, linear_consumer_order_invariant)")
        model = None
        if driver is not None:
            if c.get("features") is None:      # the default term list: the model side is the Generated file (callers_wellformed)
                return {"fails": fails, "tags": tags, "nontrivial": ncalls > 0, "impl": {"terms": [str(t) for t in eff], "outcome": outcome}, "model": None}
            # the model's `normalise` with the treatments read off the source against what the real encoder was given
            try:
                nm = extract_norms()
            except Exception:
                nm = None
            if nm is not None:
                shp = c.get("shape", "list")
                inter = [{"t": t} if isinstance(t, str) else {"n": t["n"]} for t in c["features"]]
                shape = {"str": c["features"][0]} if (shp == "str" and len(c["features"]) == 1 and isinstance(c["features"][0], str)) else {shp if shp != "str" else "list": inter}
                chain = (nm["env"] if c["kind"] == "synthetic_env" else []) + (nm["synthetic"] if syn else nm[c["kind"]])
                sh = driver.ask({"op": "shape", "norms": chain, "shape": shape})
                got = [t["t"] if "t" in t else Fraction(t["n"][0], t["n"][1]) for t in sh["terms"]]
                tags.append("shape:" + "+".join(chain))
                if not syn:
                    seen_terms = [t if isinstance(t, str) else Fraction(t) for t in rec[0]["terms"]]
                    if seen_terms != got:
                        fails.append(F("A", "%s: the encoder was built from %r, the model's normalise(%s) gives %r" % (c["kind"], rec[0]["terms"], chain, got), "A:caller-shape"))
                elif c["nctx"] > 0 and c["nact"] > 0:
                    dd1 = lambda ts: [t for i, t in enumerate(ts) if t not in ts[:i] and t != ""]
                    if any(dd1(r["terms"]) != dd1(got) for r in rec):
                        fails.append(F("A", "%s: the encoder was built from %r, the model's normalise(%s) gives %r" % (c["kind"], rec[0]["terms"], chain, got), "A:caller-shape"))
            req = {"op": "callers", "kind": "synthetic" if syn else "learner", "has_context": has_ctx,
                   "nctx": c.get("nctx", 1), "nact": c.get("nact", 1),
                   "features": [{"t": t} if isinstance(t, str) else {"n": t["n"]} for t in c["features"]]}
            ans = driver.ask(req)
            model = ans
            mterms = [t["t"] if "t" in t else Fraction(t["n"][0], t["n"][1]) for t in ans["terms"]]
            # compared up to what the encoder cannot distinguish: the constants only count through their sum, the string
            # terms as an ordered set (the learners build theirs through a Python set: no order)
            dd = lambda ts: [t for i, t in enumerate(ts) if t not in ts[:i]]
            nf = lambda ts: (sum((Fraction(t) for t in ts if not isinstance(t, str)), Fraction(0)), dd([t for t in ts if isinstance(t, str)]))
            ce, cm = nf(eff), nf(mterms)
            same = all(nf(r["terms"]) == cm for r in rec) if syn else (ce[0] == cm[0] and set(ce[1]) == set(cm[1]))
            if not same:
                fails.append(F("A", "%s(features=%r, context %s) handed %r to InteractionsEncoder, the model says %r"
                               % (c["kind"], [t if isinstance(t, str) else num(t) for t in c["features"]], "present" if has_ctx else "empty", eff, mterms), "A:caller-terms"))
            if derived and not all(len(t) > 0 for t in mterms if isinstance(t, str)):
                fails.append(F("C", "model's derived term list has an empty term", "C:caller-nonempty"))
        return {"fails": fails, "tags": tags, "nontrivial": ncalls > 0 and len(eff) > 0, "impl": {"terms": [str(t) for t in eff], "outcome": outcome}, "model": model}

    def evaluate_call(self, case, impl, driver):
        fails, tags, o = monitor(case, impl)
        # tags
        tags.append("call:" + ("sparse" if o.sparse else "dense"))
        tags.append("result:" + ("err:" + impl["err"] if "err" in impl else "sparse" if "sparse" in impl else "dense" if "dense" in impl else "other"))
        nstr = len(o.terms)
        tags.append("terms:%d" % min(nstr, 4))
        if len(dedupe(o.terms)) < nstr:
            tags.append("terms:duplicate-string")
        ncon = len(case["terms"]) - nstr
        tags.append("consts:%d" % min(ncon, 3))
        if any((not isinstance(t, str)) and t.get("b") for t in case["terms"]):
            tags.append("const:bool")
        if o.const == 0 and ncon:
            tags.append("const:sum-zero")
        if o.absent:
            tags.append("ns:absent")
        for n, v in case["ns"]:
            tags.append("val:" + v["k"] + (":str" if val_is_sparse(v) and v["k"] != "sparse" else "") + ((":" + v["wrap"]) if v.get("wrap") not in (None, "list", "dict") else ""))
            if v["k"] in ("dense", "sparse") and not v["v"]:
                tags.append("val:empty")
            if special_keys(v):
                tags += sorted(set("key:bool" if "b" in kk else "key:float" for kk, _ in v["v"] if "b" in kk or "fl" in kk))
                if len(collapse_pairs(v)) < len(v["v"]):
                    tags.append("key:equal-as-dict-keys(1/True/1.0)")
        maxd = 0
        for t in dedupe(o.terms):
            if len(factors(t)) >= 2:
                tags.append("term:cross%d" % min(len(factors(t)), 3))
            if list(t) != sorted(t, key=lambda c: t.index(c)):
                tags.append("term:interleaved")
            for c, p in factors(t):
                n = len(o.feats.get(c, []))
                maxd = max(maxd, p)
                if (n >= 3 and p >= 4) or (n >= 4 and p >= 3):
                    tags.append("region:n>=3,d>=4|n>=4,d>=3")
                if n >= 2 and p >= 2:
                    tags.append("region:n>=2,d>=2")
        tags.append("maxdeg:%d" % min(maxd, 6))
        if any(it.get("f") for it in all_items(case)):
            tags.append("values:float" + (":rounding" if o.tol else ":exact"))
        for sc in sorted(set(it["sc"] for it in all_items(case) if it.get("sc"))):
            tags.append("values:str-subclass:" + sc)
        if o.sparse and not o.collided and "sparse" in impl:
            ents = o.entries(dedupe(o.terms))
            if len(set(k for k, _ in ents)) < len(ents):
                tags.append("sparse:key-collision")
        for f in fails:
            tags.append("B:" + f["sig"])
        # result types: exact inputs (Python ints / Fractions) must give exact results of the same kind
        kinds = set("float" if (it.get("f") or (it["n"][1] != 1 and not it.get("q"))) else "Fraction" if it.get("q") else "int"
                    for it in list(all_items(case)) + [t for t in case["terms"] if not isinstance(t, str)] if "n" in it)
        if "ty" in impl and "float" not in kinds and "float" in impl["ty"]:
            fails.append(F("A", "%s returned floats %s although every input is an exact %s: products are no longer exact"
                           % (show_call(case), fmt_out(impl), "/".join(sorted(kinds)) or "int"), "A:result-type"))
        if kinds:
            tags.append("values:" + "+".join(sorted(kinds)))
        size = o.size() if o.in_quantifier else 0
        nontrivial = bool(o.terms) and o.in_quantifier and size >= 3
        model = None
        if driver is not None:
            req = to_driver(case)
            if o.tol:
                req["f53"] = True
            ans = driver.ask(req)
            model = ans["model"]
            m = from_model(model)
            if "model53" in ans:
                # phase 5, `encode_float_fmul53`: on double inputs the implementation IS the encoder computed with the
                # IEEE rounding multiplication (bit for bit, no tolerance), and that encoder lies within the proved
                # (1+2^-53)^(d-1)-1 of the exact one
                m53 = from_model(ans["model53"])
                tags.append("f53:" + ("dense" if "dense" in m53 else "sparse" if "sparse" in m53 else "err"))
                if ("dense" in impl or "sparse" in impl) and "float" in impl.get("ty", ["float"]):
                    rounded = (m53 != m)
                    tags.append("f53:rounds" if rounded else "f53:no-rounding")
                    if self.same(impl, m53, 0):
                        tags.append("f53:bit-exact")
                    elif ans.get("maxdeg", 9) <= 2:
                        # degree <= 2: every entry is ONE double product, so there is no freedom of association - any code
                        # that multiplies with IEEE `*` (in either order) returns exactly fl53(a*b)
                        fails.append(F("A", "%s: implementation %s differs from the correctly rounded single products %s (terms of degree <= 2: "
                                       "one IEEE multiplication per entry, no association involved)"
                                       % (show_call(case), fmt_out(impl), json.dumps(ans["model53"])[:260]), "A:encode-fmul53:single-product"))
                    else:
                        # degree >= 3: another association of the same product is a harmless rewrite (still inside the proved
                        # bound, which the ordinary comparison checks) - recorded, not reported
                        tags.append("f53:within-bound-not-bit-exact")
                if not self.same(m53, m, o.tol):
                    fails.append(F("C", "encodeG fmul53 %s is not within (1+2^-53)^(d-1)-1 of the exact encoder %s (encode_float_fmul53)"
                                   % (json.dumps(ans["model53"])[:200], json.dumps(model)[:200]), "C:fmul53-bound"))
            if not self.same(impl, m, o.tol):
                # the three recorded defects are switchable in the model: an implementation that equals the
                # model of the unchanged tree (or of a partly repaired one) corresponds; (B) reports the defect
                which = [(fp, fz, fa) for fp, fz, fa, out in ans["variants"] if self.same(impl, from_model(out), o.tol)]
                from core.engine import load_known
                open_known = [k for k in load_known() if k.get("property") == "C20" and k.get("status", "open") == "open"]
                if which and open_known:
                    # only while a defect is still recorded as open; all three are repaired in /repo now, so
                    # the implementation has to equal the fixed model
                    tags.append("A:matches-model-with-recorded-defects")
                else:
                    kind = "err" if ("err" in impl or "err" in m) else "sparse" if "sparse" in m else "dense"
                    fails.append(F("A", "%s: implementation %s, model %s" % (show_call(case), fmt_out(impl), json.dumps(model)[:260]), "A:" + kind))
            # (C) the model meets the spec whenever the theorem's hypothesis holds, and the Lean spec is the
            # reading used by the direct monitor (itertools.combinations_with_replacement, itertools.product)
            spec = from_model(ans["spec"])
            if ans["hyp"] and not o.sparse:
                # `encode_length_spec`: the model's length formula, the binomial formula of the monitor, the implementation
                if ans["len"] != o.expected_len(dedupe(o.terms)):
                    fails.append(F("C", "encodeLen = %d but the binomial formula gives %d" % (ans["len"], o.expected_len(dedupe(o.terms))), "C:length-formula"))
                if "dense" in impl and len(impl["dense"]) != ans["len"]:
                    fails.append(F("A", "%s has %d entries, encodeLen says %d" % (show_call(case), len(impl["dense"]), ans["len"]), "A:length"))
            if ans["hyp"]:
                if m != spec:
                    fails.append(F("C", "model %s differs from its specification %s although every term names a namespace" % (json.dumps(model)[:200], json.dumps(ans["spec"])[:200]), "C:model-vs-spec"))
                d = dedupe(o.terms)
                mine = {"sparse": o.sparse_dict(d)} if o.sparse else {"dense": o.dense(d)}
                if mine != spec:
                    fails.append(F("C", "Lean specification %s differs from the itertools reference %s" % (json.dumps(ans["spec"])[:200], fmt_out(mine)), "C:spec-vs-itertools"))
                if o.sparse and "collides" in ans:
                    # phase 4, `sparse_faithful_iff`: the mapping holds every named monomial exactly when no two of them share a name
                    cand = o.sparse_candidates(d)
                    py_coll = any(len(v) > 1 for v in cand.values())
                    py_n = sum(len(v) for v in cand.values())
                    tags.append("sparse:collides" if py_coll else "sparse:no-collision")
                    if ans["collides"] != py_coll or ans["nmonos"] != py_n:
                        fails.append(F("C", "Lean collides/sparseMonos = %r/%d, the itertools reference says %r/%d" % (ans["collides"], ans["nmonos"], py_coll, py_n), "C:collides"))
                    elif "sparse" in impl and (len(impl["sparse"]) == py_n) != (not py_coll):
                        fails.append(F("A", "%s returned %d keys for %d named monomials, collides = %r (sparse_faithful_iff: all monomials are kept iff no two share a name)"
                                       % (show_call(case), len(impl["sparse"]), py_n, py_coll), "A:sparse-faithful-iff"))
                    if "eqlen" in ans:
                        # phase 5, `sparse_call_faithful_of_equal_length`: the checkable whole-call condition (all feature names of the
                        # named namespaces have one length L >= 1, no two terms equal up to regrouping, constant absent or L does not
                        # divide 5) evaluated here on the monitor's own names, by the Lean model, and its consequence on the real result
                        sterms = [tt for tt in case["terms"] if isinstance(tt, str)]
                        lens = [len(nm) for tt in sterms for c in tt for nm, _ in o.feats.get(c, [])]
                        L = lens[0] if lens else 0
                        canon = ["".join(c * p_ for c, p_ in factors(tt)) for tt in d]
                        py_ok = bool(L >= 1 and all(x == L for x in lens) and len(set(canon)) == len(canon) and (not o.const or 5 % L != 0))
                        if ans["eqlen"] != py_ok or (lens and ans["callL"] != L):
                            fails.append(F("C", "Lean equalLenOK/callL = %r/%d, evaluated on the monitor's feature names: %r/%d" % (ans["eqlen"], ans["callL"], py_ok, L), "C:equal-length-condition"))
                        elif py_ok:
                            tags.append("sparse:equal-length-ok" + (":multi-namespace" if any(len(factors(tt)) > 1 for tt in d) else ""))
                            if ans["collides"] or py_coll:
                                fails.append(F("C", "the equal-length condition holds (L = %d) but two monomials share a name (sparse_call_no_collision)" % L, "C:equal-length-collides"))
                            elif "sparse" in impl and len(impl["sparse"]) != py_n:
                                fails.append(F("A", "%s: all feature names have length %d and no two terms coincide up to regrouping, so all %d named monomials must be kept "
                                               "(sparse_call_faithful_of_equal_length); the result has %d keys" % (show_call(case), L, py_n, len(impl["sparse"])), "A:equal-length-faithful"))
                        else:
                            tags.append("sparse:equal-length-no")
            elif m != {"err": "IndexError"}:
                fails.append(F("C", "a term without namespaces should give IndexError in the model", "C:empty-term"))
        return {"fails": fails, "nontrivial": nontrivial, "tags": tags, "impl": jsonable(impl) if ("dense" in impl or "sparse" in impl) else impl, "model": model}

    @staticmethod
    def same(impl, m, tol=0):
        if "err" in impl or "err" in m:
            return impl.get("err") == m.get("err")
        if "dense" in impl and "dense" in m:
            return close_list(impl["dense"], m["dense"], tol)
        if "sparse" in impl and "sparse" in m:
            return set(impl["sparse"]) == set(m["sparse"]) and all(close(v, m["sparse"][k], tol) for k, v in impl["sparse"].items())
        return False

    # ---- shrinking
    def shrink(self, case):
        # coarse candidates come first; the number per round is capped (every candidate is a full evaluation)
        return itertools.islice(self.shrink_all(case), 160)

    def shrink_all(self, case):
        if "learner" in case:
            from props import c20_learner
            yield from c20_learner.shrink(case)
            return
        if "floatmul" in case:
            xs = case["floatmul"]
            for i in range(len(xs)):
                if len(xs) > 2:
                    yield {"floatmul": xs[:i] + xs[i + 1:]}
            return
        if "caller" in case:
            c = case["caller"]
            if c.get("features") is None:
                return
            for i in range(len(c["features"])):
                yield {"caller": dict(c, features=c["features"][:i] + c["features"][i + 1:])}
            for i, t in enumerate(c["features"]):
                if isinstance(t, str) and len(t) > 1:
                    yield {"caller": dict(c, features=c["features"][:i] + [t[:-1]] + c["features"][i + 1:])}
            return
        calls = calls_of(case)
        cps = list(case.get("copies") or [])
        cps += [None] * (len(calls) - len(cps))

        def mk(terms, cs, copies=None):
            c = dict({"terms": terms, "ns": cs[0]}, **({"hist": cs[1:]} if len(cs) > 1 else {}))
            copies = cps if copies is None else copies
            if any(copies[:len(cs)]):
                c["copies"] = copies[:len(cs)]
            if case.get("own"):
                c["own"] = dict(case["own"])
            return c
        if case.get("own"):
            base = mk(case["terms"], calls)
            for drop in (["terms", "at"], ["result"]):
                o2 = {k: v for k, v in case["own"].items() if k not in drop}
                if o2 != case["own"] and (o2.get("terms") or o2.get("result")):
                    yield dict(base, own=o2)
            if case["own"].get("at"):
                yield dict(base, own=dict(case["own"], at=0))
        if any(cps):
            yield mk(case["terms"], calls, [None] * len(calls))
            for i, cp in enumerate(cps):
                if cp:
                    yield mk(case["terms"], calls, cps[:i] + [None] + cps[i + 1:])
                    if cp["op"] != "copy" or cp.get("keep"):
                        yield mk(case["terms"], calls, cps[:i] + [{"op": "pickle" if cp["op"] != "copy" else "copy", "keep": False}] + cps[i + 1:])
        if len(calls) > 1:
            for i in range(len(calls) - 1, -1, -1):
                yield mk(case["terms"], calls[:i] + calls[i + 1:], cps[:i] + cps[i + 1:])
            if any("obj" in v for ns in calls for _, v in ns):
                yield mk(case["terms"], [[[n, {k: x for k, x in v.items() if k != "obj"}] for n, v in ns] for ns in calls])
        for ci, ns in enumerate(calls):
            for terms2, ns2 in self.shrink_call(case["terms"], ns):
                if terms2 is not case["terms"] and ci > 0:
                    continue
                yield mk(terms2, calls[:ci] + [ns2] + calls[ci + 1:])
            for i, (n, v) in enumerate(ns):
                for j, it in enumerate([v["v"]] if v["k"] == "scalar" else v["v"] if v["k"] == "dense" else [e[1] for e in v["v"]] if v["k"] == "sparse" else []):
                    if "sc" in it and it["sc"] != "sub":
                        v2 = json.loads(json.dumps(v))
                        tgt = v2["v"] if v["k"] == "scalar" else v2["v"][j] if v["k"] == "dense" else v2["v"][j][1]
                        tgt["sc"] = "sub"
                        yield mk(case["terms"], calls[:ci] + [ns[:i] + [[n, v2]] + ns[i + 1:]] + calls[ci + 1:])

    def shrink_call(self, terms, ns):
        """smaller (terms, ns) pairs for one call"""
        for i in range(len(terms)):
            yield (terms[:i] + terms[i + 1:], ns)
        for i in range(len(ns)):
            yield (terms, ns[:i] + ns[i + 1:])
        for i, t in enumerate(terms):
            if isinstance(t, str) and len(t) > 1:
                for j in range(len(t)):
                    yield (terms[:i] + [t[:j] + t[j + 1:]] + terms[i + 1:], ns)
        for i, (n, v) in enumerate(ns):
            if v["k"] in ("dense", "sparse"):
                for j in range(len(v["v"]) - 1, -1, -1):
                    yield (terms, ns[:i] + [[n, dict(v, v=v["v"][:j] + v["v"][j + 1:])]] + ns[i + 1:])
                if v.get("wrap") not in (None, "list", "dict"):
                    yield (terms, ns[:i] + [[n, dict(v, wrap="list" if v["k"] == "dense" else "dict")]] + ns[i + 1:])
                if v["k"] == "sparse" and not any("s" in it for _, it in v["v"]):
                    yield (terms, ns[:i] + [[n, {"k": "dense", "v": [it for _, it in v["v"]], "wrap": "list"}]] + ns[i + 1:])
                for j, e in enumerate(v["v"]):
                    it = e if v["k"] == "dense" else e[1]
                    if "n" in it and (it.get("f") or it["n"][1] != 1):
                        it2 = {"n": [PRIMES[j % len(PRIMES)], 1]}
                        nv = list(v["v"])
                        nv[j] = it2 if v["k"] == "dense" else [e[0], it2]
                        yield (terms, ns[:i] + [[n, dict(v, v=nv)]] + ns[i + 1:])
                    if "s" in it and len(it["s"]) > 1:
                        nv = list(v["v"])
                        it2 = dict(it, s=it["s"][:1])
                        nv[j] = it2 if v["k"] == "dense" else [e[0], it2]
                        yield (terms, ns[:i] + [[n, dict(v, v=nv)]] + ns[i + 1:])

    def snippet(self, case):
        if case is None:
            return ""
        if "learner" in case:
            from props import c20_learner
            return c20_learner.snippet(case, build_val_plain)
        if "floatmul" in case:
            return ("from fractions import Fraction\nxs = %r\nacc = xs[0]\nfor y in xs[1:]:\n    e = Fraction(acc) * Fraction(y); g = acc * y\n"
                    "    print(acc, y, g, abs(Fraction(g) - e) <= abs(e) / 2**53); acc = g\n" % [a / b for a, b in case["floatmul"]])
        if "caller" in case:
            c = case["caller"]
            if c.get("features") is None:
                return "# %s with its default term list; see evaluate_caller in harness/props/c20.py\n" % c["kind"]
            feats = [t if isinstance(t, str) else num(t) for t in c["features"]]
            arg = caller_arg(c, feats)
            if c["kind"] in ("synthetic", "synthetic_env"):
                call = ("m.LinearSyntheticSimulation(3, n_actions=2, n_context_features=%d, n_action_features=%d, n_coefficients=None, reward_features=%r, seed=%d).read()"
                        % (c["nctx"], c["nact"], arg, c.get("seed", 1))) if c["kind"] == "synthetic" else (
                        "[i for e in Environments.from_linear_synthetic(3, n_actions=2, n_context_features=%d, n_action_features=%d, n_coefficients=None, reward_features=%r, seed=%r) for i in e.read()]"
                        % (c["nctx"], c["nact"], arg, c.get("seeds", c.get("seed", 1))))
                return ("import sys; sys.path.insert(0, %r)\nimport coba.environments.synthetics as m\nfrom coba.environments import Environments\n"
                        "class Rec(m.InteractionsEncoder):\n    def __init__(self, i): print('encoder terms:', list(i)); super().__init__(i)\n"
                        "m.InteractionsEncoder = Rec\nlist(%s)\n# the terms passed: %r (a bare str is one term)\n"
                        "# the rewards must be an affine function of ALL monomials of the expansion of these terms (combinations WITH repetition\n"
                        "# per namespace, outer product across namespaces) - fit rewards ~ 1 + monomials(context, action) over enough interactions\n"
                        "# (harness: synthetic_reward_check) and look for coefficients that vanish\n"
                        % (os.environ.get("COBA_REPO", "/repo"), call, feats))
            return ("import sys; sys.path.insert(0, %r)\nimport coba.learners.%s as m   # needs numpy (the harness stubs it)\n"
                    "class Rec(m.InteractionsEncoder):\n    def __init__(self, i): print('terms', list(i)); super().__init__(i)\n"
                    "    def encode(self, **kw): r = super().encode(**kw); print(kw, '->', r); return r\n"
                    "m.InteractionsEncoder = Rec\nm.%s(features=%r).predict(%r, %r)\n"
                    % (os.environ.get("COBA_REPO", "/repo"), c["kind"], "LinUCBLearner" if c["kind"] == "linucb" else "LinTSLearner",
                       arg, build_val_plain(c["context"]), [build_val_plain(a) for a in c["actions"]]))
        calls = calls_of(case)
        lines = ["import sys, itertools; sys.path.insert(0, %r)" % os.environ.get("COBA_REPO", "/repo"),
                 "from coba.encodings import InteractionsEncoder"]
        vals = [v for ns in calls for _, v in ns]
        wraps = set(v.get("wrap") for v in vals)
        scs = set(it.get("sc") for one in [{"ns": ns} for ns in calls] for it in all_items(one))
        if "cat" in scs:
            lines.append("from coba.primitives import Categorical")
        if "sub" in scs:
            lines.append("class S(str): pass")

        CODE = {("dense", "lazy"): ("from coba.pipes.rows import LazyDense", "LazyDense(%s)"),
                ("sparse", "lazy"): ("from coba.pipes.rows import LazySparse", "LazySparse(%s)"),
                ("dense", "hashable"): ("from coba.primitives import HashableDense", "HashableDense(%s)"),
                ("sparse", "hashable"): ("from coba.primitives import HashableSparse", "HashableSparse(%s)"),
                ("dense", "head"): ("from coba.pipes.rows import HeadDense", "HeadDense(%s, {})"),
                ("dense", "encode"): ("from coba.pipes.rows import EncodeDense", "(lambda r: EncodeDense(r, [lambda x: x] * len(r)))(%s)"),
                ("dense", "keep"): ("from coba.pipes.rows import KeepDense", "(lambda r: KeepDense(r + ['hidden'], {i: i for i in range(len(r))}, [True] * len(r) + [False], len(r), None))(%s)"),
                ("sparse", "proxy"): ("import types", "types.MappingProxyType(%s)"),
                ("sparse", "userdict"): ("import collections", "collections.UserDict(%s)"),
                ("sparse", "chainmap"): ("import collections", "collections.ChainMap(%s)"),
                ("sparse", "ordered"): ("import collections", "collections.OrderedDict(%s)"),
                ("sparse", "custom"): ("import collections.abc\nclass CMap(collections.abc.Mapping):\n    def __init__(s, d): s._d = dict(d)\n    def __getitem__(s, k): return s._d[k]\n"
                                       "    def __iter__(s): return iter(s._d)\n    def __len__(s): return len(s._d)", "CMap(%s)"),
                ("sparse", "encode"): ("from coba.pipes.rows import EncodeSparse", "EncodeSparse(%s, {}, set())"),
                ("sparse", "drop"): ("from coba.pipes.rows import DropSparse", "DropSparse(%s, set())")}
        for v in vals:
            ent = CODE.get((v["k"], v.get("wrap")))
            if ent and ent[0] not in lines:
                lines.append(ent[0])

        def sv(v):
            p = repr(build_val_plain(v))
            if v["k"] == "dense" and v.get("wrap") not in (None, "list", "tuple"):
                p = repr(list(build_val_plain(v)))
            ent = CODE.get((v["k"], v.get("wrap")))
            return ent[1] % p if ent else p
        if any(it.get("q") for one in [{"ns": ns} for ns in calls] for it in all_items(one)) or any((not isinstance(t, str)) and t.get("q") for t in case["terms"]):
            lines.append("from fractions import Fraction")
        cps = list(case.get("copies") or [])
        if any(cps):
            lines.append("import copy, pickle")
        own = case.get("own") or {}
        if own:
            lines.append("terms = %r" % (build_terms(case),))
            lines.append("enc = InteractionsEncoder(terms)   # every call below must return the expansion of THESE terms")
        else:
            lines.append("enc = InteractionsEncoder(%r)" % (build_terms(case),))
        seen = {}
        EDIT = {"append": "terms.append('xxa')", "clear": "terms.clear()", "reverse": "terms.reverse()", "pop": "terms and terms.pop(0)",
                "number": "terms.insert(0, 5)", "extend-self": "terms.extend([t + 'x' for t in terms if isinstance(t, str)])"}
        for i, ns in enumerate(calls):
            if own.get("terms") and own.get("at", 0) == i:
                lines.append("%s   # the caller changes ITS list" % EDIT[own["terms"]])
            cp = cps[i] if i < len(cps) else None
            target = "enc"
            if cp:
                expr = {"pickle": "pickle.loads(pickle.dumps(enc))", "deepcopy": "copy.deepcopy(enc)", "copy": "copy.copy(enc)"}[cp["op"]]
                if cp.get("keep"):
                    lines.append("enc = %s   # from here on the copy is used" % expr)
                else:
                    lines.append("cpy = %s   # this call goes to a copy" % expr)
                    target = "cpy"
            args = []
            for n, v in ns:
                slot = v.get("obj")
                plain = (v["k"] == "dense" and v.get("wrap", "list") == "list") or (v["k"] == "sparse" and v.get("wrap", "dict") == "dict")
                if slot is None or not plain:
                    args.append("%s=%s" % (n, sv(v)))
                    continue
                name = "obj%d" % slot
                spec = json.dumps({k: x for k, x in v.items() if k != "obj"}, sort_keys=True)
                if seen.get(slot) == v["k"] and seen.get(("spec", slot)) == spec:
                    pass      # the same object, untouched by the caller
                elif seen.get(slot) == v["k"]:
                    seen[("spec", slot)] = spec
                    lines.append("%s[:] = %s  # the same list object, changed in place" % (name, sv(v)) if v["k"] == "dense"
                                 else "%s.clear(); %s.update(%s)  # the same dict object, changed in place" % (name, name, sv(v)))
                else:
                    lines.append("%s = %s" % (name, sv(v)))
                    seen[slot] = v["k"]
                    seen[("spec", slot)] = spec
                args.append("%s=%s" % (n, name))
            if own.get("result"):
                lines.append("try: r%d = %s.encode(%s); print(r%d)" % (i, target, ", ".join(args), i))
                lines.append("except Exception as e: r%d = None; print('raised', repr(e))" % i)
                named = [a.split("=", 1)[1] for a in args if a.split("=", 1)[1].startswith("obj")]
                if named:
                    lines.append("print('the caller\\'s argument objects after the call:', %s)" % ", ".join(named))
                if own["result"] == "scribble":
                    lines.append("if isinstance(r%d, list): r%d[:] = [%d]   # the caller overwrites the result it was handed" % (i, i, SCRIBBLE))
                    lines.append("if isinstance(r%d, dict): r%d.clear(); r%d['x0'] = %d" % (i, i, i, SCRIBBLE))
                else:
                    lines.append("# the caller keeps r%d; later calls must not change it" % i)
            else:
                lines.append("try: print(%s.encode(%s))" % (target, ", ".join(args)))
                lines.append("except Exception as e: print('raised', repr(e))")
            try:
                o = Oracle(single(case, i))
                d = dedupe(o.terms)
                if o.sparse:
                    lines.append("# expected mapping (names concatenated, values multiplied): %s" % {k: (int(v) if v.denominator == 1 else float(v)) for k, v in o.sparse_dict(d).items()})
                else:
                    lines.append("# expected vector (constant, then per term combinations_with_replacement x outer product): %s" % [(int(v) if v.denominator == 1 else float(v)) for v in o.dense(d)])
            except Exception:
                pass
        return "\n".join(lines) + "\n"


PROPERTY = C20()
