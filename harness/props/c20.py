"""C20 Feature interaction encoding equals the mathematical polynomial expansion.

Case format (JSON):
  {"terms": [ "xxa" | {"n":[num,den], "f":bool} ... ],          interactions, in order
   "ns":    [ [name, val] ... ] }                                 keyword arguments of encode, in order
  val  = {"k":"none"} | {"k":"scalar","v":item} | {"k":"dense","v":[item..],"wrap":list|tuple|lazy|hashable}
       | {"k":"sparse","v":[[key,item]..],"wrap":dict|lazy|hashable}
  item = {"n":[num,den],"f":bool} | {"s":str}      key = {"s":str} | {"i":int}
A namespace named by a term but missing from "ns" is absent from the call.
"""
import itertools
import json
import math
import os
from collections import OrderedDict
from fractions import Fraction
from itertools import accumulate

from core.engine import Property, F

PRIMES = [2, 3, 5, 7, 11, 13, 17, 19, 23, 29, 31, 37, 41, 43, 47, 53, 59, 61, 67, 71]
SIG_POWS = "pows-starts-recurrence"          # C20-F1
SIG_ZIP = "crosspows-zip-misaligned"         # C20-F2
SIG_ABSENT = "raises-KeyError:absent-namespace"   # C20-F3


# ------------------------------------------------------------------ building the real call
def num(it):
    a, b = it["n"]
    if it.get("f") or b != 1:
        return a / b
    return a


class S(str):
    """a trivial str subclass (string values may be any str, e.g. coba's Categorical)"""
    def __repr__(self):
        return "S(%s)" % str.__repr__(self)


def build_item(it):
    if "s" in it:
        sc = it.get("sc")
        if sc == "cat":
            from coba.primitives import Categorical
            return Categorical(it["s"], [it["s"], it["s"] + "~"])
        if sc == "sub":
            return S(it["s"])
        return it["s"]
    return num(it)


def build_key(k):
    return k["s"] if "s" in k else k["i"]


def build_val(v):
    k = v["k"]
    if k == "none":
        return None
    if k == "scalar":
        return build_item(v["v"])
    if k == "dense":
        items = [build_item(i) for i in v["v"]]
        w = v.get("wrap", "list")
        if w == "tuple":
            return tuple(items)
        if w == "lazy":
            from coba.pipes.rows import LazyDense
            return LazyDense(items)
        if w == "hashable":
            from coba.primitives import HashableDense
            return HashableDense(items)
        return items
    if k == "sparse":
        d = {build_key(kk): build_item(i) for kk, i in v["v"]}
        w = v.get("wrap", "dict")
        if w == "lazy":
            from coba.pipes.rows import LazySparse
            return LazySparse(d)
        if w == "hashable":
            from coba.primitives import HashableSparse
            return HashableSparse(d)
        return d
    raise ValueError(k)


def build_val_obj(v, pool):
    """like build_val, but a value carrying "obj": k re-uses the list/dict OBJECT of slot k, changed in place"""
    slot = v.get("obj")
    plain = (v["k"] == "dense" and v.get("wrap", "list") == "list") or (v["k"] == "sparse" and v.get("wrap", "dict") == "dict")
    if slot is None or not plain:
        return build_val(v)
    new = build_val(v)
    old = pool.get(slot)
    if old is not None and type(old) is type(new):
        if isinstance(old, list):
            old[:] = new
        else:
            old.clear()
            old.update(new)
        return old
    pool[slot] = new
    return new


class capped_memory:
    """a broken encoder may multiply strings by large numbers: while the real code runs, cap the address space of the
    worker so that this is a MemoryError (reported like any exception) and not an OOM kill; restored afterwards so
    that a driver respawned later is not affected"""
    CAP = 1024 ** 3

    def __enter__(self):
        self.old = None
        try:
            import resource
            soft, hard = resource.getrlimit(resource.RLIMIT_AS)
            if (soft == resource.RLIM_INFINITY or soft > self.CAP) and (hard == resource.RLIM_INFINITY or hard >= self.CAP):
                resource.setrlimit(resource.RLIMIT_AS, (self.CAP, hard))
                self.old = (soft, hard)
        except Exception:
            self.old = None
        return self

    def __exit__(self, *a):
        if self.old is not None:
            try:
                import resource
                resource.setrlimit(resource.RLIMIT_AS, self.old)
            except Exception:
                pass
        return False


def calls_of(case):
    return [case["ns"]] + list(case.get("hist", []))


def single(case, i):
    """call #i of the history as a case of its own"""
    return {"terms": case["terms"], "ns": [[n, {k: x for k, x in v.items() if k != "obj"}] for n, v in calls_of(case)[i]]}


def run_history(case):
    """the real code: ONE encoder object, the calls of the history in order (argument objects re-used where the
    case says so); a call that raises does not end the history"""
    from coba.encodings import InteractionsEncoder
    calls = calls_of(case)
    try:
        enc = InteractionsEncoder(build_terms(case))
    except Exception as e:
        return [{"err": type(e).__name__, "msg": str(e)[:200]} for _ in calls]
    pool, outs = {}, []
    with capped_memory():
        for ns in calls:
            try:
                kw = {n: build_val_obj(v, pool) for n, v in ns}
                outs.append(canon_out(enc.encode(**kw)))
            except Exception as e:
                outs.append({"err": type(e).__name__, "msg": str(e)[:200]})
    return outs


def build_terms(case):
    return [t if isinstance(t, str) else num(t) for t in case["terms"]]


def canon_out(r):
    """canonical, exact form of what encode returned"""
    from collections.abc import Mapping
    try:
        if isinstance(r, Mapping):
            out = {}
            for k, v in r.items():
                if not isinstance(k, str) or isinstance(v, bool) or not isinstance(v, (int, float)) or (isinstance(v, float) and not math.isfinite(v)):
                    return {"bad": repr(r)[:300]}
                out[k] = Fraction(v)
            return {"sparse": out}
        if isinstance(r, (list, tuple)):
            vs = []
            for v in r:
                if isinstance(v, bool) or not isinstance(v, (int, float)) or (isinstance(v, float) and not math.isfinite(v)):
                    return {"bad": repr(r)[:300]}
                vs.append(Fraction(v))
            return {"dense": vs}
    except Exception as e:      # pragma: no cover
        return {"bad": "uncanonicalisable: %r" % (e,)}
    return {"bad": repr(r)[:300]}


def run_impl(case):
    """the real code: one encoder, two calls (the encoder keeps counters), and a fresh encoder"""
    from coba.encodings import InteractionsEncoder
    terms = build_terms(case)
    try:
        with capped_memory():
            kw = {n: build_val(v) for n, v in case["ns"]}
            enc = InteractionsEncoder(terms)
            r1 = canon_out(enc.encode(**kw))
            r2 = canon_out(enc.encode(**{n: build_val(v) for n, v in case["ns"]}))
            r3 = canon_out(InteractionsEncoder(list(terms)).encode(**{n: build_val(v) for n, v in case["ns"]}))
    except Exception as e:
        return {"err": type(e).__name__, "msg": str(e)[:200]}
    if r1 != r2 or r1 != r3:
        return {"unstable": [jsonable(r1), jsonable(r2), jsonable(r3)]}
    return r1


def jsonable(o):
    if "dense" in o:
        return {"dense": [[v.numerator, v.denominator] for v in o["dense"]]}
    if "sparse" in o:
        return {"sparse": sorted([k, [v.numerator, v.denominator]] for k, v in o["sparse"].items())}
    return o


def from_model(m):
    if "dense" in m:
        return {"dense": [Fraction(a, b) for a, b in m["dense"]]}
    if "sparse" in m:
        return {"sparse": {k: Fraction(a, b) for k, (a, b) in m["sparse"]}}
    return {"err": m.get("err")}


# ------------------------------------------------------------------ the property, read directly
def fr(it):
    return Fraction(it["n"][0], it["n"][1])


def val_is_sparse(v):
    k = v["k"]
    if k == "scalar":
        return "s" in v["v"]
    if k == "dense":
        return any("s" in i for i in v["v"])
    return k == "sparse"


def feats_dense(v):
    if v is None or v["k"] == "none":
        return []
    if v["k"] == "scalar":
        return [fr(v["v"])]
    if v["k"] == "dense":
        return [fr(i) for i in v["v"]]
    return []


def feats_sparse(ns, v):
    """named features of a namespace: ([(name, value)], collided?)"""
    if v is None or v["k"] == "none":
        pairs = []
    elif v["k"] == "scalar":
        pairs = [("0", v["v"])]
    elif v["k"] == "dense":
        pairs = [(str(i), it) for i, it in enumerate(v["v"])]
    else:
        pairs = [(build_key(k), it) for k, it in v["v"]]
    stage1 = OrderedDict()          # handle_str: keys are Python objects (1 and '1' stay distinct here)
    for k, it in pairs:
        if "s" in it:
            stage1["%s%s" % (k, it["s"])] = Fraction(1)
        else:
            stage1[k] = fr(it)
    named = OrderedDict()           # namespace prefix
    for k, v in stage1.items():
        named["%s%s" % (ns, k)] = v
    return list(named.items()), len(named) < len(pairs)


def factors(t):
    return [(c, t.count(c)) for c in OrderedDict.fromkeys(t)]


def prod(xs):
    r = Fraction(1)
    for x in xs:
        r *= x
    return r


def monos_ref(fs, p, sparse):
    """degree-p monomials, each unordered combination once, combinations_with_replacement order"""
    if sparse:
        return [("".join(k for k, _ in c), prod(v for _, v in c)) for c in itertools.combinations_with_replacement(fs, p)]
    return [prod(c) for c in itertools.combinations_with_replacement(fs, p)]


def pows_defective(values, degree, mul, one):
    """the recurrence recorded as C20-F1 (only used to label a failure as that known defect)"""
    if not values:
        return []
    starts = [1] * len(values)
    terms = [[one]]
    for d in range(degree):
        terms.append([mul(v, t) for v, s in zip(values, starts) for t in terms[d][(s - 1):]])
        starts = list(accumulate(starts[:1] + starts[-1:] + starts[1:-1]))
    return terms


def monos_defective(fs, p, sparse):
    if not fs:
        return []
    if sparse:
        return pows_defective(fs, p, lambda a, b: (a[0] + b[0], a[1] * b[1]), ("", Fraction(1)))[p]
    return pows_defective(fs, p, lambda a, b: a * b, Fraction(1))[p]


def term_entries(feats, t, sparse, monos=monos_ref):
    lists = [monos(feats.get(c, []), p, sparse) for c, p in factors(t)]
    out = []
    for combo in itertools.product(*lists):        # left factor major
        if sparse:
            out.append(("".join(k for k, _ in combo), prod(v for _, v in combo)))
        else:
            out.append(prod(combo))
    return out


def dedupe(ts):
    return list(OrderedDict.fromkeys(ts))


def zip_quirk_terms(case):
    """term list as the code recorded as C20-F2 sees it (label only)"""
    inter = build_terms(case)
    strs = [t for t in inter if isinstance(t, str)]
    return list(OrderedDict(zip(inter, strs)).values())


class Oracle:
    def __init__(self, case):
        self.case = case
        self.terms = [t for t in case["terms"] if isinstance(t, str)]
        self.const = sum((fr(t) for t in case["terms"] if not isinstance(t, str)), Fraction(0))
        self.given = OrderedDict((n, v) for n, v in case["ns"])
        self.named = list(OrderedDict.fromkeys("".join(self.terms)))
        self.absent = [c for c in self.named if c not in self.given]
        self.sparse = any(val_is_sparse(v) for v in self.given.values())
        self.sparse_used = any(val_is_sparse(v) for n, v in self.given.items() if n in self.named)
        self.nconst = len(case["terms"]) - len(self.terms)
        self.collided = False
        self.feats = {}
        for c in self.named:
            v = self.given.get(c)
            if self.sparse:
                fs, col = feats_sparse(c, v)
                self.collided = self.collided or col
            else:
                fs = feats_dense(v)
            self.feats[c] = fs
        self.in_quantifier = all(len(t) > 0 for t in self.terms)

    def entries(self, terms, monos=monos_ref):
        out = []
        for t in terms:
            out += term_entries(self.feats, t, self.sparse, monos)
        return out

    def dense(self, terms, monos=monos_ref):
        return ([self.const] if self.const else []) + self.entries(terms, monos)

    def sparse_candidates(self, terms, monos=monos_ref):
        cand = OrderedDict()
        for k, v in self.entries(terms, monos) + ([("const", self.const)] if self.const else []):
            cand.setdefault(k, []).append(v)
        return cand

    def sparse_dict(self, terms, monos=monos_ref):
        d = OrderedDict(self.entries(terms, monos))
        if self.const:
            d["const"] = self.const
        return dict(d)

    def matches(self, impl, terms, monos=monos_ref):
        """does what encode returned meet the statement, reading the term list as `terms`?"""
        zero_const = (not self.const) and self.nconst > 0      # a constant summing to 0 may or may not be listed
        if self.sparse and "sparse" in impl:
            cand = self.sparse_candidates(terms, monos)
            got = dict(impl["sparse"])
            if zero_const and "const" not in cand and got.get("const") == 0:
                del got["const"]
            return set(got) == set(cand) and all(got[k] in cand[k] for k in got)
        if "dense" in impl and (not self.sparse or not self.sparse_used):
            # dense inputs; or only an unused keyword argument is sparse (then a vector over the dense features is as good)
            if self.sparse:
                fd = {c: feats_dense(self.given.get(c)) for c in self.named}
                exp = ([self.const] if self.const else [])
                for t in terms:
                    exp += term_entries(fd, t, False, monos)
            else:
                exp = self.dense(terms, monos)
            return impl["dense"] == exp or (zero_const and impl["dense"] == [Fraction(0)] + exp)
        return False

    def readings(self):
        d = dedupe(self.terms)
        return [d] if d == self.terms else [d, list(self.terms)]

    def size(self):
        tot = 0
        for t in dedupe(self.terms):
            n = 1
            for c, p in factors(t):
                n *= math.comb(len(self.feats.get(c, [])) + p - 1, p) if self.feats.get(c) else 0
            tot += n
        return tot


def all_items(case):
    for _, v in case["ns"]:
        if v["k"] == "scalar":
            yield v["v"]
        elif v["k"] == "dense":
            for it in v["v"]:
                yield it
        elif v["k"] == "sparse":
            for _, it in v["v"]:
                yield it


def fmt_out(o, limit=260):
    return json.dumps(jsonable(o) if ("dense" in o or "sparse" in o) else o)[:limit]


def show_call(case):
    def sv(v):
        try:
            return repr(build_val_plain(v))
        except Exception:
            return "?"
    return "InteractionsEncoder(%r).encode(%s)" % (build_terms(case), ", ".join("%s=%s" % (n, sv(v)) for n, v in case["ns"]))


def build_val_plain(v):
    k = v["k"]
    if k == "none":
        return None
    if k == "scalar":
        return build_item(v["v"])
    if k == "dense":
        items = [build_item(i) for i in v["v"]]
        return tuple(items) if v.get("wrap") == "tuple" else items
    return {build_key(kk): build_item(i) for kk, i in v["v"]}


def monitor(case, impl):
    """(B): the statement of C20 evaluated on what the real code returned. Returns (fails, tags, oracle)."""
    o = Oracle(case)
    fails, tags = [], []
    if not o.in_quantifier:
        return fails, ["outside:empty-term"], o
    call = show_call(case)
    if "err" in impl:
        if o.absent:
            sig = "raises-%s:absent-namespace" % impl["err"]
        else:
            sig = "raises-%s" % impl["err"]
        fails.append(F("B", "%s raised %s (%s); the property promises the monomials (absent namespaces: %s)" % (call, impl["err"], impl.get("msg"), o.absent), sig))
        return fails, tags, o
    if "unstable" in impl:
        fails.append(F("B", "%s returned different results on repeated calls: %s" % (call, json.dumps(impl["unstable"])[:300]), "not-repeatable"))
        return fails, tags, o
    if "bad" in impl:
        fails.append(F("B", "%s returned something that is neither a numeric vector nor a str->number mapping: %s" % (call, impl["bad"]), "malformed-result"))
        return fails, tags, o
    if (o.sparse_used and "sparse" not in impl) or (not o.sparse and "sparse" in impl):
        fails.append(F("B", "%s returned a %s although the inputs are %s" % (call, "mapping" if "sparse" in impl else "vector", "sparse/string-valued" if o.sparse else "dense"), "kind-mismatch"))
        return fails, tags, o
    if o.sparse and o.collided:
        tags.append("outside:feature-name-collision")
        return fails, tags, o
    if any(o.matches(impl, ts) for ts in o.readings()):
        return fails, tags, o
    # the property is violated; label the failure
    d = dedupe(o.terms)
    zq = zip_quirk_terms(case)
    label = None
    for sigs, ts, mon in (([SIG_POWS], d, monos_defective), ([SIG_ZIP], zq, monos_ref), ([SIG_POWS, SIG_ZIP], zq, monos_defective)):
        if o.matches(impl, ts, mon):
            label = sigs
            break
    as_sparse = "sparse" in impl
    if as_sparse:
        exp = {"sparse": o.sparse_dict(d)}
    elif o.sparse:      # only an unused keyword argument is sparse and a vector came back
        o2 = Oracle({"terms": case["terms"], "ns": [nv for nv in case["ns"] if nv[0] in o.named]})
        exp = {"dense": o2.dense(d)}
    else:
        exp = {"dense": o.dense(d)}
    if label:
        for s in label:
            fails.append(F("B", "%s = %s, expected %s" % (call, fmt_out(impl), fmt_out(exp)), s))
        return fails, tags, o
    if as_sparse:
        cand = o.sparse_candidates(d)
        if set(impl["sparse"]) != set(cand):
            miss = [k for k in cand if k not in impl["sparse"]][:4]
            extra = [k for k in impl["sparse"] if k not in cand][:4]
            sig = "sparse-keys:%s" % ("count" if len(cand) != len(impl["sparse"]) else "names")
            what = "missing keys %s, unexpected keys %s" % (miss, extra)
        else:
            bad = [k for k in cand if impl["sparse"][k] not in cand[k]][:4]
            sig = "sparse-values"
            what = "wrong values at %s" % [(k, str(impl["sparse"][k]), [str(x) for x in cand[k]]) for k in bad]
    else:
        e = exp["dense"]
        g = impl["dense"]
        if len(e) != len(g):
            sig, what = "dense-length", "%d entries, %d expected" % (len(g), len(e))
        elif sorted(e) == sorted(g):
            sig, what = "dense-order", "the right monomials in the wrong order"
        else:
            i = next(i for i in range(len(e)) if e[i] != g[i])
            sig, what = "dense-values", "entry %d is %s, expected %s" % (i, g[i], e[i])
    fails.append(F("B", "%s = %s, expected %s: %s" % (call, fmt_out(impl), fmt_out(exp), what), sig))
    return fails, tags, o


# ------------------------------------------------------------------ sending a case to the Lean driver
def to_driver(case):
    def item(it):
        return {"s": it["s"]} if "s" in it else {"n": it["n"]}

    def val(v):
        k = v["k"]
        if k == "none":
            return {"none": 1}
        if k == "scalar":
            return {"scalar": item(v["v"])}
        if k == "dense":
            return {"dense": [item(i) for i in v["v"]]}
        return {"sparse": [[kk, item(i)] for kk, i in v["v"]]}
    return {"terms": [{"t": t} if isinstance(t, str) else {"n": t["n"]} for t in case["terms"]],
            "ns": [[n, val(v)] for n, v in case["ns"]]}


# ------------------------------------------------------------------ generator
def W(rng, table):
    return rng.wchoice([(w, v) for v, w in table])


class C20(Property):
    id = "C20"
    prop_modules = ["CobaVerif.Props.C20"]
    quick_n = 1500
    thorough_n = 60000
    search_n = 3000
    case_timeout = 60
    workers = 8
    rule = ("term lists of 0-4 terms over namespaces {x,a} (sometimes a third), degree <= 5 per namespace with multiplicity and any "
            "letter order, 0-3 numeric constants (repeated ones included), namespaces as dense vectors of distinct primes (every monomial "
            "has a unique value), small ints with zeros/negatives/duplicates, dyadic floats, sparse dicts with str/int keys and "
            "number/string values, scalars, strings, None, [], absent, lazy/hashable wrappers; sizes biased to the (n,d) boundary "
            "(3,4),(4,3); string values also as str subclasses (coba.primitives.Categorical, a trivial subclass); 45% of the cases are "
            "histories of 2-4 encode() calls on ONE encoder object (same container types with different contents incl. sequences "
            "gaining/losing strings, the SAME list/dict object re-passed after an in-place change, alternating dense/sparse/string "
            "calls, identical repeats), every call judged on its own; non-trivial = at least one term and at least 3 expected entries; distinct by canonical JSON of the case")
    trusted_base = [
        "products are compared exactly (ints, or dyadic floats small enough that every float product is exact)",
        "Python dict/OrderedDict insertion semantics are modelled by an association list (dictSet/dictOf)",
        "str() of int keys and indices equals Lean's toString on Int/Nat",
    ]
    assumptions = [
        "a term list with a repeated term string may be read either as a list or as an ordered set: (B) accepts both readings; the model de-duplicates like the code",
        "feature names that collide after prefixing (e.g. keys 1 and '1') are outside (B): only the model correspondence applies",
        "terms that name no namespace ('') are outside the quantifier: IndexError in code and model",
        "non-numeric feature values other than str, nested containers, bool, nan/inf are not generated",
    ]
    partial_theorems = {}

    # ---- values
    def gen_numbers(self, rng, pool, k, state):
        out = []
        for _ in range(k):
            if pool == "primes":
                p = PRIMES[state["p"] % len(PRIMES)]
                state["p"] += 1
                out.append({"n": [p, 1]})
            elif pool == "small":
                out.append({"n": [rng.choice([0, 1, 1, 2, 2, 3, -1, -2, 5]), 1]})
            else:
                out.append({"n": [rng.choice([1, 3, 5, 7, -3, 9, 11]), rng.choice([1, 2, 2, 4])], "f": True})
        return out

    def gen_val(self, rng, kindw, pool, state, nmax):
        kind = W(rng, kindw)
        nw = [(0, 1), (1, 2), (2, 4), (3, 5), (4, 5), (5, 2), (6, 1)]
        n = min(W(rng, nw), nmax)
        if kind == "none":
            return {"k": "none"}
        if kind == "empty":
            return {"k": "dense", "v": [], "wrap": rng.choice(["list", "list", "tuple"])}
        if kind == "scalar":
            if rng.chance(0.2):
                return {"k": "scalar", "v": rng.choice([{"n": [0, 1]}, {"n": [0, 1], "f": True}, {"n": [1, 1]}, {"n": [-1, 1]}])}
            return {"k": "scalar", "v": self.gen_numbers(rng, pool, 1, state)[0]}
        if kind == "scalar_str":
            return {"k": "scalar", "v": {"s": rng.choice(["abc", "d", "0", "", "x1"])}}
        if kind == "dense":
            return {"k": "dense", "v": self.gen_numbers(rng, pool, n, state), "wrap": W(rng, [("list", 6), ("tuple", 2), ("lazy", 1), ("hashable", 1)])}
        if kind == "dense_str":
            items = self.gen_numbers(rng, pool, max(n, 1), state)
            for i in range(len(items)):
                if rng.chance(0.5):
                    items[i] = {"s": rng.choice(["a", "b", "c", "dd", "1", ""])}
            if not any("s" in i for i in items):
                items[rng.below(len(items))] = {"s": "s"}
            return {"k": "dense", "v": items, "wrap": rng.choice(["list", "tuple"])}
        # sparse
        keys = []
        style = rng.below(5)
        names = ["p", "q", "r", "k1", "k11", "w", "1", "2", "11", "feat"]
        coll = rng.shuffle(["1", "11", "1x1", "x1", "1%s1" % "x", "111"])
        for i in range(n):
            if style == 0:
                keys.append({"s": names[i]})
            elif style == 1:
                keys.append({"i": i + rng.choice([0, 0, 1, 10])})
            elif style == 2:
                keys.append(rng.choice([{"s": rng.choice(names)}, {"i": rng.randint(0, 12)}]))
            elif style == 3:
                keys.append({"s": "%s%d" % (rng.choice(["c", "", "1"]), i)})
            else:
                keys.append({"s": coll[i % len(coll)]})
        seen, ks = set(), []
        for k in keys:
            kk = json.dumps(k)
            if kk not in seen:
                seen.add(kk)
                ks.append(k)
        vals = self.gen_numbers(rng, pool, len(ks), state)
        for i in range(len(vals)):
            if rng.chance(0.2):
                vals[i] = {"s": rng.choice(["z", "a", "1", "lv"])}
        return {"k": "sparse", "v": [[k, v] for k, v in zip(ks, vals)], "wrap": W(rng, [("dict", 6), ("lazy", 1), ("hashable", 1)])}

    def gen_term(self, rng, letters, focus):
        if focus:
            px = W(rng, [(0, 1), (1, 1), (2, 2), (3, 5), (4, 6), (5, 4), (6, 1)])
            pa = W(rng, [(0, 6), (1, 3), (2, 2), (3, 2), (4, 1)])
        else:
            px = W(rng, [(0, 3), (1, 6), (2, 6), (3, 5), (4, 4), (5, 2)])
            pa = W(rng, [(0, 5), (1, 6), (2, 4), (3, 2), (4, 1)])
        if rng.chance(0.2):
            px, pa = pa, px
        cnt = {letters[0]: px, letters[1]: pa}
        if len(letters) > 2:
            cnt[letters[2]] = W(rng, [(0, 4), (1, 4), (2, 2), (3, 1)])
        if sum(cnt.values()) == 0:
            cnt[rng.choice(letters)] = 1
        s = "".join(c * k for c, k in cnt.items())
        arr = rng.below(100)
        if arr < 55:
            return s
        if arr < 70:
            return s[::-1]
        return "".join(rng.shuffle(list(s)))

    def gen_collision(self, rng):
        """feature names chosen so that different monomials get the same concatenated name (dict: later wins)"""
        ps = rng.shuffle(PRIMES[:8])
        sp = lambda kvs: {"k": "sparse", "v": [[{"s": k}, {"n": [v, 1]}] for k, v in kvs], "wrap": "dict"}
        if rng.chance(0.5):
            x = sp(rng.shuffle([("1", ps[0]), ("1x1", ps[1]), ("q", ps[2])])[:rng.randint(2, 3)])
            terms = rng.shuffle(["x", "xx"] + rng.choice([[], ["xxx"], ["xa"]]))
            ns = [["x", x], ["a", sp([("k", ps[3])])]]
        else:
            x = sp(rng.shuffle([("1", ps[0]), ("1a2", ps[1])]))
            a = sp(rng.shuffle([("3", ps[2]), ("2a3", ps[3])]))
            terms = rng.shuffle(["xa"] + rng.choice([[], ["x"], ["xxa"], ["a"]]))
            ns = [["x", x], ["a", a]]
        if rng.chance(0.4):
            terms.insert(rng.below(len(terms) + 1), {"n": [rng.choice([1, 2, -1]), 1]})
        return {"terms": terms, "ns": ns}

    def generate(self, rng, tier, focus=False):
        case = self.gen_call(rng, tier, focus)
        self.subclass_strings(rng, case["ns"])
        if rng.chance(0.45 if not focus else 0.6):
            self.add_history(rng, case, tier)
        return case

    def subclass_strings(self, rng, ns):
        """string values may be str subclasses (coba.primitives.Categorical, a trivial subclass)"""
        if not rng.chance(0.35):
            return
        for _, v in ns:
            its = [v["v"]] if v["k"] == "scalar" else v["v"] if v["k"] == "dense" else [it for _, it in v["v"]] if v["k"] == "sparse" else []
            for it in its:
                if "s" in it and rng.chance(0.6):
                    it["sc"] = rng.choice(["cat", "sub"])

    def vary(self, rng, v, state, pool="primes"):
        """same container type, different contents; sequences may gain or lose their strings"""
        v = json.loads(json.dumps(v))
        v.pop("obj", None)
        if v["k"] == "dense":
            items = v["v"]
            has_str = any("s" in it for it in items)
            r = rng.below(100)
            if has_str and r < 45:
                items = [it if "n" in it else self.gen_numbers(rng, pool, 1, state)[0] for it in items]
            elif not has_str and items and r < 35:
                items[rng.below(len(items))] = {"s": rng.choice(["a", "b", "red", ""])}
            else:
                items = [it if ("s" in it or rng.chance(0.3)) else self.gen_numbers(rng, pool, 1, state)[0] for it in items]
                if items and rng.chance(0.25):
                    items = items[:-1]
                elif len(items) < 5 and rng.chance(0.3):
                    items.append(self.gen_numbers(rng, pool, 1, state)[0])
            v["v"] = items
        elif v["k"] == "sparse":
            kvs = [[k, it if ("s" in it and rng.chance(0.6)) else (self.gen_numbers(rng, pool, 1, state)[0] if rng.chance(0.8) else {"s": "z"})] for k, it in v["v"]]
            if kvs and rng.chance(0.25):
                kvs = kvs[1:]
            v["v"] = kvs
        elif v["k"] == "scalar":
            v["v"] = {"s": rng.choice(["abc", "d", "q"])} if "s" in v["v"] else self.gen_numbers(rng, pool, 1, state)[0]
        return v

    def add_history(self, rng, case, tier):
        """further encode() calls on the same encoder object"""
        state = {"p": 9}
        n = W(rng, [(1, 6), (2, 3), (3, 1)])
        mode = W(rng, [("vary", 40), ("same-object", 30), ("alternate", 20), ("repeat", 10)])
        hist, prev = [], case["ns"]
        if mode == "same-object":
            k = 0
            for _, v in prev:
                if (v["k"] == "dense" and v.get("wrap", "list") == "list") or (v["k"] == "sparse" and v.get("wrap", "dict") == "dict"):
                    v["obj"] = k
                    k += 1
                elif v["k"] == "dense" and rng.chance(0.7):
                    v["wrap"], v["obj"] = "list", k
                    k += 1
        for _ in range(n):
            if mode == "alternate" or (mode != "repeat" and rng.chance(0.15)):
                other = self.gen_call(rng, tier, False)
                ns = [[c, v] for c, v in other["ns"]]
                self.subclass_strings(rng, ns)
            elif mode == "repeat":
                ns = json.loads(json.dumps(prev))
            else:
                ns = []
                # keep every product exact: a call with floats only receives small dyadic floats
                pool = "dyadic" if any(it.get("f") for it in all_items({"ns": prev})) else "primes"
                for c, v in prev:
                    v2 = self.vary(rng, v, state, pool)
                    if mode == "same-object" and "obj" in v:
                        v2["obj"] = v["obj"]
                    ns.append([c, v2])
                if rng.chance(0.1) and len(ns) > 1:
                    ns = ns[:-1]
            hist.append(ns)
            prev = ns
        case["hist"] = hist
        for i, ns in enumerate(hist):
            t = self.trim({"terms": case["terms"], "ns": ns})
            hist[i] = t["ns"]

    def gen_call(self, rng, tier, focus=False):
        if not focus and rng.chance(0.03):
            return self.gen_collision(rng)
        letters = ["x", "a"]
        if rng.chance(0.12):
            letters.append(rng.choice(["z", "b"]))
        nterms = W(rng, [(0, 1), (1, 12), (2, 12), (3, 8), (4, 3)])
        if focus:
            nterms = W(rng, [(1, 10), (2, 6), (3, 2)])
        strs = [self.gen_term(rng, letters, focus) for _ in range(nterms)]
        if strs and rng.chance(0.10):
            strs.insert(rng.below(len(strs) + 1), rng.choice(strs))
        terms = list(strs)
        ncon = W(rng, [(0, 10), (1, 6), (2, 4), (3, 1)])
        cpool = [{"n": [1, 1]}, {"n": [1, 1]}, {"n": [2, 1]}, {"n": [-1, 1]}, {"n": [0, 1]}, {"n": [1, 2], "f": True}, {"n": [5, 2], "f": True}, {"n": [1, 1], "f": True}, {"n": [3, 1]}]
        same = rng.chance(0.5)
        first = rng.choice(cpool)
        for i in range(ncon):
            c = first if (same or i == 0) else rng.choice(cpool)
            pos = 0 if rng.chance(0.45) else rng.below(len(terms) + 1)
            terms.insert(pos, dict(c))
        # namespaces
        call = W(rng, [("dense", 45), ("sparse", 30), ("mixed", 25)])
        pool = W(rng, [("primes", 70), ("small", 15), ("dyadic", 15)])
        if call == "dense":
            kindw = [("dense", 74), ("scalar", 8), ("none", 6), ("empty", 6), ("absent", 5)]
        elif call == "sparse":
            kindw = [("sparse", 55), ("scalar_str", 8), ("dense_str", 12), ("dense", 8), ("none", 4), ("empty", 4), ("scalar", 3), ("absent", 4)]
        else:
            kindw = [("dense", 30), ("sparse", 20), ("scalar", 10), ("scalar_str", 6), ("dense_str", 8), ("none", 8), ("empty", 8), ("absent", 5)]
        maxdeg = {c: max([t.count(c) for t in strs] + [0]) for c in letters}
        state = {"p": 0}
        ns = []
        for c in letters:
            nmax = 6
            if pool == "dyadic":
                nmax = 4
            if maxdeg[c] >= 5:
                nmax = min(nmax, 5)
            kw2 = kindw
            if focus:
                kw2 = [("dense", 70), ("sparse", 20), ("absent", 5), ("none", 5)] if call != "sparse" else [("sparse", 80), ("dense", 10), ("absent", 5), ("none", 5)]
            kind = W(rng, kw2)
            if kind == "absent":
                continue
            if focus and maxdeg[c] >= 3:
                v = self.gen_val(rng, [(kind, 1)], pool, state, nmax)
                if v["k"] in ("dense", "sparse") and len(v["v"]) < 3:
                    need = rng.choice([3, 4, 4, 5]) - len(v["v"])
                    extra = self.gen_numbers(rng, pool, need, state)
                    if v["k"] == "dense":
                        v["v"] += extra
                    else:
                        v["v"] += [[{"s": "e%d" % i}, e] for i, e in enumerate(extra)]
            else:
                v = self.gen_val(rng, [(kind, 1)], pool, state, nmax)
            ns.append([c, v])
        if rng.chance(0.08):
            ns.append(["u", self.gen_val(rng, [("dense", 3), ("scalar_str", 1), ("sparse", 1), ("none", 1)], pool, state, 3)])
        if len(ns) > 1 and rng.chance(0.25):
            ns = rng.shuffle(ns)
        case = {"terms": terms, "ns": ns}
        return self.trim(case)

    def trim(self, case, limit=4000):
        """keep the expected output small: drop trailing features of the largest namespace"""
        for _ in range(40):
            o = Oracle(case)
            if o.size() <= limit:
                break
            big = max(case["ns"], key=lambda nv: len(nv[1].get("v", [])) if nv[1]["k"] in ("dense", "sparse") else 0)
            if big[1]["k"] not in ("dense", "sparse") or len(big[1]["v"]) <= 1:
                break
            big[1]["v"] = big[1]["v"][:-1]
        return case

    def search(self, rng, tier):
        return self.generate(rng, tier, focus=True)

    # ---- finite sweeps and boundary corpus
    def single(self, n, d, mode, extra_terms=(), a=None):
        if mode == "dense":
            xv = {"k": "dense", "v": [{"n": [p, 1]} for p in PRIMES[:n]], "wrap": "list"}
        elif mode == "strings":
            xv = {"k": "dense", "v": [{"s": chr(ord("a") + i)} for i in range(n)], "wrap": "list"}
        else:
            xv = {"k": "sparse", "v": [[{"s": "k%d" % i}, {"n": [p, 1]}] for i, p in enumerate(PRIMES[:n])], "wrap": "dict"}
        ns = [["x", xv]]
        if a is not None:
            ns.append(["a", a])
        return {"terms": ["x" * d] + list(extra_terms), "ns": ns}

    def exhaustive(self, tier):
        out = []
        for n in range(0, 7):
            for d in range(1, 7):
                for mode in ("dense", "sparse", "strings"):
                    out.append(self.single(n, d, mode))
                if n * d <= 20:
                    out.append(self.single(n, d, "dense", extra_terms=("xa", "a" * min(d, 3)), a={"k": "dense", "v": [{"n": [p, 1]} for p in PRIMES[10:10 + min(n, 3)]], "wrap": "tuple"}))
        return out

    def corpus(self):
        P = lambda *ps: {"k": "dense", "v": [{"n": [p, 1]} for p in ps], "wrap": "list"}
        one = {"n": [1, 1]}
        D = lambda *its: {"k": "dense", "v": list(its), "wrap": "list"}
        cs = [
            self.single(3, 4, "dense"), self.single(4, 3, "dense"), self.single(3, 3, "dense"), self.single(2, 6, "dense"),
            self.single(5, 5, "dense"), self.single(3, 4, "sparse"), self.single(4, 3, "strings"), self.single(1, 5, "dense"),
            self.single(0, 2, "dense"),
            {"terms": [one, one, "x", "a"], "ns": [["x", P(2)], ["a", P(3)]]},
            {"terms": ["x", one, "x"], "ns": [["x", P(2, 3)]]},
            {"terms": ["x", "x"], "ns": [["x", P(2, 3)]]},
            {"terms": ["x", one, "x", "a", "a"], "ns": [["x", P(2, 3)], ["a", P(5)]]},
            {"terms": ["xa"], "ns": [["x", P(2, 3)]]},
            {"terms": ["xa", "x"], "ns": [["x", {"k": "sparse", "v": [[{"s": "p"}, {"n": [2, 1]}]], "wrap": "dict"}]]},
            {"terms": ["xa"], "ns": [["x", P(2, 3)], ["a", {"k": "none"}]]},
            {"terms": ["xa", "a"], "ns": [["x", P()], ["a", P(5, 7)]]},
            {"terms": ["xa"], "ns": [["x", P(2, 3)], ["a", {"k": "scalar", "v": {"n": [7, 1]}}]]},
            {"terms": ["x"], "ns": [["x", P(2, 3)], ["a", {"k": "scalar", "v": {"s": "s"}}]]},
            {"terms": ["ax", "xa", "xax", {"n": [5, 2], "f": True}], "ns": [["x", P(2, 3)], ["a", P(5, 7)]]},
            {"terms": ["xa", {"n": [3, 1]}], "ns": [["x", {"k": "dense", "v": [{"s": "u"}, {"n": [3, 1]}], "wrap": "list"}], ["a", {"k": "dense", "v": [{"n": [5, 1]}, {"s": "w"}], "wrap": "tuple"}]]},
            {"terms": ["xx"], "ns": [["x", {"k": "sparse", "v": [[{"i": 1}, {"n": [2, 1]}], [{"s": "1"}, {"n": [3, 1]}]], "wrap": "dict"}]]},
            {"terms": ["xx"], "ns": [["x", {"k": "sparse", "v": [[{"s": "1"}, {"n": [2, 1]}], [{"s": "11"}, {"n": [3, 1]}], [{"s": "1x1"}, {"n": [5, 1]}]], "wrap": "dict"}]]},
            {"terms": ["xx"], "ns": [["x", {"k": "sparse", "v": [[{"s": "1"}, {"s": "2"}], [{"i": 12}, {"n": [7, 1]}], [{"s": "12"}, {"n": [5, 1]}]], "wrap": "dict"}]]},
            {"terms": ["c", {"n": [2, 1]}], "ns": [["c", {"k": "sparse", "v": [[{"s": "onst"}, {"n": [3, 1]}]], "wrap": "dict"}]]},
            {"terms": ["x", "xx"], "ns": [["x", {"k": "sparse", "v": [[{"s": "1"}, {"n": [2, 1]}], [{"s": "1x1"}, {"n": [3, 1]}]], "wrap": "dict"}]]},
            {"terms": ["xa"], "ns": [["x", {"k": "sparse", "v": [[{"s": "1"}, {"n": [2, 1]}], [{"s": "1a2"}, {"n": [3, 1]}]], "wrap": "dict"}], ["a", {"k": "sparse", "v": [[{"s": "2a3"}, {"n": [5, 1]}], [{"s": "3"}, {"n": [7, 1]}]], "wrap": "dict"}]]},
            {"terms": [""], "ns": [["x", P(2)]]},
            {"terms": [{"n": [0, 1]}, "x"], "ns": [["x", P(2, 3)]]},
            {"terms": [], "ns": [["x", P(2, 3)]]},
            {"terms": [{"n": [2, 1]}], "ns": []},
            {"terms": ["xxxa", "aaa"], "ns": [["a", P(2, 3, 5, 7)], ["x", P(11, 13, 17)]]},
            {"terms": ["xxxxaaa"], "ns": [["x", P(2, 3, 5)], ["a", P(7, 11, 13, 17)]]},
            # histories on one encoder object (minimised seeded mutants m2-m4 of round c20b)
            {"terms": ["x", "xx"], "ns": [["x", D({"s": "a"}, {"n": [3, 1]})]], "hist": [[["x", P(2, 3)]], [["x", D({"n": [5, 1]}, {"s": "b"})]]]},
            {"terms": ["x", "xx"], "ns": [["x", P(2, 3)]], "hist": [[["x", D({"s": "a"}, {"n": [3, 1]})]], [["x", P(5, 7)]]]},
            {"terms": ["xa"], "ns": [], "hist": [[["x", D({"s": ""})]]]},
            {"terms": ["xx", "xa"], "ns": [["x", dict(P(2, 3), obj=0)], ["a", dict(P(5), obj=1)]],
             "hist": [[["x", dict(P(7, 11), obj=0)], ["a", dict(P(5), obj=1)]], [["x", dict(P(7, 11, 13), obj=0)], ["a", dict(P(17, 19), obj=1)]]]},
            {"terms": ["xx"], "ns": [["x", {"k": "sparse", "obj": 0, "wrap": "dict", "v": [[{"s": "p"}, {"n": [2, 1]}], [{"s": "q"}, {"n": [3, 1]}]]}]],
             "hist": [[["x", {"k": "sparse", "obj": 0, "wrap": "dict", "v": [[{"s": "p"}, {"n": [5, 1]}], [{"s": "r"}, {"s": "v"}]]}]]]},
            {"terms": ["x"], "ns": [["x", {"k": "scalar", "v": {"s": "d", "sc": "cat"}}]]},
            {"terms": ["xx", "xa"], "ns": [["x", D({"s": "red", "sc": "cat"}, {"n": [3, 1]})], ["a", D({"n": [5, 1]}, {"s": "s", "sc": "sub"})]]},
            {"terms": ["xa"], "ns": [["x", {"k": "sparse", "wrap": "dict", "v": [[{"i": 1}, {"s": "red", "sc": "cat"}], [{"s": "k"}, {"n": [3, 1]}]]}], ["a", {"k": "scalar", "v": {"s": "t", "sc": "sub"}}]]},
        ]
        return cs

    # ---- evaluation
    def evaluate(self, case, driver):
        """a case is a history of 1-4 encode() calls on ONE encoder object; encode is a function of (terms,
        arguments) only, so every call is judged on its own, (A)(B)(C), exactly like a single call"""
        calls = calls_of(case)
        if len(calls) == 1:
            return self.evaluate_call(single(case, 0), run_impl(single(case, 0)), driver)
        impls = run_history(case)
        out = {"fails": [], "tags": ["hist:%d" % len(calls)], "nontrivial": False, "impl": [], "model": []}
        slots = [v.get("obj") for ns in calls for _, v in ns if v.get("obj") is not None]
        if len(set(slots)) < len(slots):
            out["tags"].append("hist:same-object-changed-in-place")
        kinds = set()
        for i in range(len(calls)):
            one = single(case, i)
            r = self.evaluate_call(one, impls[i], driver)
            kinds.add("sparse" if Oracle(one).sparse else "dense")
            for f in r["fails"]:
                f = dict(f)
                if f["kind"] in ("A", "B") and i > 0:
                    # does the same call on a fresh encoder with fresh argument objects behave?
                    alone = self.evaluate_call(one, run_impl(one), driver)
                    if not any(g["kind"] == f["kind"] for g in alone["fails"]):
                        f["sig"] = "stateful:" + f["sig"]
                        f["what"] = ("encode() depends on earlier calls on the same encoder object (a fresh encoder with fresh "
                                     "arguments gives the right result). ") + f["what"]
                f["what"] = "call #%d of %d on one encoder: %s" % (i + 1, len(calls), f["what"])
                out["fails"].append(f)
            out["tags"] += r["tags"] if i == 0 else [t for t in r["tags"] if t.startswith(("B:", "A:", "result:", "val:"))]
            out["nontrivial"] = out["nontrivial"] or r["nontrivial"]
            out["impl"].append(r["impl"])
            out["model"].append(r["model"])
        if len(kinds) > 1:
            out["tags"].append("hist:dense-and-sparse-calls")
        return out

    def evaluate_call(self, case, impl, driver):
        fails, tags, o = monitor(case, impl)
        # tags
        tags.append("call:" + ("sparse" if o.sparse else "dense"))
        tags.append("result:" + ("err:" + impl["err"] if "err" in impl else "sparse" if "sparse" in impl else "dense" if "dense" in impl else "other"))
        nstr = len(o.terms)
        tags.append("terms:%d" % min(nstr, 4))
        if len(dedupe(o.terms)) < nstr:
            tags.append("terms:duplicate-string")
        ncon = len(case["terms"]) - nstr
        tags.append("consts:%d" % min(ncon, 3))
        if o.const == 0 and ncon:
            tags.append("const:sum-zero")
        if o.absent:
            tags.append("ns:absent")
        for n, v in case["ns"]:
            tags.append("val:" + v["k"] + (":str" if val_is_sparse(v) and v["k"] != "sparse" else "") + ((":" + v["wrap"]) if v.get("wrap") not in (None, "list", "dict") else ""))
            if v["k"] in ("dense", "sparse") and not v["v"]:
                tags.append("val:empty")
        maxd = 0
        for t in dedupe(o.terms):
            if len(factors(t)) >= 2:
                tags.append("term:cross%d" % min(len(factors(t)), 3))
            if list(t) != sorted(t, key=lambda c: t.index(c)):
                tags.append("term:interleaved")
            for c, p in factors(t):
                n = len(o.feats.get(c, []))
                maxd = max(maxd, p)
                if (n >= 3 and p >= 4) or (n >= 4 and p >= 3):
                    tags.append("region:n>=3,d>=4|n>=4,d>=3")
                if n >= 2 and p >= 2:
                    tags.append("region:n>=2,d>=2")
        tags.append("maxdeg:%d" % min(maxd, 6))
        if any(it.get("f") for it in all_items(case)):
            tags.append("values:float")
        for sc in sorted(set(it["sc"] for it in all_items(case) if it.get("sc"))):
            tags.append("values:str-subclass:" + sc)
        if o.sparse and not o.collided and "sparse" in impl:
            ents = o.entries(dedupe(o.terms))
            if len(set(k for k, _ in ents)) < len(ents):
                tags.append("sparse:key-collision")
        for f in fails:
            tags.append("B:" + f["sig"])
        size = o.size() if o.in_quantifier else 0
        nontrivial = bool(o.terms) and o.in_quantifier and size >= 3
        model = None
        if driver is not None:
            ans = driver.ask(to_driver(case))
            model = ans["model"]
            m = from_model(model)
            if not self.same(impl, m):
                # the three recorded defects are switchable in the model: an implementation that equals the
                # model of the unchanged tree (or of a partly repaired one) corresponds; (B) reports the defect
                which = [(fp, fz, fa) for fp, fz, fa, out in ans["variants"] if self.same(impl, from_model(out))]
                from core.engine import load_known
                open_known = [k for k in load_known() if k.get("property") == "C20" and k.get("status", "open") == "open"]
                if which and open_known:
                    # only while a defect is still recorded as open; all three are repaired in /repo now, so
                    # the implementation has to equal the fixed model
                    tags.append("A:matches-model-with-recorded-defects")
                else:
                    kind = "err" if ("err" in impl or "err" in m) else "sparse" if "sparse" in m else "dense"
                    fails.append(F("A", "%s: implementation %s, model %s" % (show_call(case), fmt_out(impl), json.dumps(model)[:260]), "A:" + kind))
            # (C) the model meets the spec whenever the theorem's hypothesis holds, and the Lean spec is the
            # reading used by the direct monitor (itertools.combinations_with_replacement, itertools.product)
            spec = from_model(ans["spec"])
            if ans["hyp"]:
                if m != spec:
                    fails.append(F("C", "model %s differs from its specification %s although every term names a namespace" % (json.dumps(model)[:200], json.dumps(ans["spec"])[:200]), "C:model-vs-spec"))
                d = dedupe(o.terms)
                mine = {"sparse": o.sparse_dict(d)} if o.sparse else {"dense": o.dense(d)}
                if mine != spec:
                    fails.append(F("C", "Lean specification %s differs from the itertools reference %s" % (json.dumps(ans["spec"])[:200], fmt_out(mine)), "C:spec-vs-itertools"))
            elif m != {"err": "IndexError"}:
                fails.append(F("C", "a term without namespaces should give IndexError in the model", "C:empty-term"))
        return {"fails": fails, "nontrivial": nontrivial, "tags": tags, "impl": jsonable(impl) if ("dense" in impl or "sparse" in impl) else impl, "model": model}

    @staticmethod
    def same(impl, m):
        if "err" in impl or "err" in m:
            return impl.get("err") == m.get("err")
        if "dense" in impl and "dense" in m:
            return impl["dense"] == m["dense"]
        if "sparse" in impl and "sparse" in m:
            return impl["sparse"] == m["sparse"]
        return False

    # ---- shrinking
    def shrink(self, case):
        # coarse candidates come first; the number per round is capped (every candidate is a full evaluation)
        return itertools.islice(self.shrink_all(case), 160)

    def shrink_all(self, case):
        calls = calls_of(case)
        mk = lambda terms, cs: dict({"terms": terms, "ns": cs[0]}, **({"hist": cs[1:]} if len(cs) > 1 else {}))
        if len(calls) > 1:
            for i in range(len(calls) - 1, -1, -1):
                yield mk(case["terms"], calls[:i] + calls[i + 1:])
            if any("obj" in v for ns in calls for _, v in ns):
                yield mk(case["terms"], [[[n, {k: x for k, x in v.items() if k != "obj"}] for n, v in ns] for ns in calls])
        for ci, ns in enumerate(calls):
            for terms2, ns2 in self.shrink_call(case["terms"], ns):
                if terms2 is not case["terms"] and ci > 0:
                    continue
                yield mk(terms2, calls[:ci] + [ns2] + calls[ci + 1:])
            for i, (n, v) in enumerate(ns):
                for j, it in enumerate([v["v"]] if v["k"] == "scalar" else v["v"] if v["k"] == "dense" else [e[1] for e in v["v"]] if v["k"] == "sparse" else []):
                    if "sc" in it and it["sc"] != "sub":
                        v2 = json.loads(json.dumps(v))
                        tgt = v2["v"] if v["k"] == "scalar" else v2["v"][j] if v["k"] == "dense" else v2["v"][j][1]
                        tgt["sc"] = "sub"
                        yield mk(case["terms"], calls[:ci] + [ns[:i] + [[n, v2]] + ns[i + 1:]] + calls[ci + 1:])

    def shrink_call(self, terms, ns):
        """smaller (terms, ns) pairs for one call"""
        for i in range(len(terms)):
            yield (terms[:i] + terms[i + 1:], ns)
        for i in range(len(ns)):
            yield (terms, ns[:i] + ns[i + 1:])
        for i, t in enumerate(terms):
            if isinstance(t, str) and len(t) > 1:
                for j in range(len(t)):
                    yield (terms[:i] + [t[:j] + t[j + 1:]] + terms[i + 1:], ns)
        for i, (n, v) in enumerate(ns):
            if v["k"] in ("dense", "sparse"):
                for j in range(len(v["v"]) - 1, -1, -1):
                    yield (terms, ns[:i] + [[n, dict(v, v=v["v"][:j] + v["v"][j + 1:])]] + ns[i + 1:])
                if v.get("wrap") not in (None, "list", "dict"):
                    yield (terms, ns[:i] + [[n, dict(v, wrap="list" if v["k"] == "dense" else "dict")]] + ns[i + 1:])
                if v["k"] == "sparse" and not any("s" in it for _, it in v["v"]):
                    yield (terms, ns[:i] + [[n, {"k": "dense", "v": [it for _, it in v["v"]], "wrap": "list"}]] + ns[i + 1:])
                for j, e in enumerate(v["v"]):
                    it = e if v["k"] == "dense" else e[1]
                    if "n" in it and (it.get("f") or it["n"][1] != 1):
                        it2 = {"n": [PRIMES[j % len(PRIMES)], 1]}
                        nv = list(v["v"])
                        nv[j] = it2 if v["k"] == "dense" else [e[0], it2]
                        yield (terms, ns[:i] + [[n, dict(v, v=nv)]] + ns[i + 1:])
                    if "s" in it and len(it["s"]) > 1:
                        nv = list(v["v"])
                        it2 = dict(it, s=it["s"][:1])
                        nv[j] = it2 if v["k"] == "dense" else [e[0], it2]
                        yield (terms, ns[:i] + [[n, dict(v, v=nv)]] + ns[i + 1:])

    def snippet(self, case):
        if case is None:
            return ""
        calls = calls_of(case)
        lines = ["import sys, itertools; sys.path.insert(0, %r)" % os.environ.get("COBA_REPO", "/repo"),
                 "from coba.encodings import InteractionsEncoder"]
        vals = [v for ns in calls for _, v in ns]
        wraps = set(v.get("wrap") for v in vals)
        if "lazy" in wraps:
            lines.append("from coba.pipes.rows import LazyDense, LazySparse")
        if "hashable" in wraps:
            lines.append("from coba.primitives import HashableDense, HashableSparse")
        scs = set(it.get("sc") for one in [{"ns": ns} for ns in calls] for it in all_items(one))
        if "cat" in scs:
            lines.append("from coba.primitives import Categorical")
        if "sub" in scs:
            lines.append("class S(str): pass")

        def sv(v):
            p = repr(build_val_plain(v))
            w = v.get("wrap")
            if w == "lazy":
                return ("LazyDense(%s)" if v["k"] == "dense" else "LazySparse(%s)") % p
            if w == "hashable":
                return ("HashableDense(%s)" if v["k"] == "dense" else "HashableSparse(%s)") % p
            return p
        lines.append("enc = InteractionsEncoder(%r)" % (build_terms(case),))
        seen = {}
        for i, ns in enumerate(calls):
            args = []
            for n, v in ns:
                slot = v.get("obj")
                plain = (v["k"] == "dense" and v.get("wrap", "list") == "list") or (v["k"] == "sparse" and v.get("wrap", "dict") == "dict")
                if slot is None or not plain:
                    args.append("%s=%s" % (n, sv(v)))
                    continue
                name = "obj%d" % slot
                if seen.get(slot) == v["k"]:
                    lines.append("%s[:] = %s  # the same list object, changed in place" % (name, sv(v)) if v["k"] == "dense"
                                 else "%s.clear(); %s.update(%s)  # the same dict object, changed in place" % (name, name, sv(v)))
                else:
                    lines.append("%s = %s" % (name, sv(v)))
                    seen[slot] = v["k"]
                args.append("%s=%s" % (n, name))
            lines.append("try: print(enc.encode(%s))" % ", ".join(args))
            lines.append("except Exception as e: print('raised', repr(e))")
            try:
                o = Oracle(single(case, i))
                d = dedupe(o.terms)
                if o.sparse:
                    lines.append("# expected mapping (names concatenated, values multiplied): %s" % {k: (int(v) if v.denominator == 1 else float(v)) for k, v in o.sparse_dict(d).items()})
                else:
                    lines.append("# expected vector (constant, then per term combinations_with_replacement x outer product): %s" % [(int(v) if v.denominator == 1 else float(v)) for v in o.dense(d)])
            except Exception:
                pass
        return "\n".join(lines) + "\n"


PROPERTY = C20()
