"""C10 Changing representation never changes which action earns which reward.

Case format (all JSON):
  {"stream":[INTER...], "chain":[STEP...], "via":"filters"|"pipes"|"shortcuts",
   "delivery":"list"|"lazy"   (lazy: every filter is fed from a generator that builds each interaction and its action objects
                               freshly and drops it right after it was yielded; the output is judged and dropped one by one),
   "wrap":null|"lazysparse"|"hashable"   (sparse actions are handed over as coba.pipes.rows.LazySparse / HashableSparse views),
   "more":[[INTER...]...]      (further sequences pushed through the SAME filter objects, one after the other, each judged on its own),
   "collection":true, "read_order":[member...]   (via "shortcuts" only: stream and more are the members of ONE Environments object; the
                               shortcuts are applied to the collection, the members are read in `read_order`, and every member must
                               come out as a fresh pipeline on that member alone would give it),
   "abort":k                   (round g: BEFORE everything else the same filter objects are given `stream` from a source that raises
                               ConnectionError when item k is requested — an aborted first read; then `stream` (the complete re-read) and `more`
                               are judged as usual.  What the aborted read leaves in a Densify(lookup) table — the keys of items < k — is fed to the model as `prior`)}
  INTER = {"context":V, "actions":[V...]?, "rewards":REW?, "feedbacks":REW?, "action":V?, "reward":Q?, "probability":Q?,
           "order":[key...]?   (the insertion order of the interaction dict's keys; default = the constructor's order)}
  V     = null | {"n":[num,den]} | {"s":str} | {"c":str,"L":[str...]} | {"l":[V...]} | {"t":[V...]} | {"d":[[key,V]...]}
          (outputs only: {"z":[[idx,V]...],"len":n} = coba.pipes.SparseDense)
  REW   = {"k":"list"|"tuple","v":[Q...]} | {"k":"binary","argmax":V,"value":Q} | {"k":"discrete","actions":[V...],"values":[Q...],"default":Q,"dict":bool}
          | {"k":"hamming","argmax":[V...]} | {"k":"l1","argmax":Q} | {"k":"fn","table":[[V,Q]...],"default":Q}
  STEP  = {"f":"repr","cc":mode,"ca":mode} | {"f":"flatten"} | {"f":"sparsify","c":b,"a":b} | {"f":"densify","n":int,"m":"lookup"|"hashing","c":b,"a":b}
          | {"f":"noise","c":NOISE?,"a":NOISE?,"seed":int} | {"f":"batch","n":int|null} | {"f":"unbatch"} | {"f":"finalize"}
  NOISE = {"kind":"fn","mul":int,"add":int} | {"kind":"i","lo":int,"hi":int} | {"kind":"g","m":int,"s":int} | {"kind":"g2","m":int,"s":int}
Q = [num,den] exact rational.
"""
import json
import os
import zlib
from fractions import Fraction

from core.engine import Property, F

MODES = [None, "onehot", "onehot_tuple", "string"]
FN_DEFAULT = [-999, 1]


# ------------------------------------------------------------------ rationals
def q(x):
    if isinstance(x, bool):
        x = int(x)
    if isinstance(x, int):
        return [x, 1]
    fr = Fraction(x)
    return [fr.numerator, fr.denominator]


def unq(p):
    if p[1] == 1:
        return int(p[0])
    return p[0] / p[1]


def same_num(a, b):
    """exact equality of two python numbers (int/float), no tolerance"""
    try:
        return Fraction(a) == Fraction(b)
    except Exception:
        return False


# ------------------------------------------------------------------ values: JSON -> python (fresh objects) and back
def mk(v):
    from coba.primitives import Categorical
    if v is None:
        return None
    if "n" in v:
        return unq(v["n"])
    if "s" in v:
        return v["s"]
    if "c" in v:
        return Categorical(v["c"], list(v["L"]))
    if "l" in v:
        return [mk(x) for x in v["l"]]
    if "t" in v:
        return tuple(mk(x) for x in v["t"])
    if "d" in v:
        return {k: mk(x) for k, x in v["d"]}
    raise ValueError("bad value %r" % (v,))


def enc_ordered(x):
    """python value -> JSON value keeping the insertion order of dicts (what Densify's look-up table depends on)"""
    if isinstance(x, dict) or type(x).__name__ in ("LazySparse", "HashableSparse"):
        return {"d": [[str(k), enc_ordered(y)] for k, y in x.items()]}
    if isinstance(x, list) and not hasattr(x, "is_batch"):
        return {"l": [enc_ordered(y) for y in x]}
    if isinstance(x, tuple):
        return {"t": [enc_ordered(y) for y in x]}
    return enc(x)


def enc(x):
    """python value -> canonical JSON value (dicts sorted by key)"""
    from coba.primitives import Categorical
    from coba.pipes import SparseDense
    if x is None:
        return None
    if isinstance(x, Categorical):
        return {"c": str(x), "L": [str(s) for s in x.levels]}
    if isinstance(x, str):
        return {"s": str(x)}
    if isinstance(x, (bool, int, float)):
        return {"n": q(x)}
    if isinstance(x, list):
        return {"l": [enc(y) for y in x]}
    if isinstance(x, tuple):
        return {"t": [enc(y) for y in x]}
    if isinstance(x, dict) or type(x).__name__ in ("LazySparse", "HashableSparse"):
        return {"d": sorted(([str(k), enc(y)] for k, y in x.items()), key=lambda p: p[0])}
    if isinstance(x, SparseDense):
        return {"z": sorted(([int(k), enc(y)] for k, y in x._values.items()), key=lambda p: p[0]), "len": int(x._length)}
    return {"other": type(x).__name__}


def canon_model_val(v):
    """model's JSON value -> same canonical form as enc() (dict entries sorted)"""
    if v is None:
        return None
    if "l" in v:
        return {"l": [canon_model_val(x) for x in v["l"]]}
    if "t" in v:
        return {"t": [canon_model_val(x) for x in v["t"]]}
    if "d" in v:
        return {"d": sorted(([k, canon_model_val(x)] for k, x in v["d"]), key=lambda p: p[0])}
    if "z" in v:
        return {"z": sorted(([k, canon_model_val(x)] for k, x in v["z"]), key=lambda p: p[0]), "len": v["len"]}
    if "n" in v:
        fr = Fraction(v["n"][0], v["n"][1])
        return {"n": [fr.numerator, fr.denominator]}
    return v


def close(a, b, tol=Fraction(1, 10 ** 9)):
    """canonical JSON values equal up to float rounding of numbers (the model computes in exact rationals)"""
    if isinstance(a, dict) and isinstance(b, dict):
        if set(a) != set(b):
            return False
        if "n" in a:
            x, y = Fraction(*a["n"]), Fraction(*b["n"])
            return x == y or abs(x - y) <= tol * max(abs(x), abs(y))
        return all(close(a[k], b[k], tol) for k in a)
    if isinstance(a, list) and isinstance(b, list):
        return len(a) == len(b) and all(close(x, y, tol) for x, y in zip(a, b))
    if isinstance(a, Fraction) and isinstance(b, Fraction):
        return a == b or abs(a - b) <= tol * max(abs(a), abs(b))
    return a == b


def mk_rew(r):
    """JSON reward -> python object of the real classes (or list / plain function)"""
    from coba.primitives import BinaryReward, DiscreteReward, HammingReward, L1Reward
    if r is None:
        return None
    k = r["k"]
    if k == "list":
        return [unq(x) for x in r["v"]]
    if k == "tuple":
        return tuple(unq(x) for x in r["v"])
    if k == "binary":
        val = unq(r["value"])
        return BinaryReward(mk(r["argmax"])) if val == 1 and r.get("defaultvalue") else BinaryReward(mk(r["argmax"]), val)
    if k == "discrete":
        acts = [mk(a) for a in r["actions"]]
        vals = [unq(x) for x in r["values"]]
        dflt = unq(r.get("default", [0, 1]))
        if r.get("dict"):
            return DiscreteReward(dict(zip(acts, vals)), default=dflt)
        return DiscreteReward(acts, vals, default=dflt)
    if k == "hamming":
        return HammingReward([mk(a) for a in r["argmax"]])
    if k == "l1":
        return L1Reward(unq(r["argmax"]))
    if k == "fn":
        table = [(mk(a), unq(x)) for a, x in r["table"]]
        dflt = unq(r.get("default", FN_DEFAULT))

        def fn(action, table=table, dflt=dflt):
            for key, val in table:
                if key == action:
                    return val
            return dflt
        return fn
    raise ValueError("bad reward %r" % (r,))


def wrap_sparse(x, wrap):
    if wrap and isinstance(x, dict):
        if wrap == "lazysparse":
            from coba.pipes.rows import LazySparse
            return LazySparse(x)
        from coba.primitives import HashableSparse
        return HashableSparse(x)
    return x


def _mk_inter(it, wrap=None):
    from coba.primitives import SimulatedInteraction, GroundedInteraction, LoggedInteraction
    ctx = mk(it.get("context"))
    acts = [wrap_sparse(mk(a), wrap) for a in it["actions"]] if "actions" in it else None
    if "action" in it:
        kw = {}
        if acts is not None:
            kw["actions"] = acts
        if "rewards" in it:
            kw["rewards"] = mk_rew(it["rewards"])
        return LoggedInteraction(ctx, wrap_sparse(mk(it["action"]), wrap), unq(it["reward"]), unq(it["probability"]) if it.get("probability") is not None else None, **kw)
    if "feedbacks" in it:
        return GroundedInteraction(ctx, acts, mk_rew(it["rewards"]), mk_rew(it["feedbacks"]))
    return SimulatedInteraction(ctx, acts, mk_rew(it["rewards"]))


def mk_inter(it, wrap=None):
    """the interaction, with its keys inserted in the order `it["order"]` asks for (interactions are plain dicts: nothing may depend on it)"""
    x = _mk_inter(it, wrap)
    order = it.get("order")
    if not order:
        return x
    y = dict.__new__(type(x))
    for k in order:
        if k in x:
            dict.__setitem__(y, k, x[k])
    for k in x:
        if k not in y:
            dict.__setitem__(y, k, x[k])
    return y


def first_kinds(it):
    """number of different value kinds (sparse / dense / scalar …) among the actions of an interaction"""
    return len({sorted(a.keys())[0] if a is not None and "c" not in a else "c" for a in (it.get("actions") or [])})


def sequences(case):
    return [case["stream"]] + list(case.get("more") or [])


def source_of(case, seq):
    """zero-argument callable giving the interactions of `seq`: a materialised list, or a generator of fresh objects"""
    wrap = case.get("wrap")
    if case.get("delivery") == "lazy":
        def gen():
            for it in seq:
                yield mk_inter(it, wrap)
        return gen
    return lambda: [mk_inter(it, wrap) for it in seq]


def mk_noise(nz):
    if nz is None:
        return None
    k = nz["kind"]
    if k == "fn":
        mul, add = nz["mul"], nz["add"]
        return lambda x, rng, mul=mul, add=add: x * mul + add
    if k == "i":
        return ("i", nz["lo"], nz["hi"])
    if k == "g":
        return ("g", nz["m"], nz["s"])
    if k == "g2":
        return (nz["m"], nz["s"])
    raise ValueError(k)


# phase 6: constructor calls with arguments left out.  A step may carry "omit": [keys]; those arguments are then NOT handed to the constructor
# (the class for filters / Pipes.join / BatchSafe'd steps, the Environments shortcut otherwise) and the step's value for them is what the
# constructor's default is expected to be (the model's named defaults; compared with inspect.signature of the real code and with the source).
FILTER_DEFAULTS = {"sparsify": {"c": True, "a": False}, "densify": {"n": 400, "m": "lookup", "c": True, "a": False},
                   "repr": {"cc": None, "ca": None}, "cycle": {"after": 0}}
ENV_DEFAULTS = {"sparsify": {"c": True, "a": False}, "densify": {"c": True, "a": False}, "repr": {"cc": "onehot", "ca": "onehot"}}
FILTER_KW = {"sparsify": {"c": "context", "a": "action"}, "densify": {"n": "n_feats", "m": "method", "c": "context", "a": "action"},
             "repr": {"cc": "categorical_context", "ca": "categorical_actions"}, "cycle": {"after": "after"}}
ENV_KW = {"sparsify": {"c": "context", "a": "action"}, "densify": {"n": "n_feats", "m": "method", "c": "context", "a": "action"},
          "repr": {"cc": "cat_context", "ca": "cat_actions"}}


def resolve_defaults(case):
    """the case with every left-out constructor argument set to the default its constructor is expected to have (idempotent)"""
    chain = case.get("chain") or []
    if not any(st.get("omit") for st in chain):
        return case
    bstates, _ = batch_states(chain)
    out = []
    for st, b in zip(chain, bstates):
        if st.get("omit"):
            env = case.get("via") == "shortcuts" and not b
            d = (ENV_DEFAULTS if env else FILTER_DEFAULTS).get(st["f"], {})
            st = dict(st)
            st["omit"] = [k for k in st["omit"] if k in d]
            for k in st["omit"]:
                st[k] = d[k]
            st["ctor"] = "env" if env else "filter"
            if not st["omit"]:
                del st["omit"]
        out.append(st)
    return dict(case, chain=out)


def ctor_kwargs(st, names):
    """keyword arguments for the constructor of step `st`, without the ones the case leaves out"""
    om = set(st.get("omit") or [])
    return {kw: st[k] for k, kw in names[st["f"]].items() if k not in om}


def mk_filter(st, batched_size=None):
    import coba.environments.filters as ef
    f = st["f"]
    # a step built by an Environments shortcut in the pipeline is built with explicit (resolved) arguments when it is needed as a class instance
    omit = bool(st.get("omit")) and st.get("ctor") != "env"
    if f == "repr":
        flt = ef.Repr(**ctor_kwargs(st, FILTER_KW)) if omit else ef.Repr(st["cc"], st["ca"])
    elif f == "flatten":
        flt = ef.Flatten()
    elif f == "sparsify":
        flt = ef.Sparsify(**ctor_kwargs(st, FILTER_KW)) if omit else ef.Sparsify(context=st["c"], action=st["a"])
    elif f == "densify":
        flt = ef.Densify(**ctor_kwargs(st, FILTER_KW)) if omit else ef.Densify(n_feats=st["n"], method=st["m"], context=st["c"], action=st["a"])
    elif f == "noise":
        flt = ef.Noise(context=mk_noise(st.get("c")), action=mk_noise(st.get("a")), reward=None, seed=st.get("seed", 1))
    elif f == "batch":
        return ef.Batch(st["n"])
    elif f == "unbatch":
        return ef.Unbatch()
    elif f == "finalize":
        flt = ef.Finalize()
    elif f == "cycle":
        flt = ef.Cycle(**ctor_kwargs(st, FILTER_KW)) if omit else ef.Cycle(after=st["after"])
    else:
        raise ValueError(f)
    if batched_size:
        return ef.BatchSafe(flt)
    return flt


def batch_states(chain):
    """for each step: is the stream batched when the step is applied (then it is wrapped in BatchSafe)"""
    cur, out = None, []
    for st in chain:
        out.append(cur)
        if st["f"] == "batch":
            cur = st["n"] or None
        elif st["f"] == "unbatch":
            cur = None
    return out, cur


class _ListEnv:
    pass


def make_env_class():
    from coba.primitives import Environment

    class ListEnv(Environment):
        def __init__(self, make):
            self._make = make

        @property
        def params(self):
            return {}

        def read(self):
            return self._make()
    return ListEnv


class Pipeline:
    """the whole chain, composed exactly as coba composes it, built ONCE: every sequence given to `run` goes through the same filter objects"""

    def __init__(self, case):
        case = resolve_defaults(case)
        self.case = case
        self.source = None
        chain = case["chain"]
        bstates, _ = batch_states(chain)
        Env = make_env_class()
        self.mode = case.get("via") or "filters"
        self.collection = bool(case.get("collection")) and self.mode == "shortcuts"
        if self.mode == "shortcuts":
            from coba.environments import Environments
            if self.collection:
                # one Environments object holding every member; each member env reads from its own slot
                self.sources = [None] * len(sequences(case))
                envs = Environments([Env(lambda j=j: self.sources[j]()) for j in range(len(self.sources))])
            else:
                envs = Environments(Env(lambda: self.source()))
            for st, b in zip(chain, bstates):
                f = st["f"]
                if b and f not in ("batch", "unbatch"):
                    envs = envs.filter(mk_filter(st, b))
                elif st.get("omit") and f == "repr":
                    envs = envs.repr(**ctor_kwargs(st, ENV_KW))
                elif st.get("omit") and f == "sparsify":
                    envs = envs.sparse(**ctor_kwargs(st, ENV_KW))
                elif st.get("omit") and f == "densify":
                    envs = envs.dense(**ctor_kwargs(st, ENV_KW))
                elif f == "repr":
                    envs = envs.repr(st["cc"], st["ca"])
                elif f == "flatten":
                    envs = envs.flatten()
                elif f == "sparsify":
                    envs = envs.sparse(st["c"], st["a"])
                elif f == "densify":
                    envs = envs.dense(st["n"], st["m"], st["c"], st["a"])
                elif f == "noise":
                    envs = envs.noise(mk_noise(st.get("c")), mk_noise(st.get("a")), None, st.get("seed", 1))
                elif f == "batch":
                    envs = envs.batch(st["n"])
                elif f == "unbatch":
                    envs = envs.unbatch()
                elif f == "finalize":
                    envs = envs.filter(mk_filter(st))
                elif f == "cycle":
                    envs = envs.cycle(st["after"])
            self.envs = envs
            self.env = envs[0]           # appends BatchSafe(Finalize()) exactly as iteration / experiments do
            return
        from coba.pipes import Pipes
        self.filters = [mk_filter(st, b) for st, b in zip(chain, bstates)]
        if self.mode == "pipes" and self.filters:
            self.env = Pipes.join(Env(lambda: self.source()), *self.filters)
        else:
            self.mode = "filters"

    def run(self, source, member=0):
        """iterator over the output interactions for the interactions `source()` delivers (collection: through member `member`)"""
        self.source = source
        if getattr(self, "collection", False):
            self.sources[member] = source
            return iter(self.envs[member].read())
        if self.mode in ("shortcuts", "pipes"):
            return iter(self.env.read())
        items = source()
        for f in self.filters:
            items = f.filter(items)
        return iter(items)


def run_pipeline(case, seq=None):
    """output interactions (a list) of the first (or the given) sequence through a freshly built pipeline"""
    return list(Pipeline(case).run(source_of(case, case["stream"] if seq is None else seq)))


def effective_chain(case):
    """the chain the pipeline really applies: Environments append BatchSafe(Finalize()) unless the pipe already has one"""
    ch = list(case["chain"])
    if case.get("via") == "shortcuts":
        bstates, _ = batch_states(ch)
        if not any(st["f"] == "finalize" and b for st, b in zip(ch, bstates)):
            ch.append({"f": "finalize", "implicit": True})
    return ch


def aborting_source(case, seq, k):
    """a source that loses its connection when item k is requested (always a generator of fresh objects)"""
    wrap = case.get("wrap")

    def gen():
        for t, it in enumerate(seq):
            if t == k:
                raise ConnectionError("connection lost")
            yield mk_inter(it, wrap)
    return gen


# ------------------------------------------------------------------ observation
def counting_source(case, seq):
    """(source, counter): a generator of fresh objects that counts the items it has handed out (an abandoned read: the consumer stops early)"""
    wrap = case.get("wrap")
    n = [0]

    def gen():
        for it in seq:
            n[0] += 1
            yield mk_inter(it, wrap)
    return gen, n


def abandon_after(iterator, k):
    """consume k items, then stop and close the iterator (GeneratorExit travels down the chain of generators)"""
    got = 0
    try:
        for _ in iterator:
            got += 1
            if got >= k:
                break
    finally:
        close_ = getattr(iterator, "close", None)
        if close_ is not None:
            close_()
    return got


def enc_model_stream(before):
    """the members reaching a Densify step, as the driver's `table` op reads them"""
    stream = []
    for it in before:
        d = {"context": enc_ordered(it.get("context"))}
        if "actions" in it:
            d["actions"] = [enc_ordered(a) for a in it["actions"]]
        if "action" in it:
            d["action"] = enc_ordered(it["action"])
        stream.append(d)
    return stream


def members(out_stream):
    """flatten a possibly batched output stream into per-interaction dicts (direct indexing, no coba code)"""
    from coba.primitives import is_batch
    res, sizes = [], None
    for it in out_stream:
        bkeys = [k for k, v in it.items() if is_batch(v)]
        if not bkeys:
            res.append(dict(it))
            continue
        sizes = sizes or []
        n = len(it[bkeys[0]])
        sizes.append(n)
        for j in range(n):
            res.append({k: (it[k][j] if k in bkeys else it[k]) for k in it})
    return res, sizes


def obs_target(it, key):
    """[R(a) for a in actions] (or the sequence itself); entries are python numbers or 'ERR:<type>'"""
    if key not in it or "actions" not in it:
        return None
    R = it[key]
    acts = it["actions"]
    if callable(R):
        out = []
        for a in acts:
            try:
                out.append(R(a))
            except Exception as e:
                out.append("ERR:" + type(e).__name__)
        return out
    try:
        return list(R)
    except Exception as e:
        return ["ERR:" + type(e).__name__]


def real_batch_obs(out):
    """the batched call protocol on the real output: per batched interaction and target, `it[target]([i-th action of every member])`
    for every i (only when every member has the same number of actions and the target is a Batch.Callable)"""
    from coba.primitives import is_batch
    res = []
    for it in out:
        bkeys = [k for k, v in it.items() if is_batch(v)]
        if not bkeys:
            continue
        d = {}
        for key in ("rewards", "feedbacks"):
            d[key] = None
            if key in it and "actions" in it and "actions" in bkeys and callable(it[key]) and len(it["actions"]) > 0 \
                    and len(set(len(a) for a in it["actions"])) == 1 and all(callable(f) for f in it[key]):
                cols = []
                for i in range(len(it["actions"][0])):
                    try:
                        cols.append(obs_json(list(it[key]([acts[i] for acts in it["actions"]]))))
                    except Exception as e:
                        cols.append(["ERR:" + type(e).__name__])
                d[key] = cols
        res.append(d)
    return res


def obs_eq(a, b):
    if a is None or b is None:
        return a is None and b is None
    if len(a) != len(b):
        return False
    for x, y in zip(a, b):
        if isinstance(x, str) or isinstance(y, str) or not same_num(x, y):
            return False
    return True


def obs_json(o):
    if o is None:
        return None
    return [x if isinstance(x, str) else (q(x) if isinstance(x, (int, float)) else "ERR:nonnumeric") for x in o]


def py_eq(a, b):
    try:
        return bool(a == b)
    except Exception:
        return False


def pairwise_distinct(acts):
    n = len(acts)
    for i in range(n):
        for j in range(i + 1, n):
            if py_eq(acts[i], acts[j]) or py_eq(acts[j], acts[i]):
                return False
    return True


def logged_index(it):
    """index of the logged action within actions, or 'NOT-MEMBER' / None when there is nothing to index"""
    if "action" not in it or "actions" not in it:
        return None
    try:
        return list(it["actions"]).index(it["action"])
    except ValueError:
        return "NOT-MEMBER"
    except Exception as e:
        return "ERR:" + type(e).__name__


def rkind(R):
    if R is None:
        return "none"
    if isinstance(R, (list, tuple)):
        return "seq"
    n = type(R).__name__
    return {"BinaryReward": "binary", "DiscreteReward": "discrete", "HammingReward": "hamming", "L1Reward": "l1", "function": "fn"}.get(n, n)


def step_label(st):
    f = st["f"]
    if f in ("sparsify", "densify"):
        return "%s(%s)" % (f, "a" if st["a"] else "-")
    if f == "noise":
        return "noise(%s)" % ("a" if st.get("a") else "-")
    return f


def cycle_expected(st, before):
    """what Cycle is documented to do (filters.py:575): if the first interaction has rewards and its actions are all strings or exactly
    the one-hot tuples, every interaction from index `after` on gets its rewards (and feedbacks) rotated by one place
    (`l[-1%n:] + l[:-1%n]`, n = number of actions of the first interaction); otherwise nothing changes.
    returns per interaction {"rewards": expected observable or None, "feedbacks": ...}"""
    first = before[0] if before else None
    exp = []
    cyclable = False
    n = 0
    if first is not None and "actions" in first and "rewards" in first:
        acts = list(first["actions"])
        n = len(acts)
        onehots = [tuple(1 if j == i else 0 for j in range(n)) for i in range(n)]
        try:
            is_onehot = n > 0 and all(isinstance(a, tuple) for a in acts) and all(any(py_eq(a, h) for h in onehots) for a in acts) and all(any(py_eq(a, h) for a in acts) for h in onehots)
        except Exception:
            is_onehot = False
        cyclable = n > 0 and (is_onehot or all(isinstance(a, str) for a in acts))
    for t, o in enumerate(before):
        e = {}
        for key in ("rewards", "feedbacks"):
            ob = obs_target(o, key)
            if ob is not None and cyclable and t >= st["after"] and (key == "rewards" or "feedbacks" in first):
                ob = ob[n - 1:] + ob[:n - 1]
            e[key] = ob
        exp.append(e)
    return exp


def compare_cycle(st, before, after, fails, tags, where):
    """(B) for Cycle: the rewards are the documented rotation, still given by the action; everything else is untouched"""
    ok = True
    if len(before) != len(after):
        fails.append(F("B", "%s: cycle turned %d interactions into %d" % (where, len(before), len(after)), "cycle:stream-length"))
        return False
    exp = cycle_expected(st, before)
    for t, (o, n, e) in enumerate(zip(before, after, exp)):
        if "actions" in o and not pairwise_distinct(o["actions"]):
            continue
        if json.dumps([enc(a) for a in o.get("actions", [])]) != json.dumps([enc(a) for a in n.get("actions", [])]) or json.dumps(enc(o.get("action"))) != json.dumps(enc(n.get("action"))):
            fails.append(F("B", "%s: interaction %d: cycle changed the actions" % (where, t), "cycle:actions-changed"))
            ok = False
        for key in ("rewards", "feedbacks"):
            got = obs_target(n, key)
            if not obs_eq(got, e[key]):
                rotated = e[key] is not None and not obs_eq(e[key], obs_target(o, key))
                fails.append(F("B", "%s: interaction %d: after cycle(after=%d) the %s of the actions are %s, documented %s (before %s)"
                               % (where, t, st["after"], key, json.dumps(obs_json(got)), json.dumps(obs_json(e[key])), json.dumps(obs_json(obs_target(o, key)))),
                               "cycle:%s:%s" % (key, "wrong-rotation" if rotated else "changed-unrotatable")))
                ok = False
        for key in ("reward", "probability"):
            if key in o and (key not in n or not same_num(o[key], n[key])):
                fails.append(F("B", "%s: interaction %d: cycle changed the logged %s" % (where, t, key), "cycle:logged-%s-changed" % key))
                ok = False
    if any(not obs_eq(e["rewards"], obs_target(o, "rewards")) for o, e in zip(before, exp)):
        tags.append("cycle:rotated")
    return ok


def _action_dicts(inp, with_context=False):
    for it in inp:
        for grp in ([it.get("context")] if with_context else []) + list(it.get("actions") or []) + ([it["action"]] if "action" in it else []):
            if isinstance(grp, dict):
                yield grp
            elif type(grp).__name__ in ("LazySparse", "HashableSparse"):
                yield dict(grp.items())


def name_clash(inp):
    """a sparse action already has a key that the filter would generate (`<key>_<i>`)"""
    for d in _action_dicts(inp):
        keys = [str(k) for k in d]
        for k1 in keys:
            for k2 in keys:
                if k2 != k1 and k2.startswith(k1 + "_") and k2[len(k1) + 1:].isdigit():
                    return True
    return False


def is_lossy(st, inp):
    """may this step merge distinct actions by design?  Noise on actions; hashing; lookup with fewer slots than keys;
    densifying a stored zero (equal to an absent key afterwards); generated feature names that already exist"""
    f = st["f"]
    if f == "noise" and st.get("a"):
        return 1
    if f == "densify" and st["a"]:
        if any(isinstance(v, (int, float)) and v == 0 for d in _action_dicts(inp) for v in d.values()):
            return 1
        if st["m"] == "hashing":
            # two keys of one action hashed to one slot: the later value overwrites the earlier one (2 = collision happened)
            for d in _action_dicts(inp):
                idx = [zlib.crc32(str(k).encode("ascii", "replace")) % st["n"] for k in d]
                if len(set(idx)) < len(idx):
                    return 2
            return 1
        keys = set()
        for d in _action_dicts(inp, st["c"]):
            keys.update(d.keys())
        return 2 if len(keys) > st["n"] else 0
    if f == "flatten" and any((isinstance(v, (int, float)) and v == 0) or (isinstance(v, (list, tuple)) and any(isinstance(w, (int, float)) and w == 0 for w in v))
                              for d in _action_dicts(inp) for v in d.values()):
        return 1          # the sparse branch of Flatten drops stored zeros: {"y":0,…} and {…} become the same action
    if f == "sparsify" and st.get("a"):
        # phase 6 (seed 3 after the case sequence shifted): `_make_sparse` drops the zeros of a dense row, so (-2, 0) and (-2,) become the same sparse action
        # {0: -2} - a merge by design, excused like the others only when two actions really came out equal
        for it in inp:
            for a in it.get("actions") or []:
                if isinstance(a, (list, tuple)) and any(isinstance(w, (int, float)) and not isinstance(w, bool) and w == 0 for w in a):
                    return 1
    if f in ("flatten", "finalize") or (f == "repr" and st.get("ca") == "onehot"):
        return 1 if name_clash(inp) else 0
    return 0


def compare_step(label, before, after, lossy, fails, tags, where, st=None):
    """(B) for one step (or the whole pipeline): alignment of `after` with `before`, member by member.
    returns {"ok","excused","skipped","collapsed"}"""
    res = {"ok": True, "excused": False, "skipped": False, "collapsed": False}
    if lossy == 2:
        tags.append("excused:collision:" + label.split("(")[0])
        res["excused"] = True
        return res
    if len(before) != len(after):
        fails.append(F("B", "%s: %s turned %d interactions into %d" % (where, label, len(before), len(after)), "%s:stream-length" % label))
        res["ok"] = False
        return res
    for t, (o, n) in enumerate(zip(before, after)):
        if "actions" in o:
            if not pairwise_distinct(o["actions"]):
                tags.append("skip:input-actions-not-distinct")
                res["skipped"] = True
                continue
            if "actions" not in n or len(n["actions"]) != len(o["actions"]):
                fails.append(F("B", "%s: interaction %d: %s changed the number of actions (%s -> %s)" % (where, t, label, len(o["actions"]), len(n.get("actions", []))), "%s:n-actions" % label))
                res["ok"] = False
                continue
            if not pairwise_distinct(n["actions"]):
                if lossy:
                    tags.append("excused:collision:" + label.split("(")[0])
                    res["excused"] = True      # later steps are outside the quantifier for this member; not a failure
                    continue
                res["collapsed"] = True
            for key in ("rewards", "feedbacks"):
                if key in o:
                    ob, oa = obs_target(o, key), obs_target(n, key)
                    if not obs_eq(ob, oa):
                        vals_b = [x for x in ob if not isinstance(x, str)]
                        if n.get(key) is o[key] and callable(o[key]):
                            how = "kept-old-function"        # the reward function object was carried over although the actions changed
                        else:
                            lost = oa is None or len(oa) != len(ob) or any(isinstance(x, str) or not any(same_num(x, y) for y in vals_b) for x in oa)
                            how = rkind(o[key]) + ":" + ("lost" if lost else "swapped")
                        fails.append(F("B", "%s: interaction %d: after %s the %s of the actions are %s, before %s (actions before %s, after %s)"
                                       % (where, t, label, key, json.dumps(obs_json(oa)), json.dumps(obs_json(ob)), json.dumps([enc(a) for a in o["actions"]])[:300],
                                          json.dumps([enc(a) for a in n["actions"]])[:300]),
                                       "%s:%s:%s" % (label, key, how)))
                        res["ok"] = False
            if "action" in o:
                ib, ia = logged_index(o), logged_index(n)
                if isinstance(ib, int) and ia != ib:
                    if n.get("action") is o["action"]:
                        how = "kept-old"                     # the logged action was not re-represented although the actions were
                    elif isinstance(n.get("action"), list) and isinstance(o["action"], (tuple, str)):
                        how = "listified"                    # a plain tuple / string logged action was sent through list()
                    elif type(n.get("action")).__name__ == "SparseDense" and not n["action"]._values:
                        how = "empty-sparsedense"            # SparseDense({},n) cannot be iterated and is unequal to itself
                    else:
                        how = "not-member" if ia == "NOT-MEMBER" else "index-changed"
                    lab = label + ("(cc!=ca)" if st is not None and st["f"] == "repr" and st["cc"] != st["ca"] else "")
                    fails.append(F("B", "%s: interaction %d: after %s the logged action %s is %s of the actions %s (was member %d)"
                                   % (where, t, label, json.dumps(enc(n.get("action")))[:200], ("not a member" if ia == "NOT-MEMBER" else "member %s" % ia),
                                      json.dumps([enc(a) for a in n["actions"]])[:300], ib), "%s:logged-action:%s" % (lab, how)))
                    res["ok"] = False
        if "action" in o:
            for key in ("reward", "probability"):
                if key in o and (key not in n or not same_num(o[key], n[key])):
                    fails.append(F("B", "%s: interaction %d: %s changed the logged %s from %r to %r" % (where, t, label, key, o[key], n.get(key)), "%s:logged-%s-changed" % (label, key)))
                    res["ok"] = False
    return res


def roundtrips(x):
    """copies of a value as coba makes them: pickle (multiprocessing, caches) and deepcopy; yields (name, copy); a copier that cannot
    take the value at all (lambda rewards under pickle) is skipped.  (coba.json is not used: JSON has no tuples, so a tuple action
    comes back as a list while a reward object's literal state keeps the tuple - that is the result log's concern, not C10's.)"""
    import pickle, copy
    try:
        yield "pickle", pickle.loads(pickle.dumps(x))
    except Exception:
        pass
    try:
        yield "deepcopy", copy.deepcopy(x)
    except Exception:
        pass


def check_roundtrips(label, ms, fails, tags, where, limit=3):
    """(B) on copies: the re-represented interaction must keep its action<->reward pairing through pickle / deepcopy / coba.json.
    Whole-interaction copies (actions and reward function copied together) and copies of the reward object alone (asked about the
    original action objects)."""
    for t, m in enumerate(ms[:limit]):
        if "actions" not in m:
            continue
        for key in ("rewards", "feedbacks"):
            if key not in m or not callable(m[key]):
                continue
            ob = obs_target(m, key)
            if ob is None or any(isinstance(x, str) for x in ob):
                continue
            tags.append("roundtrip-checked")
            for name, cp in roundtrips({"actions": m["actions"], key: m[key]}):
                oc = obs_target(cp, key)
                if not obs_eq(ob, oc):
                    fails.append(F("B", "%s: interaction %d after %s: a %s copy of the interaction gives its actions the %s %s, the interaction itself %s (actions %s)"
                                   % (where, t, label, name, key, json.dumps(obs_json(oc)), json.dumps(obs_json(ob)), json.dumps([enc(a) for a in m["actions"]])[:300]),
                                   "roundtrip(%s):%s:%s" % (name, key, rkind(m[key]))))
            for name, cp in roundtrips(m[key]):
                oc = obs_target({"actions": m["actions"], key: cp}, key)
                if not obs_eq(ob, oc):
                    fails.append(F("B", "%s: interaction %d after %s: a %s copy of the %s object answers %s for the actions, the object itself %s (actions %s)"
                                   % (where, t, label, name, key, json.dumps(obs_json(oc)), json.dumps(obs_json(ob)), json.dumps([enc(a) for a in m["actions"]])[:300]),
                                   "roundtrip(%s):%s:%s" % (name, key, rkind(m[key]))))


def levels_vary(seq):
    """does a categorical at the same place inside the actions (scalar action, or the same cell of a row) carry different level lists in this (JSON) sequence"""
    seen = {}

    def walk(v, path):
        if isinstance(v, dict):
            if "c" in v and "L" in v:
                seen.setdefault(path, set()).add(tuple(v["L"]))
                return
            for key in ("l", "t"):
                if key in v:
                    for n_, x in enumerate(v[key]):
                        walk(x, path + (n_,))
            if "d" in v:
                for k_, x in v["d"]:
                    walk(x, path + (str(k_),))
    for it in seq:
        for a in it.get("actions") or []:
            walk(a, ())
        if it.get("action") is not None:
            walk(it["action"], ())
    return any(len(ls) > 1 for ls in seen.values())


def check_representation_function(o, n, repmap, fails, tags, where, label, t):
    """(B) across the interactions of one stream: the new representation is a function of the action - wherever the same action value
    occurs (any interaction, any position) it gets the same representation.  An output that shows one action's features while it pays
    another action's reward is exactly a change of "which action earns which reward".  `repmap`: canonical JSON of the old action ->
    (canonical JSON of its representation, where first seen).  Not applied to pipelines with action noise (different by design)."""
    if "actions" not in o or "actions" not in n or len(o["actions"]) != len(n["actions"]):
        return
    for i, (a, b) in enumerate(zip(o["actions"], n["actions"])):
        ka, kb = json.dumps(enc(a), sort_keys=True), json.dumps(enc(b), sort_keys=True)
        seen = repmap.get(ka)
        if seen is None:
            repmap[ka] = (kb, t, i)
        elif seen[0] != kb:
            fails.append(F("B", "%s: interaction %d: after %s action %d, %s, is represented as %s; the same action was represented as %s in interaction %d (position %d): "
                           "the features shown for an action are those of another action while the reward paid is this action's"
                           % (where, t, label, i, ka[:150], kb[:150], seen[0][:150], seen[1], seen[2]), "%s:representation-not-a-function" % label))
            return


def enc_any(it):
    return {k: ([enc(a) for a in v] if k == "actions" else enc(v)) for k, v in it.items() if k in ("context", "actions", "action")}


def interaction_json(it):
    d = {}
    if "context" in it:
        d["context"] = enc(it["context"])
    if "actions" in it:
        d["actions"] = [enc(a) for a in it["actions"]]
    if "action" in it:
        d["action"] = enc(it["action"])
        d["index"] = logged_index(it)
    for key in ("reward", "probability"):
        if key in it:
            d[key] = q(it[key]) if isinstance(it[key], (int, float)) else "nonnumeric"
    for key in ("rewards", "feedbacks"):
        if key in it:
            d["obs_" + key] = obs_json(obs_target(it, key))
    return d


# ------------------------------------------------------------------ stepwise run (blame + oracles for the model)
class Stepwise:
    """the chain applied one filter at a time (materialising in between); filter objects built once and reused per sequence"""

    def __init__(self, case):
        case = resolve_defaults(case)
        self.case = case
        self.chain = effective_chain(case)
        bstates, _ = batch_states(self.chain)
        self.filters = [mk_filter(st, b) for st, b in zip(self.chain, bstates)]

    def run(self, seq):
        """(list of (step, members_before, members_after), name of the exception that stopped it or None)"""
        items = [mk_inter(it, self.case.get("wrap")) for it in seq]
        res = []
        for st, flt in zip(self.chain, self.filters):
            before, _ = members(items)
            try:
                out = list(flt.filter(items))
            except Exception as e:
                return res, type(e).__name__
            after, _ = members(out)
            res.append((st, before, after))
            items = out
        return res, None


def run_stepwise(case):
    return Stepwise(case).run(case["stream"])


def densify_keys(st, before):
    """the keys a Densify(lookup) step asks its table for, in order (the table outlives the filter() call)"""
    keys = []
    for it in before:
        grps = ([it.get("context")] if st["c"] else []) + (list(it.get("actions") or []) + ([it["action"]] if "action" in it else []) if st["a"] else [])
        for g in grps:
            if isinstance(g, dict) or type(g).__name__ in ("LazySparse", "HashableSparse"):
                keys += [str(k) for k, _ in g.items()]
    return keys


def noise_oracle(st, before, after):
    """realised noisy numbers of one Noise step in the order the filter draws them (context, then each action);
    used only for the tuple-parameter noises whose values come from CobaRandom"""
    vals = []

    def walk(old, new):
        from coba.primitives import Sparse, Dense
        if isinstance(old, Sparse):
            for k, v in sorted(old.items()):
                if isinstance(v, (int, float)):
                    vals.append(q(new[k]))
        elif isinstance(old, Dense):
            for v, w in zip(list(old), list(new)):
                if isinstance(v, (int, float)):
                    vals.append(q(w))
        elif isinstance(old, (int, float)):
            vals.append(q(new))
    for o, n in zip(before, after):
        if st.get("c") and "context" in o and st["c"]["kind"] != "fn":
            walk(o["context"], n["context"])
        if st.get("a") and "actions" in o and st["a"]["kind"] != "fn":
            for a, b in zip(o["actions"], n["actions"]):
                walk(a, b)
    return vals


def collect_keys(ms):
    keys = set()
    for d in _action_dicts(ms, True):
        keys.update(str(k) for k in d.keys())
    return sorted(keys)


# ------------------------------------------------------------------ defect detection (which of the recorded defects the tree under test has)
WITNESSES = {
    # flag -> (case, predicate name). The witnesses are the Lean `_counterexample` inputs.
    "fixRekey": {"stream": [{"context": None, "actions": [{"n": [1, 1]}, {"n": [2, 1]}], "rewards": {"k": "binary", "argmax": {"n": [2, 1]}, "value": [1, 1]}}],
                 "chain": [{"f": "sparsify", "c": False, "a": True}]},
    "fixReprLogged": {"stream": [{"context": None, "action": {"c": "b", "L": ["a", "b"]}, "reward": [1, 2], "probability": [1, 4],
                                  "actions": [{"c": "a", "L": ["a", "b"]}, {"c": "b", "L": ["a", "b"]}]}],
                      "chain": [{"f": "repr", "cc": "string", "ca": "onehot"}]},
    "fixReprDiscrete": {"stream": [{"context": None, "actions": [{"c": "a", "L": ["a", "b"]}, {"c": "b", "L": ["a", "b"]}],
                                    "rewards": {"k": "discrete", "actions": [{"c": "b", "L": ["a", "b"]}, {"c": "a", "L": ["a", "b"]}], "values": [[1, 1], [2, 1]], "default": [0, 1]}}],
                        "chain": [{"f": "repr", "cc": None, "ca": "onehot"}]},
    "fixNoiseLogged": {"stream": [{"context": None, "action": {"n": [2, 1]}, "reward": [1, 2], "probability": [1, 4], "actions": [{"n": [1, 1]}, {"n": [2, 1]}]}],
                       "chain": [{"f": "noise", "c": None, "a": {"kind": "fn", "mul": 1, "add": 10}, "seed": 1}]},
    "fixNoiseFeedbacks": {"stream": [{"context": None, "actions": [{"n": [1, 1]}, {"n": [2, 1]}], "rewards": {"k": "list", "v": [[1, 1], [2, 1]]},
                                      "feedbacks": {"k": "fn", "table": [[{"n": [1, 1]}, [5, 1]], [{"n": [2, 1]}, [6, 1]]], "default": FN_DEFAULT}}],
                          "chain": [{"f": "noise", "c": None, "a": {"kind": "fn", "mul": 1, "add": 10}, "seed": 1}]},
    "fixEmptySparseDense": {"stream": [{"context": None, "action": {"d": []}, "reward": [1, 2], "probability": [1, 4], "actions": [{"d": []}, {"d": [["a", {"n": [1, 1]}]]}]}],
                            "chain": [{"f": "densify", "n": 2, "m": "lookup", "c": False, "a": True}]},
    "fixHardenMixed": {"stream": [{"context": None, "actions": [{"d": [["a", {"n": [1, 1]}]]}, {"t": [{"n": [1, 1]}, {"n": [2, 1]}]}],
                                   "rewards": {"k": "binary", "argmax": {"t": [{"n": [1, 1]}, {"n": [2, 1]}]}, "value": [1, 1]}}],
                       "chain": [{"f": "densify", "n": 4, "m": "lookup", "c": False, "a": True}, {"f": "finalize"}]},
    "fixFlattenLogged": {"stream": [{"context": None, "action": {"t": [{"n": [3, 1]}, {"t": [{"n": [4, 1]}]}]}, "reward": [1, 2], "probability": [1, 4],
                                     "actions": [{"t": [{"n": [1, 1]}, {"t": [{"n": [2, 1]}]}]}, {"t": [{"n": [3, 1]}, {"t": [{"n": [4, 1]}]}]}]}],
                         "chain": [{"f": "flatten"}]},
}
_CFG = {}


def detect_cfg():
    """replay the counterexample witnesses on the tree under test: flag = True iff the defect is absent (fixed)"""
    if _CFG:
        return _CFG
    import warnings
    for flag, case in WITNESSES.items():
        try:
            with warnings.catch_warnings():
                warnings.simplefilter("ignore")
                steps, _ = run_stepwise(case)
            fails = []
            for st, before, after in steps:
                compare_step(step_label(st), before, after, False, fails, [], "witness", st)
            _CFG[flag] = not fails
        except Exception:
            _CFG[flag] = True
    return _CFG


# ------------------------------------------------------------------ generator
STRS = ["a", "b", "c", "x", "yy", "0", "action", "b_1"]
LEVELS = ["a", "b", "c", "d", "e"]
KEYS = ["a", "b", "x", "y", "k1", "0", "1", "action", "x_0", "x_1"]


def V_n(i):
    return {"n": q(i)}


class Gen:
    def __init__(self, rng):
        self.r = rng

    # ---- field types: ("n",) ("s",) ("c",levels) ("nest",kind,[ftypes])
    def ftype(self, allow_nest=True, p_cat=30):
        r = self.r.below(100)
        if r < p_cat:
            return ("c", self.levels())
        if r < p_cat + 35:
            return ("n",)
        if r < p_cat + 50 or not allow_nest:
            return ("s",)
        return ("nest", self.r.choice(["t", "t", "l"]), [self.ftype(False, 25) for _ in range(self.r.randint(1, 3))])

    def levels(self):
        n = self.r.choice([1, 2, 2, 3, 3, 4, 5])
        lv = self.r.shuffle(LEVELS)[:n]
        return lv

    def fval(self, ft, zero_ok=True):
        k = ft[0]
        if k == "n":
            r = self.r.below(100)
            if r < 12 and zero_ok:
                return V_n(0)
            if r < 22:
                return {"n": q(Fraction(self.r.randint(-6, 9), 2))}
            return V_n(self.r.randint(-3, 9))
        if k == "s":
            return {"s": self.r.choice(STRS)}
        if k == "c":
            return {"c": self.r.choice(ft[1]), "L": list(ft[1])}
        return {ft[1]: [self.fval(t) for t in ft[2]]}

    # ---- schemas: ("num",) ("str",) ("cat",L) ("dense",kind,[ft]) ("sparse",[(key,ft)],catmode) ("multi",kind,pool)
    def schema(self, for_context=False):
        r = self.r.below(100)
        if for_context:
            if r < 15:
                return ("none",)
            if r < 25:
                return ("num",)
            if r < 30:
                return ("str",)
            if r < 40:
                return ("cat", self.levels())
            if r < 72:
                return self.dense_schema()
            return self.sparse_schema()
        if r < 14:
            return ("num",)
        if r < 22:
            return ("str",)
        if r < 40:
            return ("cat", self.levels() if self.r.chance(0.3) else self.r.shuffle(LEVELS)[:self.r.randint(2, 5)])
        if r < 66:
            return self.dense_schema()
        if r < 87:
            return self.sparse_schema()
        if r < 93:
            # a mixed action set: sparse actions next to a scalar / string / dense "special" action (e.g. a skip action), in any position
            other = self.r.choice([("num",), ("str",), ("dense", "t", [("n",), ("n",)]), ("dense", "t", [("n",), ("s",)])])
            return ("mixed", self.plain_sparse_schema() if self.r.chance(0.7) else self.sparse_schema(), other)
        pool = [V_n(i) for i in range(1, 6)] if self.r.chance(0.5) else [{"s": s} for s in STRS[:5]]
        return ("multi", self.r.choice(["l", "t"]), pool)

    def dense_schema(self):
        fts = [self.ftype() for _ in range(self.r.randint(1, 4))]
        # rows with categoricals both at the top level and inside nested rows make EncodeCatRows raise (TypeError): keep rare
        top = any(t[0] == "c" for t in fts)
        nested = any(t[0] == "nest" and any(u[0] == "c" for u in t[2]) for t in fts)
        if top and nested and not self.r.chance(0.1):
            fts = [(t if t[0] != "nest" else ("nest", t[1], [u if u[0] != "c" else ("s",) for u in t[2]])) for t in fts]
        return ("dense", self.r.choice(["t", "t", "l"]), fts)

    def sparse_schema(self):
        keys = self.r.shuffle(KEYS)[:self.r.randint(1, 4)]
        ents = []
        for k in keys:
            # EncodeCatRows iterates a str key character by character: categorical features under multi-character keys
            # make Repr raise (KeyError); keep them rare so that most cases reach the re-keying code
            ft = self.ftype(True, 30 if len(k) == 1 or self.r.chance(0.08) else 0)
            ents.append((k, ft))
        return ("sparse", ents, self.r.wchoice([(90, "all"), (10, "some")]))

    def value(self, sc):
        k = sc[0]
        if k == "none":
            return None
        if k == "num":
            return self.fval(("n",))
        if k == "str":
            return self.fval(("s",))
        if k == "cat":
            return self.fval(("c", sc[1]))
        if k == "dense":
            return {sc[1]: [self.fval(t) for t in sc[2]]}
        if k == "sparse":
            ents = []
            for key, ft in sc[1]:
                must = ft[0] in ("c", "nest") and sc[2] == "all"
                if must or self.r.chance(0.7):
                    ents.append([key, self.fval(ft, zero_ok=self.r.chance(0.06))])
            if not ents and self.r.chance(0.9):
                key, ft = sc[1][0]
                ents.append([key, self.fval(ft, zero_ok=False)])
            return {"d": self.r.shuffle(ents) if self.r.chance(0.3) else ents}
        if k == "multi":
            n = self.r.randint(1, 3)
            return {sc[1]: self.r.shuffle(sc[2])[:n]}
        if k == "mixed":
            return self.value(sc[1] if self.r.chance(0.6) else sc[2])
        raise ValueError(k)

    def action_set(self, sc, k):
        if sc[0] == "mixed":
            n_other = 1 if k <= 2 or self.r.chance(0.7) else 2
            others = self.action_set(sc[2], n_other)
            sparse = self.action_set(sc[1], max(1, k - n_other))
            # the special action first in half of the cases (first-row decisions), else anywhere
            return others + sparse if self.r.chance(0.5) else self.r.shuffle(others + sparse)
        acts = []
        tries = 0
        while len(acts) < k and tries < 60:
            tries += 1
            v = self.value(sc)
            pv = mk(v)
            if all(not py_eq(pv, mk(a)) for a in acts):
                acts.append(v)
        return acts

    def num(self):
        r = self.r.below(100)
        if r < 70:
            return q(self.r.randint(-2, 12))
        return q(Fraction(self.r.randint(-8, 24), self.r.choice([2, 4, 8])))

    def distinct_nums(self, k):
        out = []
        while len(out) < k:
            x = self.num()
            if x not in out or self.r.chance(0.08):
                out.append(x)
        return out

    def hashable(self, v):
        try:
            hash(mk(v))
            return True
        except TypeError:
            return False

    def reward(self, sc, acts, callable_class, force=None):
        """callable_class: True -> some callable kind, False -> a sequence"""
        k = len(acts)
        vals = self.distinct_nums(k)
        if not callable_class:
            return {"k": "tuple" if self.r.chance(0.04) else "list", "v": vals}
        kinds = [(30, "binary"), (34, "discrete"), (30, "fn")]
        if sc[0] == "num":
            kinds.append((25, "l1"))
        if sc[0] == "multi":
            kinds.append((60, "hamming"))
        kind = force or self.r.wchoice(kinds)
        if kind == "binary":
            arg = self.r.choice(acts)
            if self.r.chance(0.04):
                other = self.action_set(sc, k + 1)
                extra = [a for a in other if all(not py_eq(mk(a), mk(b)) for b in acts)]
                if extra:
                    arg = extra[0]
            val = [1, 1] if self.r.chance(0.6) else self.r.choice([[2, 1], [1, 2], [-1, 1], [5, 1]])
            return {"k": "binary", "argmax": arg, "value": val}
        if kind == "discrete":
            r = self.r.below(100)
            order = list(range(k))
            das, dvals = list(acts), list(vals)
            if r < 22 and k > 1:
                order = self.r.shuffle(order)
                das, dvals = [acts[i] for i in order], [vals[i] for i in order]
            elif r < 26:
                other = self.action_set(sc, k + 1)
                extra = [a for a in other if all(not py_eq(mk(a), mk(b)) for b in acts)]
                if extra:
                    das, dvals = das + extra[:1], dvals + [self.num()]
            d = {"k": "discrete", "actions": das, "values": dvals, "default": [0, 1] if self.r.chance(0.8) else [-7, 1], "dict": False}
            if all(self.hashable(a) for a in das) and self.r.chance(0.3):
                d["dict"] = True
            return d
        if kind == "l1":
            return {"k": "l1", "argmax": self.num()}
        if kind == "hamming":
            pool = sc[2]
            return {"k": "hamming", "argmax": self.r.shuffle(pool)[:self.r.randint(1, 3)]}
        return {"k": "fn", "table": [[a, v] for a, v in zip(acts, vals)], "default": FN_DEFAULT}

    def noise(self):
        r = self.r.below(100)
        if r < 55:
            return {"kind": "fn", "mul": self.r.choice([1, 1, 2, -1, 3]), "add": self.r.choice([0, 1, 10, -4, 100])}
        if r < 63:
            return {"kind": "fn", "mul": 0, "add": self.r.choice([0, 5])}        # collapses everything (lossy)
        if r < 80:
            lo = self.r.randint(-3, 5)
            return {"kind": "i", "lo": lo, "hi": lo + self.r.choice([0, 1, 5, 1000])}
        if r < 92:
            return {"kind": "g", "m": self.r.randint(-2, 2), "s": self.r.choice([0, 1, 3])}
        return {"kind": "g2", "m": self.r.randint(-2, 2), "s": self.r.choice([1, 2])}

    def step(self, batched):
        r = self.r.below(100)
        if r < 26:
            return {"f": "repr", "cc": self.r.choice(MODES), "ca": self.r.choice(MODES + ["onehot", "string", "onehot_tuple"])}
        if r < 40:
            return {"f": "flatten"}
        if r < 56:
            return {"f": "sparsify", "c": self.r.chance(0.5), "a": self.r.chance(0.75)}
        if r < 70:
            return {"f": "densify", "n": self.r.choice([1, 2, 3, 5, 8, 30, 400]), "m": self.r.choice(["lookup", "lookup", "hashing"]), "c": self.r.chance(0.5), "a": self.r.chance(0.75)}
        if r < 82:
            st = {"f": "noise", "c": self.noise() if self.r.chance(0.4) else None, "a": self.noise() if self.r.chance(0.8) else None, "seed": self.r.choice([1, 1, 2, 7])}
            return st
        if r < 89:
            if batched:
                return {"f": "unbatch"}
            return {"f": "batch", "n": self.r.choice([1, 2, 2, 3, 5, None, 0])}
        if r < 93:
            return {"f": "cycle", "after": self.r.choice([0, 0, 1, 2])}
        return {"f": "finalize"}

    def plain_sparse_schema(self):
        """sparse rows with plain (number / string) values only: what coba's sparse row views (LazySparse, HashableSparse) carry"""
        keys = self.r.shuffle(KEYS)[:self.r.randint(2, 5)]
        return ("sparse", [(k, ("n",) if self.r.chance(0.8) else ("s",)) for k in keys], "all")

    def build_stream(self, P, nint):
        r = self.r
        sc, csc, k, kind, mode = P["sc"], P["csc"], P["k"], P["kind"], P["mode"]
        stream = []
        base = self.action_set(sc, k)
        rk = None
        for t in range(nint):
            if t == 0 or mode == "repeat" or (mode == "mixed" and t == 1):
                acts = [json.loads(json.dumps(a)) for a in base]
            else:
                acts = self.action_set(sc, r.choice([k, k, max(1, k - 1), k + 1]) if r.chance(0.3) else k)
            it = {"context": self.value(csc)}
            if kind == "logged":
                j = r.below(len(acts))
                it["action"] = json.loads(json.dumps(acts[j]))
                it["reward"] = self.num()
                it["probability"] = r.choice([[1, 4], [1, 2], [1, 1], [1, 8]])
                if P["has_actions"]:
                    it["actions"] = acts
                    if P["with_rewards"]:
                        rw = self.reward(sc, acts, P["callable_class"], rk if P["force"] == "same" else None)
                        rk = rw["k"]
                        it["rewards"] = rw
            else:
                it["actions"] = acts
                rw = self.reward(sc, acts, P["callable_class"], rk if P["force"] == "same" and rk not in ("list", "tuple") else None)
                rk = rw["k"]
                it["rewards"] = rw
                if kind == "igl":
                    it["feedbacks"] = self.reward(sc, acts, P["fb_callable"], None if not P["fb_callable"] else r.choice(["fn", "discrete", "binary", None]))
            stream.append(it)
        return stream

    def indicator_collection(self, P, case):
        """members whose actions are sparse indicator rows `{key: 1}` over disjoint vocabularies of different sizes, densified by look-up
        into exactly as many slots as the largest member needs: any slot shared between members merges two actions of a member"""
        r = self.r
        members, sizes = [], r.shuffle([2, 3, 4, 5])[:r.choice([2, 2, 3])]
        kind = r.choice(["sim", "sim", "igl", "logged"])
        for j, k in enumerate(sizes):
            keys = ["%s%d" % ("pqr"[j], i) for i in range(k)]
            stream = []
            for t in range(r.choice([1, 2, 3])):
                acts = [{"d": [[key, V_n(1)]]} for key in (keys if r.chance(0.6) else r.shuffle(keys))]
                vals = self.distinct_nums(k)
                rw = r.choice([{"k": "discrete", "actions": _copy(acts), "values": vals, "default": [0, 1], "dict": False},
                               {"k": "fn", "table": [[a, v] for a, v in zip(_copy(acts), vals)], "default": FN_DEFAULT},
                               {"k": "binary", "argmax": _copy(r.choice(acts)), "value": [1, 1]}])
                it = {"context": V_n(t), "actions": acts, "rewards": rw}
                if kind == "igl":
                    it["feedbacks"] = {"k": "fn", "table": [[a, v] for a, v in zip(_copy(acts), self.distinct_nums(k))], "default": FN_DEFAULT}
                if kind == "logged":
                    it = {"context": V_n(t), "actions": acts, "action": _copy(r.choice(acts)), "reward": self.num(), "probability": [1, 4]}
                stream.append(it)
            members.append(stream)
        chain = [{"f": "densify", "n": max(sizes), "m": "lookup", "c": False, "a": True}]
        if r.chance(0.3):
            chain.insert(r.below(2), r.choice([{"f": "sparsify", "c": True, "a": True}, {"f": "flatten"}, {"f": "repr", "cc": "onehot", "ca": "onehot"}]))
        order = r.shuffle(list(range(len(members))))
        if r.chance(0.3):
            order.append(r.choice(order))
        out = {"stream": members[0], "more": members[1:], "chain": chain, "via": "shortcuts", "collection": True, "read_order": order}
        if r.chance(0.3):
            out["delivery"] = "lazy"
        return out

    def long_repr_case(self):
        """a streamed environment that builds a fresh action list per interaction: 100-160 interactions over one categorical action set,
        the first two action lists equal (Repr's repeated-action-set fast path), later ones in a PRNG order; delivered lazily"""
        r = self.r
        L = r.shuffle(LEVELS)[:r.choice([2, 3, 3, 4])]
        as_rows = r.chance(0.3)
        def act(l):
            c = {"c": l, "L": list(L)}
            return {"t": [c, V_n(1)]} if as_rows else c
        kind = r.choice(["sim", "sim", "logged", "igl"])
        rk = r.choice(["list", "discrete", "binary", "fn"])
        stream = []
        for t in range(r.randint(100, 160)):
            order = list(L) if t < 2 else r.shuffle(L)
            acts = [act(l) for l in order]
            vals = [q(LEVELS.index(l) + 10 * (t % 7)) for l in order]
            if rk == "list":
                rw = {"k": "list", "v": vals}
            elif rk == "discrete":
                rw = {"k": "discrete", "actions": _copy(acts), "values": vals, "default": [0, 1], "dict": False}
            elif rk == "binary":
                rw = {"k": "binary", "argmax": _copy(acts[t % len(acts)]), "value": [1, 1]}
            else:
                rw = {"k": "fn", "table": [[a, v] for a, v in zip(_copy(acts), vals)], "default": FN_DEFAULT}
            it = {"context": V_n(t % 5), "actions": acts, "rewards": rw}
            if kind == "igl":
                it["feedbacks"] = {"k": "fn", "table": [[a, v] for a, v in zip(_copy(acts), vals[::-1])], "default": FN_DEFAULT}
            if kind == "logged":
                it = {"context": V_n(t % 5), "actions": acts, "action": _copy(acts[-1]), "reward": q(t % 9), "probability": [1, 4]}
            stream.append(it)
        chain = [r.choice([{"f": "repr", "cc": r.choice(MODES), "ca": r.choice(MODES[1:])}, {"f": "repr", "cc": "onehot", "ca": "onehot"}, {"f": "finalize"}])]
        if r.chance(0.3):
            chain.append(r.choice([{"f": "sparsify", "c": False, "a": True}, {"f": "flatten"}, {"f": "finalize"}]))
        return {"stream": stream, "chain": chain, "via": r.wchoice([(60, "filters"), (15, "pipes"), (25, "shortcuts")]), "delivery": "lazy"}

    LAYOUTS = ["sim-list", "sim-fn", "igl-fn", "igl-list", "logged", "logged-noactions", "logged-rewards"]

    def layout_params(self, P, layout):
        """the stream parameters of one member layout: which keys its interactions carry (simulated / IGL / logged, with or without an
        action set, rewards and feedbacks as sequences or functions, with or without a context value)"""
        Pj = dict(P)
        Pj["kind"] = "sim" if layout.startswith("sim") else "igl" if layout.startswith("igl") else "logged"
        Pj["callable_class"] = layout in ("sim-fn", "igl-fn", "logged-rewards")
        Pj["fb_callable"] = layout == "igl-fn"
        Pj["has_actions"] = layout != "logged-noactions"
        Pj["with_rewards"] = layout == "logged-rewards"
        if self.r.chance(0.4):
            Pj["csc"] = ("none",)
        return Pj

    def layout_collection(self, P=None):
        """one Environments object whose members have different LAYOUTS (a simulated, an IGL, a logged environment …) over one action
        schema; one or two shortcuts applied to the collection; every member must come out as a fresh pipeline on it alone gives it"""
        r = self.r
        if P is None:
            sc = r.choice([("cat", r.shuffle(LEVELS)[:r.randint(2, 4)]), ("dense", "t", [("c", r.shuffle(LEVELS)[:3]), ("n",)]), self.plain_sparse_schema(),
                           ("dense", "t", [("n",), ("nest", "t", [("n",), ("s",)])]), ("num",), ("str",)])
            P = {"sc": sc, "csc": self.schema(True), "k": r.choice([2, 3, 3]), "mode": r.choice(["repeat", "fresh"]), "force": "same"}
        layouts = r.shuffle(self.LAYOUTS)[:r.choice([2, 2, 3])]
        members = [self.build_stream(self.layout_params(P, lay), r.choice([1, 2, 3])) for lay in layouts]
        steps = [{"f": "repr", "cc": r.choice(MODES), "ca": r.choice(MODES[1:])}, {"f": "repr", "cc": "onehot", "ca": "onehot"}, {"f": "flatten"},
                 {"f": "sparsify", "c": r.chance(0.5), "a": True}, {"f": "densify", "n": 30, "m": r.choice(["lookup", "hashing"]), "c": r.chance(0.5), "a": True},
                 {"f": "noise", "c": None, "a": {"kind": "fn", "mul": 1, "add": 10}, "seed": 1}, {"f": "cycle", "after": 0}, {"f": "finalize"}]
        chain = [r.choice(steps)]
        if r.chance(0.35):
            chain.append(r.choice(steps))
        order = r.shuffle(list(range(len(members))))
        if r.chance(0.3):
            order.append(r.choice(order))
        out = {"stream": members[0], "more": members[1:], "chain": chain, "via": "shortcuts", "collection": True, "read_order": order}
        if r.chance(0.3):
            out["delivery"] = "lazy"
        return out

    def collection_case(self, P, case):
        """one Environments object with 2-3 member environments over different feature vocabularies; the shortcuts are applied to the
        collection and the members are read one after the other, in a PRNG order (sometimes a member twice)"""
        r = self.r
        members = []
        if r.chance(0.4):
            return self.layout_collection(P if r.chance(0.5) else None)
        sparse = r.chance(0.75)
        if sparse and r.chance(0.5):
            return self.indicator_collection(P, case)
        for j in range(r.choice([2, 2, 3])):
            Pj = dict(P)
            if sparse:
                Pj["sc"] = self.plain_sparse_schema() if r.chance(0.8) else self.sparse_schema()
                Pj["csc"] = self.plain_sparse_schema() if r.chance(0.4) else ("num",)
                Pj["has_actions"], Pj["mode"] = True, r.choice(["repeat", "fresh"])
                Pj["k"] = r.choice([2, 3, 4])
            if r.chance(0.4):
                Pj = self.layout_params(Pj, r.choice(self.LAYOUTS))
            members.append(self.build_stream(Pj, r.choice([1, 2, 3])))
        chain = [st for st in case["chain"] if st["f"] not in ("batch", "unbatch")] or [{"f": "flatten"}]
        if sparse and r.chance(0.7):
            # a look-up table that is big enough for every member alone (but not for their union, if anything were shared)
            need = 1
            for m in members:
                keys = set()
                for it in m:
                    for v in [it.get("context")] + list(it.get("actions") or []) + ([it["action"]] if "action" in it else []):
                        if isinstance(v, dict) and "d" in v:
                            keys.update(k for k, _ in v["d"])
                need = max(need, len(keys))
            st = {"f": "densify", "n": need + r.choice([0, 0, 1]), "m": "lookup", "c": r.chance(0.5), "a": True}
            chain[r.below(len(chain))] = st
        order = r.shuffle(list(range(len(members))))
        if r.chance(0.3):
            order.append(r.choice(order))
        out = {"stream": members[0], "more": members[1:], "chain": chain, "via": "shortcuts", "collection": True, "read_order": order}
        if case.get("delivery"):
            out["delivery"] = case["delivery"]
        return out

    def aborted_densify_case(self):
        """round g: one Densify(lookup, action=True) object whose first read is aborted by a raising source at a chosen item, then read completely
        (a re-run): sparse indicator-like actions over as many features as there are slots (or one less), few features before the failure, all of them
        afterwards, rewards as DiscreteReward / BinaryReward / function / list, simulated, IGL and logged"""
        r = self.r
        nf = r.choice([3, 4, 4, 5, 6, 8])
        feats = r.shuffle(["a", "b", "c", "d", "e", "f", "g", "h", "k0", "x_1"])[:nf]
        val = lambda: V_n(r.choice([1, 1, 1, 2, 5]))
        nint = r.choice([3, 4, 4, 5])
        k = r.randint(1, nint - 1)
        few = r.choice([1, 2, 2, max(1, nf // 2)])
        kind = r.wchoice([(55, "sim"), (20, "igl"), (25, "logged")])
        rk = r.wchoice([(35, "discrete"), (25, "fn"), (25, "binary"), (15, "list")])
        logged_with_rewards = r.chance(0.5)
        stream = []
        for t in range(nint):
            fs = feats[:few] if t < k else (feats if r.chance(0.7) else r.shuffle(feats)[:r.randint(max(2, nf - 1), nf)])
            if r.chance(0.3):
                fs = r.shuffle(fs)
            acts = [{"d": [[f, val()]]} for f in fs]
            vals = [[1 + feats.index(f), 4] for f in fs]
            if rk == "discrete":
                R = {"k": "discrete", "actions": acts, "values": vals, "default": [0, 1], "dict": False}
            elif rk == "fn":
                R = {"k": "fn", "table": [[a, v] for a, v in zip(acts, vals)], "default": FN_DEFAULT}
            elif rk == "binary":
                R = {"k": "binary", "argmax": acts[-1], "value": [2, 1]}
            else:
                R = {"k": "list", "v": vals}
            it = {"context": None, "actions": acts}
            if kind == "logged":
                j = r.below(len(acts))
                it.update({"action": acts[j], "reward": [1, 2], "probability": [1, 4]})
                if logged_with_rewards:          # one layout for the whole stream (every coba filter decides on the first interaction)
                    it["rewards"] = R
            elif kind == "igl":
                it["rewards"] = {"k": "list", "v": vals}
                it["feedbacks"] = R if rk != "list" else {"k": "fn", "table": [[a, v] for a, v in zip(acts, vals)], "default": FN_DEFAULT}
            else:
                it["rewards"] = R
            stream.append(it)
        chain = [{"f": "densify", "n": nf + r.choice([0, 0, 0, 1]), "m": "lookup", "c": r.chance(0.3), "a": True}]
        if r.chance(0.25):
            chain.append(r.choice([{"f": "finalize"}, {"f": "sparsify", "c": False, "a": True}, {"f": "batch", "n": 2}]))
        case = {"stream": stream, "chain": chain, "via": r.wchoice([(40, "filters"), (30, "pipes"), (30, "shortcuts")]), "abort": k}
        if r.chance(0.45):
            case["abort_kind"] = "abandon"      # phase 6: the consumer stops after k items (GeneratorExit) instead of the source failing at item k
        if r.chance(0.4):
            case["delivery"] = "lazy"
        if r.chance(0.25):
            case["wrap"] = r.choice(["lazysparse", "hashable"])
        return case

    def hetero_logged_case(self):
        """round g: logged interactions whose action sets mix members that nest their features differently — a plain id or a nested id, followed
        by nested features: (1,(2,3)) next to ((4,),(5,6)) — with the logged action at ANY index including 0, and the first logged action of the
        stream nested differently from the first member of the first action set (Flatten / Repr derive one pattern from the first member of the first
        set and another from the first logged action, so the logged action has to be re-taken from the re-represented set)"""
        r = self.r
        box = r.choice(["t", "t", "l"])
        cnt = [0]

        def num():
            cnt[0] += 1
            return V_n(cnt[0] if r.chance(0.8) else -cnt[0])

        def member(shape):
            head = num() if shape == "P" else {box: [num() for _ in range(r.choice([1, 1, 2]) if shape == "Q" else 1)]}
            return {box: [head, {box: [num(), num()]}]}
        nint = r.choice([2, 3, 3, 4])
        first_shape = r.choice(["P", "Q"])
        other = "Q" if first_shape == "P" else "P"
        rk = r.wchoice([(30, "none"), (25, "list"), (25, "discrete"), (20, "fn")])
        stream = []
        for t in range(nint):
            n = r.choice([2, 2, 3])
            shapes = [r.choice(["P", "Q"]) for _ in range(n)]
            if t == 0:
                shapes[0] = first_shape
            if other not in shapes:
                shapes[r.randint(1, n - 1) if t == 0 else r.below(n)] = other
            acts = [member(sh) for sh in shapes]
            # the logged action: of the `other` shape (the shape of the first logged action) in 85 % of the interactions, at index 0 whenever possible
            cands = [i for i, sh in enumerate(shapes) if sh == other] if (t == 0 or r.chance(0.85)) else list(range(n))
            j = 0 if (0 in cands and r.chance(0.7)) else r.choice(cands)
            vals = [[i + 1, 4] for i in range(n)]
            it = {"context": r.choice([None, {box: [V_n(1), {box: [V_n(2), V_n(3)]}]}]), "actions": acts, "action": acts[j], "reward": vals[j], "probability": [1, 4]}
            if rk == "list":
                it["rewards"] = {"k": "list", "v": vals}
            elif rk == "discrete":
                it["rewards"] = {"k": "discrete", "actions": acts, "values": vals, "default": [0, 1], "dict": False}
            elif rk == "fn":
                it["rewards"] = {"k": "fn", "table": [[a, v] for a, v in zip(acts, vals)], "default": FN_DEFAULT}
            stream.append(it)
        chain = [r.wchoice([(70, {"f": "flatten"}), (15, {"f": "finalize"}), (15, {"f": "repr", "cc": None, "ca": "onehot"})])]
        if r.chance(0.3):
            chain.append(r.choice([{"f": "finalize"}, {"f": "flatten"}, {"f": "batch", "n": 2}, {"f": "sparsify", "c": False, "a": True}]))
        case = {"stream": stream, "chain": chain, "via": r.wchoice([(55, "filters"), (15, "pipes"), (30, "shortcuts")])}
        if r.chance(0.3):
            case["delivery"] = "lazy"
        return case

    def noise_scalar_case(self):
        """phase 4: numeric scalar actions through Noise — mostly through the real `Environments.noise(...)` shortcut — with an
        injective noiser (x*mul+add, mul != 0), no action noise, a collapsing one (mul = 0) or a generator-driven one; simulated,
        IGL and logged streams with list / functional rewards and feedbacks (the inputs of `noise_scalar_aligned`)"""
        r = self.r
        P = {"sc": ("num",), "csc": r.choice([("num",), ("none",), self.dense_schema()]), "k": r.choice([2, 3, 3, 4, 5]),
             "kind": r.wchoice([(40, "sim"), (30, "igl"), (30, "logged")]), "callable_class": r.chance(0.75), "fb_callable": r.chance(0.75),
             "mode": r.wchoice([(40, "repeat"), (45, "fresh"), (15, "mixed")]), "force": None if r.chance(0.25) else "same"}
        P["has_actions"] = r.chance(0.95)
        P["with_rewards"] = P["has_actions"] and r.chance(0.15)
        stream = self.build_stream(P, r.choice([1, 2, 2, 3, 4]))
        w = r.below(100)
        if w < 60:
            a = {"kind": "fn", "mul": r.choice([1, 2, -1, 3, -2]), "add": r.choice([0, 1, 10, -4, 100])}
        elif w < 70:
            a = None
        elif w < 80:
            a = {"kind": "fn", "mul": 0, "add": r.choice([0, 5])}
        else:
            a = self.noise()
        st = {"f": "noise", "c": self.noise() if (a is None or r.chance(0.3)) else None, "a": a, "seed": r.choice([1, 1, 2, 7])}
        chain = [st]
        batched = r.chance(0.15)
        if r.chance(0.3):
            chain.append(self.step(batched))      # never a Batch on an already batched stream (outside the modelled / monitored protocol)
        if batched:
            chain.insert(0, {"f": "batch", "n": r.choice([1, 2, 3])})
        case = {"stream": stream, "chain": chain, "via": r.wchoice([(65, "shortcuts"), (25, "filters"), (10, "pipes")])}
        if r.chance(0.3):
            case["delivery"] = "lazy"
        return case

    def leave_out(self, case, p=1.0):
        """phase 6: constructor arguments left out (the constructor's default applies): for every Sparsify / Densify / Repr / Cycle step, with chance p,
        a non-empty PRNG subset of its arguments"""
        r = self.r
        for st in case["chain"]:
            keys = sorted(FILTER_DEFAULTS.get(st["f"], {}))
            if keys and r.chance(p):
                st["omit"] = sorted(r.shuffle(keys)[:r.randint(1, len(keys))])
        return resolve_defaults(case)

    def recurring_label_case(self):
        """round i (im1): a HISTORY inside one stream — 3-6 interactions over categorical actions whose level lists are permuted / extended from one
        interaction to the next, BinaryReward rewards (or IGL feedbacks) whose argmax LABEL recurs in a later interaction under another level order
        (same string, other one-hot), through Repr (onehot / onehot_tuple / string) or Finalize"""
        r = self.r
        base = r.shuffle(LEVELS)[:r.choice([3, 3, 4])]
        nint = r.randint(3, 6)
        igl = r.chance(0.35)
        logged = (not igl) and r.chance(0.2)
        stream, seen = [], []
        for t in range(nint):
            lv = list(base) if t == 0 or r.chance(0.25) else r.shuffle(base) + ([l for l in LEVELS if l not in base][:1] if r.chance(0.3) else [])
            labels = r.shuffle(lv)[:max(2, r.randint(2, len(lv)))]
            again = [l for l in labels if l in seen]
            arg = r.choice(again) if again and r.chance(0.8) else r.choice(labels)
            seen.append(arg)
            acts = [{"c": l, "L": list(lv)} for l in labels]
            B = {"k": "binary", "argmax": {"c": arg, "L": list(lv)}, "value": r.choice([[1, 1], [1, 1], [2, 1], [1, 2]])}
            it = {"context": r.choice([None, V_n(t)]), "actions": acts}
            if igl:
                it["rewards"] = {"k": "list", "v": [[i, 1] for i in range(len(acts))]}
                it["feedbacks"] = B
            else:
                it["rewards"] = B
            if logged:
                it.update({"action": acts[r.below(len(acts))], "reward": [1, 2], "probability": [1, len(acts)]})
            stream.append(it)
        ca = r.choice(["onehot", "onehot", "onehot_tuple", "string"])
        chain = [r.choice([{"f": "repr", "cc": r.choice(MODES), "ca": ca}, {"f": "repr", "cc": None, "ca": ca}, {"f": "finalize"}])]
        if r.chance(0.25):
            chain.append(r.choice([{"f": "sparsify", "c": True, "a": True}, {"f": "flatten"}, {"f": "batch", "n": 2}]))
        case = {"stream": stream, "chain": chain, "via": r.wchoice([(50, "filters"), (20, "pipes"), (30, "shortcuts")])}
        if r.chance(0.4):
            case["delivery"] = "lazy"
        return case

    def defaults_case(self, tier):
        """phase 6: a chain around Sparsify / Densify / Repr whose constructor calls leave arguments out, via classes / Pipes.join / shortcuts"""
        r = self.r
        focus = r.choice([
            lambda g: {"f": "sparsify", "c": True, "a": True},
            lambda g: {"f": "densify", "n": g.r.choice([3, 8, 400]), "m": g.r.choice(["lookup", "hashing"]), "c": g.r.chance(0.5), "a": True},
            lambda g: {"f": "repr", "cc": g.r.choice(MODES), "ca": g.r.choice(MODES)},
        ])
        return self.leave_out(self.case(tier, focus), 1.0)

    def case(self, tier, focus=None):
        r = self.r
        if focus is None and r.chance(0.03):
            return self.defaults_case(tier)
        if focus is None and r.chance(0.03):
            return self.recurring_label_case()
        if focus is None and r.chance(0.03):
            return self.long_repr_case()
        if focus is None and r.chance(0.05):
            return self.noise_scalar_case()
        if focus is None and r.chance(0.04):
            return self.aborted_densify_case()
        if focus is None and r.chance(0.04):
            return self.hetero_logged_case()
        # "long": 20-60 interactions with fresh action objects each, delivered lazily (objects of earlier interactions die while reading)
        long_ = focus is None and r.chance(0.07)
        reuse = (not long_ and r.chance(0.15)) or (long_ and r.chance(0.2))
        plain = (long_ and r.chance(0.75)) or (not long_ and reuse and r.chance(0.35))
        sc = self.plain_sparse_schema() if plain else self.schema()
        csc = (self.plain_sparse_schema() if r.chance(0.5) else ("num",)) if plain else self.schema(True)
        P = {"sc": sc, "csc": csc, "k": r.choice([1, 2, 2, 3, 3, 4]) if not long_ else r.choice([2, 3, 3, 4]),
             "kind": r.wchoice([(50, "sim"), (18, "igl"), (32, "logged")]), "callable_class": r.chance(0.75), "fb_callable": r.chance(0.7),
             "mode": r.wchoice([(40, "repeat"), (45, "fresh"), (15, "mixed")]) if not long_ else "fresh", "force": None if r.chance(0.25) else "same"}
        P["has_actions"] = r.chance(0.88) or long_
        P["with_rewards"] = P["has_actions"] and r.chance(0.15)
        nint = r.choice([1, 1, 2, 2, 3]) if not long_ else r.randint(20, 60)
        stream = self.build_stream(P, nint)
        n = r.choice([1, 1, 2, 2, 3, 4]) if not long_ else r.choice([1, 1, 2, 3])
        chain, batched = [], False
        for i in range(n):
            st = self.step(batched)
            if focus and r.chance(0.5):
                st = focus(self)
            if (long_ or plain) and i == 0 and r.chance(0.6):
                st = {"f": "densify", "n": r.choice([8, 30, 400, 400]), "m": r.choice(["lookup", "hashing"]), "c": r.chance(0.5), "a": True}
                if st["m"] == "hashing":
                    st["n"] = r.choice([400, 1000])
            chain.append(st)
            if st["f"] == "batch":
                batched = bool(st["n"])
            elif st["f"] == "unbatch":
                batched = False
        if sc[0] in ("str", "cat") and not batched and r.chance(0.15):
            chain.insert(r.below(len(chain) + 1), {"f": "cycle", "after": r.choice([0, 0, 1, 2])})
        if batched and r.chance(0.45):
            chain.append({"f": "unbatch"})
        via = r.wchoice([(60, "filters"), (15, "pipes"), (25, "shortcuts")])
        case = {"stream": stream, "chain": chain, "via": via}
        if long_ or r.chance(0.3):
            case["delivery"] = "lazy"
        if plain and sc[0] == "sparse":
            w = r.choice([None, "lazysparse", "hashable"])
            if w:
                case["wrap"] = w
        if r.chance(0.35):
            # interactions are dicts: permute the insertion order of their keys (differently per interaction)
            for seq_ in [stream]:
                for it in seq_:
                    if r.chance(0.7):
                        it["order"] = r.shuffle([k for k in ("context", "actions", "rewards", "feedbacks", "action", "reward", "probability") if k in it])
        if case.get("wrap") == "hashable":
            # HashableSparse views are hashable, the model's dicts are not: Cycle's `set(actions)` would differ
            case["chain"] = [st if st["f"] != "cycle" else {"f": "flatten"} for st in chain]
        if r.chance(0.12):
            case = self.leave_out(case, 0.7)
        if focus is None and not long_ and r.chance(0.08):
            return self.collection_case(P, case)
        # the same filter objects applied to one or two further sequences
        if reuse and not long_:
            case["more"] = [self.build_stream(P, r.choice([1, 2, 3])) for _ in range(r.choice([1, 1, 2]))]
        elif reuse:
            case["more"] = [self.build_stream(P, r.randint(5, 20))]
        return case


# ------------------------------------------------------------------ the property
def _copy(x):
    return json.loads(json.dumps(x))


def extract_repr_modes(repo):
    """Repr's accepted mode names (Literal[...] annotations) and EncodeCatRows' two if/elif/else chains on self._tipe, read with `ast`"""
    import ast
    got = {}
    rows = ast.parse(open(os.path.join(repo, "coba", "pipes", "rows.py"), encoding="utf-8").read())
    filt = ast.parse(open(os.path.join(repo, "coba", "environments", "filters.py"), encoding="utf-8").read())

    def cls(tree, name):
        return next((n for n in tree.body if isinstance(n, ast.ClassDef) and n.name == name), None)

    def meth(c, name):
        return next((n for n in c.body if isinstance(n, ast.FunctionDef) and n.name == name), None) if c is not None else None

    def literal_names(node):
        """Literal["a","b",...] -> ["a","b",...]"""
        if isinstance(node, ast.Subscript) and isinstance(node.value, ast.Name) and node.value.id == "Literal":
            sl = node.slice
            elts = sl.elts if isinstance(sl, ast.Tuple) else [sl]
            if all(isinstance(e, ast.Constant) and isinstance(e.value, str) for e in elts):
                return [e.value for e in elts]
        return None

    def tipe_const(cmp):
        """`self._tipe == 'x'` or `'x' == self._tipe` -> 'x'"""
        if isinstance(cmp, ast.Compare) and len(cmp.ops) == 1 and isinstance(cmp.ops[0], ast.Eq):
            sides = [cmp.left, cmp.comparators[0]]
            if any(isinstance(x, ast.Attribute) and x.attr == "_tipe" for x in sides):
                c = next((x for x in sides if isinstance(x, ast.Constant) and isinstance(x.value, str)), None)
                return c.value if c is not None else None
        return None
    # Repr.__init__(categorical_context: Literal[...], categorical_actions: Literal[...])
    init = meth(cls(filt, "Repr"), "__init__")
    if init is not None:
        anns = {a.arg: literal_names(a.annotation) for a in init.args.args if a.annotation is not None}
        if anns.get("categorical_context") and anns.get("categorical_actions"):
            got["repr_context"] = anns["categorical_context"]
            got["repr_actions"] = anns["categorical_actions"]
    ecr = cls(rows, "EncodeCatRows")
    init = meth(ecr, "__init__")
    if init is not None and init.args.defaults:
        names = literal_names(init.args.defaults[-1]) or next((literal_names(a.annotation) for a in init.args.args if a.annotation is not None and literal_names(a.annotation)), None)
        if names:
            got["encode_modes"] = names
    # _encode_values: if not Categorical: rows / elif self._tipe == 'string': str / else: as_onehot
    ev = meth(ecr, "_encode_values")
    if ev is not None:
        chain, node = [], next((n for n in ev.body if isinstance(n, ast.If)), None)
        while node is not None:
            c = tipe_const(node.test)
            src = ast.dump(ast.Module(body=node.body, type_ignores=[]))
            act = "str" if "id='str'" in src else "as_onehot" if "as_onehot" in src else "rows"
            if c is not None:
                chain.append([c, act])
            if len(node.orelse) == 1 and isinstance(node.orelse[0], ast.If):
                node = node.orelse[0]
            else:
                src = ast.dump(ast.Module(body=node.orelse, type_ignores=[]))
                chain.append([None, "str" if "id='str'" in src else "as_onehot" if "as_onehot" in src else "rows"])
                node = None
        if chain and chain[-1][0] is None and all(c is not None for c, _ in chain[:-1]):
            got["values_chain"] = chain
    # _encode_collection: get_string = 'string' == self._tipe; flat_onehot = 'onehot' == self._tipe; catset: if get_string / elif flat_onehot / else
    ec = meth(ecr, "_encode_collection")
    if ec is not None:
        flags = {}
        for n in ec.body:
            if isinstance(n, ast.Assign) and len(n.targets) == 1 and isinstance(n.targets[0], ast.Name):
                c = tipe_const(n.value)
                if c is not None:
                    flags[n.targets[0].id] = c
        catset = next((n for n in ec.body if isinstance(n, ast.FunctionDef) and n.name == "catset"), None)
        chain = []
        if catset is not None:
            for node in ast.walk(catset):
                if isinstance(node, ast.If) and isinstance(node.test, ast.Name) and node.test.id in flags and not chain:
                    while node is not None:
                        src = ast.dump(ast.Module(body=node.body, type_ignores=[]))
                        act = "str" if "id='str'" in src else "flat" if "attr='extend'" in src or "attr='pop'" in src else "as_onehot" if "as_onehot" in src else "?"
                        chain.append([flags.get(node.test.id) if isinstance(node.test, ast.Name) else None, act])
                        if len(node.orelse) == 1 and isinstance(node.orelse[0], ast.If):
                            node = node.orelse[0]
                        else:
                            src = ast.dump(ast.Module(body=node.orelse, type_ignores=[]))
                            chain.append([None, "str" if "id='str'" in src else "flat" if "attr='extend'" in src or "attr='pop'" in src else "as_onehot" if "as_onehot" in src else "?"])
                            node = None
        if chain and chain[-1][0] is None and all(c is not None for c, _ in chain[:-1]) and all(a != "?" for _, a in chain):
            got["coll_chain"] = chain
    return got


def extract_options(repo):
    """phase 6: default values / method names / method dispatch / what the Environments shortcuts hand on, read off the source with `ast`"""
    import ast
    got = {}
    ftree = ast.parse(open(os.path.join(repo, "coba", "environments", "filters.py"), encoding="utf-8").read())
    ctree = ast.parse(open(os.path.join(repo, "coba", "environments", "core.py"), encoding="utf-8").read())

    def cls(tree, name):
        return next((n for n in tree.body if isinstance(n, ast.ClassDef) and n.name == name), None)

    def meth(c, name):
        return next((n for n in c.body if isinstance(n, ast.FunctionDef) and n.name == name), None) if c is not None else None

    def defaults(fn):
        """argument name -> constant default (only arguments that have one)"""
        if fn is None:
            return None
        args = fn.args.args
        ds = fn.args.defaults
        out = {}
        for a, d in zip(args[len(args) - len(ds):], ds):
            if not isinstance(d, ast.Constant):
                return None
            out[a.arg] = d.value
        return out

    def bools(d, names):
        return [d[n] for n in names] if d is not None and all(isinstance(d.get(n), bool) for n in names) else None

    def modes(d, names):
        if d is None or not all(n in d and (d[n] is None or isinstance(d[n], str)) for n in names):
            return None
        return ["None" if d[n] is None else d[n] for n in names]
    dS, dD = defaults(meth(cls(ftree, "Sparsify"), "__init__")), defaults(meth(cls(ftree, "Densify"), "__init__"))
    dR, dC = defaults(meth(cls(ftree, "Repr"), "__init__")), defaults(meth(cls(ftree, "Cycle"), "__init__"))
    E = cls(ctree, "Environments")
    eS, eD, eR = defaults(meth(E, "sparse")), defaults(meth(E, "dense")), defaults(meth(E, "repr"))
    for key, val in (("sparsify_init", bools(dS, ["context", "action"])), ("densify_init_flags", bools(dD, ["context", "action"])),
                     ("env_sparse", bools(eS, ["context", "action"])), ("env_dense_flags", bools(eD, ["context", "action"])),
                     ("repr_init", modes(dR, ["categorical_context", "categorical_actions"])), ("env_repr", modes(eR, ["cat_context", "cat_actions"]))):
        if val is not None:
            got[key] = val
    if eD is not None and ("n_feats" in eD or "method" in eD):
        got.pop("env_dense_flags", None)        # the shortcut grew defaults the model does not know: leave the obligation to the fallback / (A)
    if dD is not None and isinstance(dD.get("n_feats"), int) and not isinstance(dD.get("n_feats"), bool) and dD["n_feats"] >= 0:
        got["densify_n"] = dD["n_feats"]
    if dD is not None and isinstance(dD.get("method"), str):
        got["densify_m"] = dD["method"]
    if dC is not None and isinstance(dC.get("after"), int) and not isinstance(dC.get("after"), bool) and dC["after"] >= 0:
        got["cycle_after"] = dC["after"]
    # Literal['lookup','hashing'] of Densify.__init__'s `method`
    di = meth(cls(ftree, "Densify"), "__init__")
    if di is not None:
        for a in di.args.args:
            if a.arg == "method" and isinstance(a.annotation, ast.Subscript):
                sl = a.annotation.slice
                el = sl.elts if isinstance(sl, ast.Tuple) else [sl]
                if all(isinstance(e, ast.Constant) and isinstance(e.value, str) for e in el):
                    got["method_names"] = [e.value for e in el]
    # _make_dense: if self._method == '<name>': <lookup | hashing> else: <the other>
    md = meth(cls(ftree, "Densify"), "_make_dense")
    if md is not None:
        def branch(body):
            src = [n for b in body for n in ast.walk(b)]
            lk = any(isinstance(n, ast.Subscript) and isinstance(n.value, ast.Attribute) and n.value.attr == "_lookup" for n in src)
            hs = any(isinstance(n, ast.Call) and isinstance(n.func, ast.Name) and n.func.id == "crc32" for n in src)
            return "lookup" if lk and not hs else "hashing" if hs and not lk else None
        for n in ast.walk(md):
            if (isinstance(n, ast.If) and isinstance(n.test, ast.Compare) and len(n.test.ops) == 1 and isinstance(n.test.ops[0], (ast.Eq, ast.NotEq))):
                sides = [n.test.left] + n.test.comparators
                if any(isinstance(x, ast.Attribute) and x.attr == "_method" for x in sides):
                    const = next((x.value for x in sides if isinstance(x, ast.Constant) and isinstance(x.value, str)), None)
                    b1, b2 = branch(n.body), branch(n.orelse)
                    if const is not None and b1 and b2:
                        if isinstance(n.test.ops[0], ast.NotEq):
                            b1, b2 = b2, b1
                        got["method_branch"] = [const, b1, b2]
                    break

    def passes(fn, callee):
        if fn is None:
            return None
        c = next((n for n in ast.walk(fn) if isinstance(n, ast.Call) and isinstance(n.func, ast.Name) and n.func.id == callee), None)
        if c is None:
            return None
        out = [a.id if isinstance(a, ast.Name) else "?" for a in c.args]
        out += ["%s=%s" % (k.arg, k.value.id if isinstance(k.value, ast.Name) else "?") for k in c.keywords]
        return out
    for key, fn, callee in (("env_sparse_passes", meth(E, "sparse"), "Sparsify"), ("env_dense_passes", meth(E, "dense"), "Densify"),
                            ("env_repr_passes", meth(E, "repr"), "Repr")):
        v = passes(fn, callee)
        if v is not None:
            got[key] = v
    return got


class C10(Property):
    id = "C10"
    prop_modules = ["CobaVerif.Props.C10"]
    quick_n, thorough_n, search_n = 3000, 30000, 3000
    case_timeout = 60
    workers = 8
    rule = ("streams of 1-3 simulated / IGL / logged interactions over one action schema (scalar, string, Categorical, dense tuple/list incl. nested, "
            "sparse dict, multi-label) with pairwise-distinct actions, rewards as list/tuple/BinaryReward/DiscreteReward (list, dict, permuted, superset)/"
            "HammingReward/L1Reward/plain function, run through chains of 1-4 of Repr(16 mode pairs)/Flatten/Sparsify/Densify(lookup,hashing)/Noise/"
            "Cycle(after)/Batch/Unbatch/Finalize built as filter objects, Pipes.join or Environments shortcuts (with the implicit Finalize); "
            "one Environments object with 2-3 member environments (7 %, read in a PRNG order), key insertion order of the interaction dicts permuted (35 %), "
            "mixed-kind action sets (6 %); "
            "delivered as a materialised list or (30 %) lazily from a generator of fresh objects that are dropped after use, 7 % long streams of 20-60 "
            "interactions with fresh (LazySparse / HashableSparse / dict) action objects each, 15 % with one or two further sequences pushed through "
            "the same filter objects and judged on their own; "
            "3 % + 12 % of the generic cases with constructor arguments LEFT OUT of Sparsify / Densify / Repr / Cycle and of the shortcuts (the default applies); "
            "non-trivial = some step changed the representation of the actions and there is a functional reward/feedback or a logged action to keep aligned; "
            "distinct by canonical JSON of the case")
    trusted_base = [
        "Python == on generated action values is mirrored by the model's pyEq (correspondence-checked through every DiscreteReward/BinaryReward look-up); "
        "object identity (`x in [x]`) is modelled by reflexivity of pyEq",
        "which of the recorded defects the tree under test still has is detected by replaying the six Lean counterexample witnesses on the real code (Cfg flags)",
        "zlib.crc32 (Densify hashing) and CobaRandom noise values are fed to the model as data: the theorems quantify over all hash functions / noise values",
        "CobaRandom(1).shuffle used by Densify(lookup) is the C05 model's shuffle",
        "filter objects: the model's claim that only Densify's key table survives a filter() call (filter_stateless_except_lookup, densify_reuse_eq_prior) "
        "is tied to the code by the reuse cases (same objects, several sequences) and by comparing the object's `_lookup` with densifyRun's final table",
        "batched rewards: the model's batchCall / batchObs (member k's function on member k's action) are compared with the real Batch.Callable protocol on every "
        "list-delivered case whose final stream is batched (tag batch-obs-checked); pairwiseNeB is compared with Python's != on every case",
        "translator tie (pre_build): Finalize's Repr(\"onehot\",\"onehot\"), Sparsify's default headers, the seed of Densify's slot generator, Cycle's "
        "rotation constants and its `i >= after` comparison are re-extracted with ast from coba/environments/filters.py of the tree under test into "
        "Generated/C10Consts.lean on every run; source_constants_match / model_uses_constants (decide / rfl) tie them to the model's definitions; "
        "the extraction itself (ast patterns) is trusted, a reshaped source falls back to the model's constants and says so in the evidence",
        "phase 6 translator tie: constructor defaults of Sparsify / Densify / Repr / Cycle and of Environments.sparse / dense / repr, Densify's method names, the "
        "`if self._method == 'lookup'` dispatch of _make_dense (as a Lean function of the name) and the arguments each shortcut hands to the filter it builds are "
        "re-extracted with ast into Generated/C10Options.lean on every run (option_defaults_match_source, method_dispatch_matches_source); the driver builds every "
        "step through mkSparsify / mkDensify / mkRepr / mkCycle, so an argument the case leaves out is filled in by the MODEL's default; the real constructors' "
        "inspect.signature and a real Densify(method=name) are compared with the model on every case (options-checked)",
        "the shape predicates of the injectivity theorems (denseCatShapeB, flattenShapeB) are evaluated by the driver on the real inputs of Repr/Flatten steps "
        "and their conclusion (the real filter keeps the action set a set) is checked on the real output",
    ]
    assumptions = [
        "actions of one interaction are pairwise distinct under ==; all actions (and the logged action) of a stream follow one schema, as every coba filter assumes (first row decides)",
        "steps that can merge distinct actions by design (Noise on actions, Densify hashing, Densify lookup with fewer slots than keys) are only checked when no two actions were merged",
        "torch tensors excluded; reward noise excluded (it changes rewards by design)",
    ]
    partial_theorems = {
        "chain_aligned": "hypothesis chainHypB (decidable, evaluated by the driver on every case as `hyp`, checked against the model's output as (C)). "
                         "Discharged symbolically from explicit shape/injectivity hypotheses for: Sparsify (sparsify_aligned), Finalize's wrapping "
                         "(finalize_wrap_aligned), Noise (noise_plans_explicit: only `the noisy action lists are sets` is left, necessary by "
                         "noise_collision_counterexample), scalar categoricals (repr_scalar_actions_distinct), and at the level of the row encoders for Repr on "
                         "dense rows with top-level categoricals (repr_dense_rows_distinct, all three modes) and Flatten on equally shaped dense rows "
                         "(flatten_dense_rows_distinct, shape necessary by flatten_shape_counterexample). Still evaluated per case: the passage from the row "
                         "encoders to the per-interaction plans of Repr/Flatten (splitBy plumbing), Repr on sparse rows and on nested categoricals, "
                         "Densify outside densify_sparse_aligned (context only, mixed or non-sparse action sets, stored zeros, logged action equal but not identical to its member), "
                         "the `keep` cases of Repr('string') on lists and Harden (a congruence of pyEq, not proved)",
        "densify_sparse_aligned": "phase 5, full strength for Densify(action=True) on sparse action sets, look-up (any history of the object) and hashing (any table): "
                     "no run-time-evaluated hypothesis on the output; densifySparseHypB is a decidable predicate of the INPUT stream and of the slot table densifyTable "
                     "(itself a function of the input's keys): rows with unique keys and no stored zero, keys of each action set on pairwise different slots < n_feats, "
                     "logged action literally its member. Both exclusions are necessary (densify_hashing_counterexample, densify_sparse_counterexample). Not proved: that the "
                     "look-up table IS injective while it holds at most n_feats keys (a property of CobaRandom.shuffle being a permutation; evaluated per case through densifyTable)",
        "noise_scalar_aligned": "full strength for numeric scalar actions (no run-time-evaluated hypothesis: injNoiser + noiseScalarHypB are decidable "
                     "predicates of the noiser and of the INPUT stream); the driver evaluates them at every Noise step (tag noise-scalar-hyp) and the real "
                     "filter's output is checked against the conclusion. Noise on row-valued / sparse actions and generator-driven noisers stay under chain_aligned",
        "pyEq_trans": "proved on wfNoLazy values (numbers, strings, categoricals, lists, tuples, dicts with unique keys); fails with SparseDense rows "
                     "(pyEq_not_transitive_counterexample: [1] == SparseDense == (1,)), and Python's nan != nan is outside the rational-valued model and the generator",
        "pyEq_symm": "phase 5: proved for all wfNoLazy values incl. nested dicts (pyEq_symm_wf, pigeonhole dict_keys_pigeonhole; unique keys necessary by "
                     "pyEq_symm_counterexample) and for well-formed SparseDense rows against list / tuple / SparseDense / str / dict (pyEq_symm_rows, wfRow: one entry per "
                     "slot, slots < length, lazy-free stored values); SparseDense nested inside other values is not covered",
        "pyEq_refl": "proved for values without SparseDense whose dict keys are unique (wfNoLazy); SparseDense rows not covered",
        "cycle_spec": "Cycle intentionally breaks alignment: its specification is the rotation of the observable by one place; the chain theorem treats a "
                      "Cycle step that rotates as outside its hypotheses (targetHypB (.rotate _) = false)",
    }

    # ---- translator step: constants of the anchored source, re-extracted with `ast` from the tree under test on every run
    def pre_build(self):
        import ast
        from core import lean
        repo = os.environ.get("COBA_REPO", "/repo")
        dflt = {"finalize": ["onehot", "onehot"], "headers": ["context", "action", "action"], "seed": 1, "shifts": [1, 1], "inclusive": True}
        got, notes = {}, []
        try:
            tree = ast.parse(open(os.path.join(repo, "coba", "environments", "filters.py"), encoding="utf-8").read())
            classes = {n.name: n for n in tree.body if isinstance(n, ast.ClassDef)}

            def calls(node):
                return sorted((n for n in ast.walk(node) if isinstance(n, ast.Call)), key=lambda n: (n.lineno, n.col_offset))

            def fname(c):
                return c.func.id if isinstance(c.func, ast.Name) else c.func.attr if isinstance(c.func, ast.Attribute) else None

            def method(cls, name):
                return next((n for n in classes[cls].body if isinstance(n, ast.FunctionDef) and n.name == name), None) if cls in classes else None
            # Finalize: Repr("onehot","onehot")
            for c in calls(classes["Finalize"]) if "Finalize" in classes else []:
                if fname(c) == "Repr" and len(c.args) == 2 and all(isinstance(a, ast.Constant) and (a.value is None or isinstance(a.value, str)) for a in c.args) and not c.keywords:
                    got["finalize"] = ["None" if a.value is None else a.value for a in c.args]
                    break
            # Sparsify.filter: the default headers handed to _make_sparse (directly or through repeat(...))
            m = method("Sparsify", "filter")
            if m is not None:
                hs = []
                for c in calls(m):
                    if fname(c) == "_make_sparse" and len(c.args) >= 3 and isinstance(c.args[2], ast.Constant) and isinstance(c.args[2].value, str):
                        hs.append(((c.lineno, c.col_offset), c.args[2].value))
                    elif fname(c) == "repeat" and len(c.args) == 1 and isinstance(c.args[0], ast.Constant) and isinstance(c.args[0].value, str):
                        hs.append(((c.lineno, c.col_offset), c.args[0].value))
                if hs:
                    got["headers"] = [h for _, h in sorted(hs)]
            # Densify: CobaRandom(seed=1)
            for c in calls(classes["Densify"]) if "Densify" in classes else []:
                if fname(c) == "CobaRandom":
                    v = c.args[0] if c.args else next((k.value for k in c.keywords if k.arg == "seed"), None)
                    if isinstance(v, ast.Constant) and isinstance(v.value, int) and not isinstance(v.value, bool) and v.value >= 0:
                        got["seed"] = v.value
                        break
            # Cycle.filter: rotate = lambda l: l[-1%n:] + l[:-1%n]  and  `if i >= self._after`
            m = method("Cycle", "filter")
            if m is not None:
                lam = next((n.value for n in ast.walk(m) if isinstance(n, ast.Assign) and isinstance(n.value, ast.Lambda)
                            and any(isinstance(t, ast.Name) and t.id == "rotate" for t in n.targets)), None)
                if lam is not None:
                    body = lam.body
                    ok = (isinstance(body, ast.BinOp) and isinstance(body.op, ast.Add)
                          and all(isinstance(x, ast.Subscript) and isinstance(x.slice, ast.Slice) for x in (body.left, body.right))
                          and body.left.slice.upper is None and body.left.slice.lower is not None
                          and body.right.slice.lower is None and body.right.slice.upper is not None)
                    if ok:
                        sh = []
                        for e in (body.left.slice.lower, body.right.slice.upper):
                            if (isinstance(e, ast.BinOp) and isinstance(e.op, ast.Mod) and isinstance(e.left, ast.UnaryOp) and isinstance(e.left.op, ast.USub)
                                    and isinstance(e.left.operand, ast.Constant) and isinstance(e.left.operand.value, int)):
                                sh.append(e.left.operand.value)
                        if len(sh) == 2:
                            got["shifts"] = sh
                for n in ast.walk(m):
                    if isinstance(n, ast.Compare) and len(n.ops) == 1 and any(isinstance(x, ast.Attribute) and x.attr == "_after" for x in [n.left] + n.comparators):
                        left_is_after = isinstance(n.left, ast.Attribute) and n.left.attr == "_after"
                        op = type(n.ops[0])
                        if (op, left_is_after) in ((ast.GtE, False), (ast.LtE, True)):
                            got["inclusive"] = True
                        elif (op, left_is_after) in ((ast.Gt, False), (ast.Lt, True)):
                            got["inclusive"] = False
                        break
        except Exception as e:      # unreadable / reshaped source: the obligations fall back to the model's constants (stated in the evidence)
            notes.append("C10 constants: extraction failed (%s)" % type(e).__name__)
        vals = dict(dflt)
        vals.update(got)
        self._extracted = got
        missing = sorted(set(dflt) - set(got))

        def lstr(xs):
            return "[" + ", ".join('"%s"' % x.replace("\\", "\\\\").replace('"', '\\"') for x in xs) + "]"
        body = ("-- GENERATED by harness/props/c10.py from coba/environments/filters.py on every run; do not edit.\n"
                "namespace Coba.Generated.C10\n"
                "def finalizeReprModes : List String := %s\n"
                "def sparsifyHeaders : List String := %s\n"
                "def densifySeed : Nat := %d\n"
                "def cycleShifts : List Nat := [%s]\n"
                "def cycleAfterInclusive : Bool := %s\n"
                "def extracted : Bool := %s\n"
                "end Coba.Generated.C10\n"
                % (lstr(vals["finalize"]), lstr(vals["headers"]), vals["seed"], ", ".join(str(abs(int(x))) for x in vals["shifts"]),
                   "true" if vals["inclusive"] else "false", "true" if not missing else "false"))
        path = os.path.join(lean.LEAN_DIR, "CobaVerif", "Generated", "C10Consts.lean")
        old = open(path, encoding="utf-8").read() if os.path.exists(path) else None
        if old != body:
            os.makedirs(os.path.dirname(path), exist_ok=True)
            with open(path, "w", encoding="utf-8") as f:
                f.write(body)
        notes.append("C10 constants extracted from coba/environments/filters.py: %s%s"
                     % (json.dumps(got, sort_keys=True), "; NOT found (model's own value used): %s" % missing if missing else ""))
        # --- Repr's mode names and EncodeCatRows' dispatch on them -> Generated/C10ReprModes.lean (obligation: repr_modes_match_source)
        mdflt = {"repr_context": ["onehot", "onehot_tuple", "string"], "repr_actions": ["onehot", "onehot_tuple", "string"],
                 "encode_modes": ["onehot", "onehot_tuple", "string"], "values_chain": [["string", "str"], [None, "as_onehot"]],
                 "coll_chain": [["string", "str"], ["onehot", "flat"], [None, "as_onehot"]]}
        try:
            mgot = extract_repr_modes(repo)
        except Exception as e:
            mgot = {}
            notes.append("C10 repr modes: extraction failed (%s)" % type(e).__name__)
        mvals = dict(mdflt)
        mvals.update(mgot)
        self._extracted_modes = mgot
        mmissing = sorted(set(mdflt) - set(mgot))

        def q(x):
            return '"%s"' % x.replace("\\", "\\\\").replace('"', '\\"')

        def chain_fn(chain):
            out = ""
            for c, act in chain[:-1]:
                out += "if tipe == %s then %s else " % (q(c), q(act))
            return out + q(chain[-1][1])
        mbody = ("-- GENERATED by harness/props/c10.py from coba/environments/filters.py and coba/pipes/rows.py on every run; do not edit.\n"
                 "namespace Coba.Generated.C10\n"
                 "def reprContextModes : List String := %s\n"
                 "def reprActionModes : List String := %s\n"
                 "def encodeModes : List String := %s\n"
                 "def valuesBranch (tipe : String) : String := %s\n"
                 "def collBranch (tipe : String) : String := %s\n"
                 "def reprModesExtracted : Bool := %s\n"
                 "end Coba.Generated.C10\n"
                 % (lstr(mvals["repr_context"]), lstr(mvals["repr_actions"]), lstr(mvals["encode_modes"]), chain_fn(mvals["values_chain"]),
                    chain_fn(mvals["coll_chain"]), "true" if not mmissing else "false"))
        mpath = os.path.join(lean.LEAN_DIR, "CobaVerif", "Generated", "C10ReprModes.lean")
        mold = open(mpath, encoding="utf-8").read() if os.path.exists(mpath) else None
        if mold != mbody:
            with open(mpath, "w", encoding="utf-8") as f:
                f.write(mbody)
        notes.append("C10 repr modes / dispatch extracted from filters.py + pipes/rows.py: %s%s"
                     % (json.dumps(mgot, sort_keys=True), "; NOT found (model's own table used): %s" % mmissing if mmissing else ""))
        # --- phase 6: option handling (defaults, method names, method dispatch, what the shortcuts hand on) -> Generated/C10Options.lean
        #     (obligations: option_defaults_match_source, method_dispatch_matches_source)
        odflt = {"sparsify_init": [True, False], "densify_init_flags": [True, False], "densify_n": 400, "densify_m": "lookup",
                 "method_names": ["lookup", "hashing"], "method_branch": ["lookup", "lookup", "hashing"], "repr_init": ["None", "None"],
                 "cycle_after": 0, "env_sparse": [True, False], "env_dense_flags": [True, False],
                 "env_dense_passes": ["n_feats=n_feats", "method=method", "context=context", "action=action"],
                 "env_sparse_passes": ["context", "action"], "env_repr": ["onehot", "onehot"], "env_repr_passes": ["cat_context", "cat_actions"]}
        try:
            ogot = extract_options(repo)
        except Exception as e:
            ogot = {}
            notes.append("C10 options: extraction failed (%s)" % type(e).__name__)
        ovals = dict(odflt)
        ovals.update(ogot)
        self._extracted_options = ogot
        omissing = sorted(set(odflt) - set(ogot))

        def lbool(xs):
            return "[" + ", ".join("true" if x else "false" for x in xs) + "]"
        mb = ovals["method_branch"]
        obody = ("-- GENERATED by harness/props/c10.py from coba/environments/filters.py and coba/environments/core.py on every run; do not edit.\n"
                 "namespace Coba.Generated.C10\n"
                 "def sparsifyInitDefaults : List Bool := %s\n"
                 "def densifyInitFlagDefaults : List Bool := %s\n"
                 "def densifyInitN : Nat := %d\n"
                 "def densifyInitMethod : String := %s\n"
                 "def densifyMethodNames : List String := %s\n"
                 "def densifyBranch (m : String) : String := if m == %s then %s else %s\n"
                 "def reprInitDefaults : List String := %s\n"
                 "def cycleInitAfter : Nat := %d\n"
                 "def envSparseDefaults : List Bool := %s\n"
                 "def envDenseFlagDefaults : List Bool := %s\n"
                 "def envDensePasses : List String := %s\n"
                 "def envSparsePasses : List String := %s\n"
                 "def envReprDefaults : List String := %s\n"
                 "def envReprPasses : List String := %s\n"
                 "def optionsExtracted : Bool := %s\n"
                 "end Coba.Generated.C10\n"
                 % (lbool(ovals["sparsify_init"]), lbool(ovals["densify_init_flags"]), ovals["densify_n"], q(ovals["densify_m"]),
                    lstr(ovals["method_names"]), q(mb[0]), q(mb[1]), q(mb[2]), lstr(ovals["repr_init"]), ovals["cycle_after"],
                    lbool(ovals["env_sparse"]), lbool(ovals["env_dense_flags"]), lstr(ovals["env_dense_passes"]), lstr(ovals["env_sparse_passes"]),
                    lstr(ovals["env_repr"]), lstr(ovals["env_repr_passes"]), "true" if not omissing else "false"))
        opath = os.path.join(lean.LEAN_DIR, "CobaVerif", "Generated", "C10Options.lean")
        oold = open(opath, encoding="utf-8").read() if os.path.exists(opath) else None
        if oold != obody:
            with open(opath, "w", encoding="utf-8") as f:
                f.write(obody)
        notes.append("C10 options (constructor defaults, Densify method names / dispatch, arguments the shortcuts hand on) extracted from filters.py + core.py: %s%s"
                     % (json.dumps(ogot, sort_keys=True), "; NOT found (model's own value used): %s" % omissing if omissing else ""))
        return notes

    def generate(self, rng, tier):
        return Gen(rng).case(tier)

    def search(self, rng, tier):
        g = Gen(rng)
        if rng.chance(0.08):
            return g.noise_scalar_case()
        if rng.chance(0.12):
            return g.aborted_densify_case() if rng.chance(0.5) else g.hetero_logged_case()
        if rng.chance(0.08):
            return g.defaults_case(tier)
        if rng.chance(0.08):
            return g.recurring_label_case()
        if rng.chance(0.3):
            return g.indicator_collection(None, None) if rng.chance(0.35) else g.layout_collection() if rng.chance(0.5) else g.long_repr_case() if rng.chance(0.5) else g.case(tier)
        focus = rng.choice([
            lambda g: {"f": "repr", "cc": g.r.choice(MODES), "ca": g.r.choice(MODES[1:])},
            lambda g: {"f": "sparsify", "c": g.r.chance(0.5), "a": True},
            lambda g: {"f": "densify", "n": g.r.choice([2, 8, 400]), "m": g.r.choice(["lookup", "hashing"]), "c": g.r.chance(0.5), "a": True},
            lambda g: {"f": "flatten"},
            lambda g: {"f": "noise", "c": None, "a": {"kind": "fn", "mul": 1, "add": g.r.choice([1, 10])}, "seed": 1},
            lambda g: {"f": "finalize"},
        ])
        return g.case(tier, focus)

    def exhaustive(self, tier):
        """every single filter (all parameter choices) and a few two-filter chains on a fixed family of action sets x reward kinds x interaction kinds"""
        A, B, Cc = ({"c": x, "L": ["a", "b", "c"]} for x in "abc")
        n = V_n
        t = lambda *xs: {"t": list(xs)}
        l = lambda *xs: {"l": list(xs)}
        d = lambda **kw: {"d": [[k, v] for k, v in kw.items()]}
        sets = [
            ("num", [n(1), n(2), n(4)]),
            ("str", [{"s": "a"}, {"s": "b"}, {"s": "action"}]),
            ("cat", [B, A, Cc]),
            ("tuple", [t(A, n(1)), t(B, n(1)), t(B, n(0))]),
            ("list", [l(n(1), B, {"s": "x"}), l(n(2), B, {"s": "x"}), l(n(1), Cc, {"s": "y"})]),
            ("nested", [t(n(1), t(n(2), A)), t(n(1), t(n(3), A)), t(n(4), t(n(2), B))]),
            ("sparse", [d(x=A, y=n(1)), d(x=B, y=n(1)), d(x=B, y=n(2), z={"s": "w"})]),
            ("sparse-nested", [d(k=t(n(1), n(2))), d(k=t(n(1), n(3)), y=n(1)), d(k=t(n(2), n(2)), y=n(5))]),
            ("multi", [l(n(1), n(2)), l(n(3)), l(n(2), n(3), n(4))]),
        ]
        steps = [{"f": "repr", "cc": cc, "ca": ca} for cc in MODES for ca in MODES]
        steps += [{"f": "flatten"}, {"f": "finalize"}, {"f": "batch", "n": 2}]
        steps += [{"f": "sparsify", "c": c, "a": a} for c in (False, True) for a in (False, True)]
        steps += [{"f": "densify", "n": nf, "m": m, "c": c, "a": True} for nf in (3, 400) for m in ("lookup", "hashing") for c in (False, True)]
        steps += [{"f": "noise", "c": c, "a": {"kind": "fn", "mul": 2, "add": 1}, "seed": 1} for c in (None, {"kind": "i", "lo": 1, "hi": 3})]
        steps += [{"f": "noise", "c": None, "a": {"kind": "i", "lo": 1000, "hi": 1000000}, "seed": 3}]
        chains = [[st] for st in steps]
        chains += [[{"f": "sparsify", "c": True, "a": True}, {"f": "densify", "n": 16, "m": "lookup", "c": True, "a": True}],
                   [{"f": "repr", "cc": "onehot", "ca": "onehot_tuple"}, {"f": "flatten"}],
                   [{"f": "flatten"}, {"f": "repr", "cc": "string", "ca": "onehot"}, {"f": "sparsify", "c": False, "a": True}],
                   [{"f": "batch", "n": 2}, {"f": "repr", "cc": "onehot", "ca": "onehot"}, {"f": "unbatch"}],
                   [{"f": "cycle", "after": 0}], [{"f": "cycle", "after": 1}],
                   [{"f": "repr", "cc": None, "ca": "onehot"}, {"f": "cycle", "after": 0}], [{"f": "cycle", "after": 0}, {"f": "finalize"}],
                   [{"f": "batch", "n": 2}, {"f": "finalize"}, {"f": "unbatch"}],
                   [{"f": "noise", "c": None, "a": {"kind": "fn", "mul": 1, "add": 3}, "seed": 1}, {"f": "sparsify", "c": True, "a": True}, {"f": "finalize"}]]
        vals = [[3, 1], [5, 2], [-1, 1]]
        for name, acts in sets:
            rewards = [{"k": "list", "v": vals},
                       {"k": "binary", "argmax": acts[1], "value": [1, 1]},
                       {"k": "discrete", "actions": acts, "values": vals, "default": [0, 1], "dict": False},
                       {"k": "discrete", "actions": [acts[2], acts[0], acts[1]], "values": [vals[2], vals[0], vals[1]], "default": [0, 1], "dict": False},
                       {"k": "fn", "table": [[a, v] for a, v in zip(acts, vals)], "default": FN_DEFAULT}]
            if name == "num":
                rewards.append({"k": "l1", "argmax": [2, 1]})
            if name == "multi":
                rewards.append({"k": "hamming", "argmax": [n(2), n(3)]})
            second = [acts[1], acts[0]]
            for ch in chains:
                for rw in rewards:
                    it = {"context": acts[0], "actions": acts, "rewards": rw}
                    it2 = {"context": acts[1], "actions": second, "rewards": {"k": "list", "v": vals[:2]} if rw["k"] == "list" else
                           {"k": "fn", "table": [[second[0], [7, 1]], [second[1], [8, 1]]], "default": FN_DEFAULT}}
                    yield {"stream": [it, it2], "chain": ch, "via": "filters"}
                    igl = dict(it, feedbacks=rewards[-1] if rw["k"] == "list" else rewards[0])
                    yield {"stream": [igl, _copy(igl)], "chain": ch, "via": "filters"}
                lg = {"context": None, "action": acts[2], "reward": [1, 2], "probability": [1, 4], "actions": acts}
                yield {"stream": [lg, dict(_copy(lg), action=acts[0])], "chain": ch, "via": "filters"}
                yield {"stream": [dict(lg, actions=[acts[2], acts[1]])], "chain": ch, "via": "shortcuts"}

    def corpus(self):
        cs = [dict(_copy(c), via="filters") for c in WITNESSES.values()]
        # round i (im1): the same argmax label recurs later in the stream under permuted / extended level lists (a per-stream memo keyed by the old
        # argmax would hand the repeat the earlier interaction's one-hot): Repr and Finalize, onehot and onehot_tuple, rewards and IGL feedbacks
        L1, L2, L3 = ["a", "b", "c"], ["c", "a", "b"], ["b", "d", "a", "c"]
        K = lambda labels, lv: [{"c": l, "L": list(lv)} for l in labels]
        BR = lambda l, lv, v=1: {"k": "binary", "argmax": {"c": l, "L": list(lv)}, "value": [v, 1]}
        rows = [(["a", "b", "c"], L1, "a", 1), (["a", "b", "c"], L1, "b", 1), (["c", "a", "b"], L2, "a", 1), (["c", "b"], L2, "b", 2),
                (["d", "a", "b"], L3, "a", 1), (["a", "b", "c"], L1, "b", 3)]
        for layout in ("rewards", "feedbacks", "logged"):
            st_ = []
            for t, (labels, lv, arg, v) in enumerate(rows):
                it = {"context": V_n(t + 1), "actions": K(labels, lv)}
                if layout == "feedbacks":
                    it["rewards"] = {"k": "list", "v": [[i, 1] for i in range(len(labels))]}
                    it["feedbacks"] = BR(arg, lv, v)
                else:
                    it["rewards"] = BR(arg, lv, v)
                if layout == "logged":
                    it.update({"action": K(labels, lv)[-1], "reward": [1, 2], "probability": [1, 3]})
                st_.append(it)
            for ch in ([{"f": "repr", "cc": None, "ca": "onehot"}], [{"f": "repr", "cc": "onehot", "ca": "onehot"}], [{"f": "repr", "cc": None, "ca": "onehot_tuple"}],
                       [{"f": "repr", "cc": "onehot_tuple", "ca": "onehot_tuple"}], [{"f": "repr", "cc": None, "ca": "string"}], [{"f": "finalize"}]):
                for via in ("filters", "pipes", "shortcuts"):
                    for n_ in (6, 3):
                        c_ = {"stream": _copy(st_[:n_] if n_ == 6 else st_[:1] + st_[2:4]), "chain": _copy(ch), "via": via}
                        cs.append(c_)
                        if via == "filters":
                            cs.append(dict(_copy(c_), delivery="lazy"))
        # phase 6: constructor calls with arguments left out, pinned: sparse / scalar / categorical action sets with a functional reward, IGL
        # feedbacks and a logged member, through every constructor (class, Pipes.join, shortcut) with every subset of its arguments left out
        N = lambda i: {"n": [i, 1]}
        D = lambda *kv: {"d": [[k, N(v)] for k, v in kv]}
        C = lambda x: {"c": x, "L": ["a", "b", "c"]}
        fn = lambda acts, vals: {"k": "fn", "table": [[a, [v, 1]] for a, v in zip(acts, vals)], "default": FN_DEFAULT}
        sets = {"sparse": [D(("a", 1)), D(("b", 2), ("c", 3)), D(("a", 2), ("c", 1))], "num": [N(1), N(2), N(3)], "cat": [C("b"), C("a"), C("c")]}
        ctx = {"sparse": D(("x", 5)), "num": {"t": [N(4), N(0), N(6)]}, "cat": {"t": [N(1), C("c")]}}
        for nm, acts in sets.items():
            streams = [
                [{"context": ctx[nm], "actions": acts, "rewards": fn(acts, [3, 1, 2])}, {"context": ctx[nm], "actions": acts[::-1], "rewards": fn(acts, [5, 4, 6])}],
                [{"context": ctx[nm], "actions": acts, "rewards": {"k": "list", "v": [[1, 1], [0, 1], [2, 1]]}, "feedbacks": fn(acts, [7, 8, 9])}],
                [{"context": ctx[nm], "actions": acts, "action": acts[2], "reward": [1, 2], "probability": [1, 3], "rewards": fn(acts, [3, 1, 2])}],
            ]
            steps = [{"f": "sparsify", "c": True, "a": True}, {"f": "densify", "n": 5, "m": "hashing", "c": False, "a": True},
                     {"f": "repr", "cc": "string", "ca": "onehot_tuple"}]
            for st0 in steps:
                keys = sorted(FILTER_DEFAULTS[st0["f"]])
                subsets = [keys] + [[k] for k in keys] + ([[k for k in keys if k != "a"]] if "a" in keys else [])
                for om in subsets:
                    for via in ("filters", "pipes", "shortcuts"):
                        for stream in streams:
                            for tail in ([], [{"f": "finalize"}]) if via == "filters" and om == keys else ([],):
                                cs.append(resolve_defaults({"stream": _copy(stream), "chain": [dict(st0, omit=list(om))] + tail, "via": via}))
        # round g (1): Flatten on logged interactions whose members nest differently, logged member at index 0 / 1, the first logged action nested
        # differently from the first member of the first action set
        def T(*xs):
            return {"t": [x if isinstance(x, dict) else V_n(x) for x in xs]}
        mixed = [[T(1, T(2, 3)), T(T(4), T(5, 6))], [T(T(7), T(8, 9)), T(1, T(2, 3))], [T(1, T(2, 3)), T(T(4), T(5, 6))]]
        for logged in ([1, 0, 1], [1, 0, 0], [1, 1, 0]):
            for rk in ("none", "list", "discrete", "fn"):
                for ch, via in (([{"f": "flatten"}], "filters"), ([{"f": "flatten"}, {"f": "finalize"}], "filters"), ([{"f": "flatten"}], "shortcuts")):
                    st_ = []
                    for acts, j in zip(mixed, logged):
                        vals = [[1, 4], [1, 2]]
                        it = {"context": T(1, T(2, 3)), "actions": acts, "action": acts[j], "reward": vals[j], "probability": [1, 4]}
                        if rk == "list":
                            it["rewards"] = {"k": "list", "v": vals}
                        elif rk == "discrete":
                            it["rewards"] = {"k": "discrete", "actions": acts, "values": vals, "default": [0, 1], "dict": False}
                        elif rk == "fn":
                            it["rewards"] = {"k": "fn", "table": [[a, v] for a, v in zip(acts, vals)], "default": FN_DEFAULT}
                        st_.append(it)
                    cs.append({"stream": st_, "chain": ch, "via": via})
        # round g (2): one Densify(lookup) object, first read aborted after the first interaction (features a,b handed out), then the complete re-read
        # (a,b,c,d on 4 slots: crosses the permutation boundary of the slot generator)
        F4 = ["a", "b", "c", "d"]
        for rk in ("discrete", "binary", "fn"):
            for via in ("filters", "pipes", "shortcuts"):
                for k in (1, 2):
                    st_ = []
                    for fs in (F4[:2], F4, F4, F4[1:]):
                        acts = [{"d": [[f, V_n(1)]]} for f in fs]
                        vals = [[1 + F4.index(f), 4] for f in fs]
                        R = ({"k": "discrete", "actions": acts, "values": vals, "default": [0, 1], "dict": False} if rk == "discrete" else
                             {"k": "binary", "argmax": acts[-1], "value": [2, 1]} if rk == "binary" else
                             {"k": "fn", "table": [[a, v] for a, v in zip(acts, vals)], "default": FN_DEFAULT})
                        st_.append({"context": None, "actions": acts, "rewards": R})
                    cs.append({"stream": st_, "chain": [{"f": "densify", "n": 4, "m": "lookup", "c": False, "a": True}], "via": via, "abort": k})
                    # phase 6: the same history with the first read ABANDONED by its consumer after k items, and with a third read (`more`)
                    cs.append({"stream": _copy(st_), "chain": [{"f": "densify", "n": 4, "m": "lookup", "c": False, "a": True}], "via": via, "abort": k,
                               "abort_kind": "abandon"})
                    if via != "shortcuts":
                        cs.append({"stream": _copy(st_), "chain": [{"f": "densify", "n": 4, "m": "lookup", "c": False, "a": True}], "via": via, "abort": k,
                                   "abort_kind": "abandon", "more": [_copy(st_[1:3])]})
        # densify_hashing_counterexample on the real code: crc32('a') % 7 == crc32('b') % 7 == 4 (a collision by design: excused in (B), compared in (A))
        ha, hb = {"d": [["a", V_n(1)]]}, {"d": [["b", V_n(1)]]}
        cs.append({"stream": [{"context": None, "actions": [ha, hb], "rewards": {"k": "fn", "table": [[ha, [5, 1]], [hb, [6, 1]]], "default": FN_DEFAULT}}],
                   "chain": [{"f": "densify", "n": 7, "m": "hashing", "c": False, "a": True}], "via": "filters"})
        # BinaryReward re-keyed to one-hot argmaxes of every length incl. 2 (value 1 and another value), tuple / list argmaxes of length 1-4:
        # the re-represented interactions are copied (pickle, deepcopy) and must keep the pairing
        for nlev in (1, 2, 3, 4):
            L = LEVELS[:nlev]
            cats = [{"c": x, "L": L} for x in L]
            for val in ([1, 1], [3, 1]):
                for ch in ([{"f": "repr", "cc": None, "ca": "onehot"}], [{"f": "repr", "cc": None, "ca": "onehot_tuple"}], [{"f": "finalize"}],
                           [{"f": "repr", "cc": None, "ca": "onehot"}, {"f": "sparsify", "c": False, "a": True}]):
                    cs.append({"stream": [{"context": None, "actions": cats, "rewards": {"k": "binary", "argmax": cats[-1], "value": val},
                                           "feedbacks": {"k": "binary", "argmax": cats[0], "value": val}}], "chain": ch, "via": "filters"})
            for kind in ("t", "l"):
                rows = [{kind: [V_n(i + j) for j in range(nlev)]} for i in range(2)]
                cs.append({"stream": [{"context": None, "actions": rows, "rewards": {"k": "binary", "argmax": rows[1], "value": [1, 1]}}],
                           "chain": [{"f": "flatten"}, {"f": "finalize"}], "via": "filters"})
        # one Environments object with a simulated, an IGL and a logged member (different layouts), every shortcut, both reading orders
        cA, cB, cC = ({"c": x, "L": ["a", "b", "c"]} for x in "abc")
        acts3 = [cA, cB, cC]
        m_sim = [{"context": cA, "actions": acts3, "rewards": {"k": "list", "v": [[1, 1], [2, 1], [3, 1]]}} for _ in range(2)]
        m_igl = [{"context": None, "actions": acts3, "rewards": {"k": "list", "v": [[1, 1], [2, 1], [3, 1]]},
                  "feedbacks": {"k": "fn", "table": [[cA, [0, 1]], [cB, [0, 1]], [cC, [2, 1]]], "default": FN_DEFAULT}} for _ in range(2)]
        m_log = [{"context": cB, "actions": acts3, "action": cC, "reward": [1, 2], "probability": [1, 4]} for _ in range(2)]
        m_fn = [{"context": None, "actions": acts3, "rewards": {"k": "binary", "argmax": cB, "value": [1, 1]}} for _ in range(2)]
        for st in ({"f": "repr", "cc": "onehot", "ca": "onehot"}, {"f": "repr", "cc": None, "ca": "onehot_tuple"}, {"f": "repr", "cc": "string", "ca": "string"},
                   {"f": "flatten"}, {"f": "sparsify", "c": True, "a": True}, {"f": "densify", "n": 8, "m": "lookup", "c": True, "a": True},
                   {"f": "noise", "c": None, "a": {"kind": "fn", "mul": 1, "add": 1}, "seed": 1}, {"f": "cycle", "after": 0}, {"f": "finalize"}):
            for order in ([0, 1, 2, 3], [3, 2, 1, 0], [1, 0, 2, 1]):
                cs.append({"stream": _copy(m_sim), "more": [_copy(m_igl), _copy(m_log), _copy(m_fn)], "chain": [st], "via": "shortcuts",
                           "collection": True, "read_order": order})
        # batched pipelines whose batched reward / feedback functions are exercised through the call protocol
        A2, B2 = ({"c": x, "L": ["a", "b"]} for x in "ab")
        for ch in ([{"f": "batch", "n": 2}], [{"f": "batch", "n": 2}, {"f": "repr", "cc": None, "ca": "onehot"}], [{"f": "batch", "n": 3}, {"f": "sparsify", "c": False, "a": True}],
                   [{"f": "batch", "n": 2}, {"f": "finalize"}], [{"f": "repr", "cc": "string", "ca": "onehot_tuple"}, {"f": "batch", "n": 2}, {"f": "flatten"}]):
            st = []
            for t in range(3):
                acts = [A2, B2] if t % 2 == 0 else [B2, A2]
                st.append({"context": V_n(t), "actions": acts, "rewards": {"k": "fn", "table": [[acts[0], [t, 1]], [acts[1], [t + 10, 1]]], "default": FN_DEFAULT},
                           "feedbacks": {"k": "binary", "argmax": acts[t % 2], "value": [1, 1]}})
            cs.append({"stream": st, "chain": ch, "via": "filters"})
        try:
            with open(os.path.join(os.path.dirname(os.path.dirname(os.path.dirname(os.path.abspath(__file__)))), "known", "C10.json"), encoding="utf-8") as f:
                cs += [k["case"] for k in json.load(f).get("findings", []) if k.get("case")]
        except OSError:
            pass
        A, B, Cc = ({"c": x, "L": ["a", "b", "c"]} for x in "abc")
        t = lambda *xs: {"t": list(xs)}
        d = lambda **kw: {"d": [[k, v] for k, v in kw.items()]}
        n = V_n
        sim = lambda acts, rw, **kw: dict({"context": None, "actions": acts, "rewards": rw}, **kw)
        bin_ = lambda a, v=1: {"k": "binary", "argmax": a, "value": [v, 1]}
        fn = lambda acts, vals: {"k": "fn", "table": [[a, [v, 1]] for a, v in zip(acts, vals)], "default": FN_DEFAULT}
        disc = lambda acts, vals: {"k": "discrete", "actions": acts, "values": [[v, 1] for v in vals], "default": [0, 1], "dict": False}
        for ca in MODES[1:]:
            for cc in MODES:
                cs.append({"stream": [sim([A, B, Cc], bin_(B)), sim([A, B, Cc], fn([A, B, Cc], [3, 4, 5]))], "chain": [{"f": "repr", "cc": cc, "ca": ca}], "via": "filters"})
                cs.append({"stream": [dict(context=t(A, n(1)), action=t(B, n(2)), reward=[1, 2], probability=[1, 4], actions=[t(A, n(1)), t(B, n(2))])],
                           "chain": [{"f": "repr", "cc": cc, "ca": ca}], "via": "filters"})
        acts = [t(A, n(1)), t(B, n(1)), t(B, n(2))]
        cs.append({"stream": [sim(acts, bin_(acts[1])), sim(acts[:2], disc(acts[:2], [7, 8]))], "chain": [{"f": "repr", "cc": "onehot", "ca": "onehot"}, {"f": "sparsify", "c": True, "a": True}], "via": "filters"})
        sp = [d(x=A, y=n(1)), d(x=B), d(x=Cc, y=n(0))]
        for ch in ([{"f": "repr", "cc": None, "ca": "onehot"}], [{"f": "densify", "n": 4, "m": "lookup", "c": True, "a": True}], [{"f": "densify", "n": 400, "m": "hashing", "c": False, "a": True}],
                   [{"f": "flatten"}], [{"f": "finalize"}], [{"f": "batch", "n": 2}], [{"f": "batch", "n": 2}, {"f": "finalize"}, {"f": "unbatch"}]):
            cs.append({"stream": [sim(sp, fn(sp, [1, 2, 3])), sim(sp[:2], bin_(sp[1], 5)), sim(sp[1:], disc(sp[1:], [4, 6]))], "chain": ch, "via": "filters"})
            cs.append({"stream": [sim(sp, {"k": "list", "v": [[1, 1], [2, 1], [3, 1]]}, feedbacks=fn(sp, [7, 8, 9]))], "chain": ch, "via": "shortcuts"})
        nest = [t(n(1), t(n(2), n(3))), t(n(4), t(n(5), n(6)))]
        cs.append({"stream": [sim(nest, bin_(nest[1]))], "chain": [{"f": "flatten"}, {"f": "sparsify", "c": True, "a": True}, {"f": "densify", "n": 8, "m": "lookup", "c": True, "a": True}, {"f": "finalize"}], "via": "pipes"})
        nums = [n(1), n(2), n(3)]
        cs.append({"stream": [sim(nums, {"k": "l1", "argmax": [2, 1]})], "chain": [{"f": "noise", "c": None, "a": {"kind": "i", "lo": 10, "hi": 10}, "seed": 1}, {"f": "sparsify", "c": False, "a": True}], "via": "filters"})
        ml = [{"l": [n(1), n(2)]}, {"l": [n(3)]}, {"l": [n(2), n(3), n(4)]}]
        cs.append({"stream": [sim(ml, {"k": "hamming", "argmax": [n(2), n(3)]})], "chain": [{"f": "sparsify", "c": False, "a": True}, {"f": "finalize"}], "via": "filters"})
        return cs

    # ---- evaluation
    def evaluate(self, case, driver):
        import warnings
        with warnings.catch_warnings():
            warnings.simplefilter("ignore")
            return self._evaluate(case, driver)

    def _evaluate(self, case, driver):
        fails, tags = [], []
        case = resolve_defaults(case)
        chain = effective_chain(case)
        for st in chain:
            if st.get("omit"):
                tags.append("omit:%s:%s" % (st["f"], st["ctor"]))
                tags.append("omit:%s(%s)" % (st["f"], ",".join(sorted(st["omit"]))))
        lazy = case.get("delivery") == "lazy"
        tags.append("via:" + case.get("via", "filters"))
        tags.append("delivery:" + ("lazy" if lazy else "list"))
        if case.get("wrap"):
            tags.append("wrap:" + case["wrap"])
        if case.get("more"):
            tags.append("reuse:%d" % (1 + len(case["more"])))
        if any("order" in it for it in case["stream"]):
            tags.append("key-order-permuted")
        if first_kinds(case["stream"][0]) > 1:
            tags.append("actions:mixed-kinds")
        tags.append("len:%d" % len(case["chain"]))
        tags.append("stream:%s" % ("1-3" if len(case["stream"]) <= 3 else "4-19" if len(case["stream"]) < 20 else "20+"))
        first = case["stream"][0]
        tags.append("kind:" + ("logged" if "action" in first else "igl" if "feedbacks" in first else "sim"))
        if "rewards" in first:
            tags.append("rewards:" + first["rewards"]["k"] + ("-dict" if first["rewards"].get("dict") else ""))
        if "feedbacks" in first:
            tags.append("feedbacks:" + first["feedbacks"]["k"])
        if first.get("actions"):
            a0 = first["actions"][0]
            tags.append("actions:" + ("none" if a0 is None else {"n": "num", "s": "str", "c": "cat", "l": "list", "t": "tuple", "d": "sparse"}[sorted(a0.keys())[0] if "c" not in a0 else "c"]))
        for st in chain:
            tags.append("step:" + st["f"] + (":" + str(st["ca"]) if st["f"] == "repr" else ""))

        if driver is not None:
            self.check_values(case, fails, tags, driver)
        # the filter objects are built once; every sequence of the case goes through the same objects, one after the other
        pipe_err = None
        try:
            pipe = Pipeline(case)
        except Exception as e:
            pipe, pipe_err = None, type(e).__name__
        stepw = Stepwise(case)
        prior = {}             # step index -> keys a Densify(lookup) step was asked for in earlier sequences (None = unknown)
        results, nontrivial = [], False
        seqs = sequences(case)
        collection = bool(case.get("collection")) and case.get("via") == "shortcuts"
        order = [m for m in (case.get("read_order") or range(len(seqs))) if 0 <= m < len(seqs)] if collection else list(range(len(seqs)))
        if collection:
            tags.append("collection:%d" % len(seqs))
        if case.get("abort") is not None and not collection:
            # round g: an aborted first read of `stream` on the SAME filter objects (pipeline objects and step-wise objects alike); nothing of it
            # is judged, but what it leaves behind in the objects is part of the history of every later read.
            # phase 6: "abort_kind": "abandon" = the CONSUMER stops after k items and closes the iterator (GeneratorExit instead of an exception of
            # the source); the history entry is the items the source really handed out
            k = int(case["abort"])
            abandon = case.get("abort_kind") == "abandon"
            tags.append("abandoned-read" if abandon else "aborted-read")
            outcome, delivered = [], []
            if pipe is not None:
                try:
                    if abandon:
                        src, cnt = counting_source(case, case["stream"])
                        abandon_after(pipe.run(src, 0), k)
                        delivered.append(cnt[0])
                    else:
                        for _ in pipe.run(aborting_source(case, case["stream"], k), 0):
                            pass
                    outcome.append(None)
                except Exception as e:
                    outcome.append(type(e).__name__)
            if stepw.filters:
                try:
                    if abandon:
                        src, cnt = counting_source(case, case["stream"])
                        abandon_after(iter(stepw.filters[0].filter(src())), k)
                        delivered.append(cnt[0])
                    else:
                        for _ in stepw.filters[0].filter(aborting_source(case, case["stream"], k)()):
                            pass
                    outcome.append(None)
                except Exception as e:
                    outcome.append(type(e).__name__)
            if abandon:
                clean = all(o is None for o in outcome) and len(set(delivered)) == 1 and len(delivered) == len(outcome)
                kk = delivered[0] if clean else None
                tags.append("abandoned-read:" + ("clean" if clean else "other"))
            else:
                clean = all(o == "ConnectionError" for o in outcome)
                kk = k
                tags.append("aborted-read:" + ("at-item" if clean else "other"))
            for i, st in enumerate(chain):
                if st["f"] == "densify" and st["m"] == "lookup":
                    if i == 0 and clean and 0 <= kk <= len(case["stream"]):
                        seen = members([mk_inter(it, case.get("wrap")) for it in case["stream"][:kk]])[0]
                        prior[i] = densify_keys(st, seen)
                        prior[("hist", i)] = [enc_model_stream(seen)]      # the history itself, folded by the model's runObjHistory
                    else:
                        prior[i] = None
        for si, mi in enumerate(order):
            seq = seqs[mi]
            if collection:
                # the members of one Environments object: each must come out as a fresh pipeline on that member alone gives it
                where = "member %d of the collection (read #%d): " % (mi, si + 1)
                stepw, prior = Stepwise(case), {}
            else:
                where = "" if si == 0 else "sequence %d (same filter objects): " % (si + 1)
            r = self.eval_sequence(case, seq, mi if collection else 0, where, pipe, pipe_err, stepw, chain, lazy, fails, tags)
            nontrivial = nontrivial or r["nontrivial"]
            model = None
            if driver is not None:
                model = self.correspond(case, seq, chain, r["steps"], r["impl"], prior, where, fails, tags, driver)
            if driver is not None:
                self.check_tables(chain, r["steps"], stepw, prior, where, fails, tags, driver)
                for st_, before_, after_ in r["steps"]:
                    self.check_shapes(st_, before_, after_, where, fails, tags, driver)
            for i, st in enumerate(chain):
                if st["f"] == "densify" and st["m"] == "lookup" and prior.get(i, []) is not None:
                    if i < len(r["steps"]) and not r["impl"]["error"]:
                        prior[i] = prior.get(i, []) + densify_keys(st, r["steps"][i][1])
                        prior[("hist", i)] = prior.get(("hist", i), []) + [enc_model_stream(r["steps"][i][1])]
                    else:
                        prior[i] = None
            results.append({"impl": r["impl"], "model": model})
        out = {"fails": fails, "nontrivial": bool(nontrivial), "tags": tags, "impl": results[0]["impl"], "model": results[0]["model"]}
        if len(results) > 1:
            out["more"] = results[1:]
        return out

    def check_values(self, case, fails, tags, driver):
        """(A) for Python `==` itself: the model's pyEq on the actions (and context) of the first interaction against `==` on the real
        objects, in both directions; the model's reflexivity / symmetry lemmas are about exactly this relation"""
        first = case["stream"][0]
        rows = list(first.get("actions") or [])[:5] + ([first["context"]] if first.get("context") is not None else [])
        if "rewards" in first and first["rewards"]["k"] == "binary":
            rows.append(first["rewards"]["argmax"])
        if not rows:
            return
        try:
            ans = driver.ask({"op": "values", "rows": rows})
        except Exception as e:
            tags.append("skipA:values:" + type(e).__name__)
            return
        objs = [wrap_sparse(mk(v), case.get("wrap")) for v in rows]
        tags.append("pyEq-checked")
        for i, a in enumerate(objs):
            for j, b in enumerate(objs):
                if py_eq(a, b) != ans["eq"][i][j]:
                    fails.append(F("A", "Python `==` on %s and %s is %s, the model's pyEq says %s" % (json.dumps(rows[i])[:150], json.dumps(rows[j])[:150], py_eq(a, b), ans["eq"][i][j]), "A:pyEq"))
            if ans["wf"][i] and not ans["eq"][i][i]:
                fails.append(F("C", "pyEq_refl: well-formed value %s is not equal to itself in the model" % json.dumps(rows[i])[:150], "C:pyEq-refl"))
        if ans.get("isNum") is not None:
            for i, a in enumerate(objs):
                real_num = isinstance(a, (int, float)) and not isinstance(a, bool)
                if real_num != ans["isNum"][i]:
                    fails.append(F("A", "is %s a number: Python %s, model isNum %s" % (json.dumps(rows[i])[:150], real_num, ans["isNum"][i]), "A:isNum"))
            n_ = len(rows)
            if (lambda l: l[-1 % n_:] + l[:-1 % n_])(list(range(n_))) != ans["cycleSource"]:
                fails.append(F("A", "rotation l[-1%%n:]+l[:-1%%n] of range(%d): model cycleSource %s" % (n_, ans["cycleSource"]), "A:cycleSource"))
            if [i >= 1 for i in range(3)] != ans["cycleRotatesAt"]:
                fails.append(F("A", "i >= after for after=1: model cycleRotatesAt %s" % ans["cycleRotatesAt"], "A:cycleRotatesAt"))
            ext = getattr(PROPERTY, "_extracted", None)
            if ext:
                mc = ans["consts"]
                mine = {"finalize": mc["finalize"], "headers": mc["headers"], "seed": mc["seed"], "shifts": [mc["shift"], mc["shift"]]}
                for key in mine:
                    if key in ext and ext[key] != mine[key]:
                        fails.append(F("A", "constant `%s`: source %s, model %s" % (key, ext[key], mine[key]), "A:const:" + key))
                tags.append("consts-checked")
            if ans.get("modes") is not None:
                self.check_modes(ans["modes"], fails, tags)
            if ans.get("options") is not None:
                self.check_options(ans["options"], fails, tags)
            # transitivity of == (pyEq_trans) on the well-formed values of this case, against the model's own matrix
            for i in range(len(objs)):
                for j in range(len(objs)):
                    for k in range(len(objs)):
                        if ans["wf"][i] and ans["wf"][j] and ans["wf"][k] and ans["eq"][i][j] and ans["eq"][j][k] and not ans["eq"][i][k]:
                            fails.append(F("C", "pyEq_trans fails in the model on %s / %s / %s" % (json.dumps(rows[i])[:80], json.dumps(rows[j])[:80], json.dumps(rows[k])[:80]), "C:pyEq-trans"))
        real_ne = all(i == j or not py_eq(objs[i], objs[j]) for i in range(len(objs)) for j in range(len(objs)))
        if ans.get("pairwiseNe") is not None and ans["pairwiseNe"] != real_ne:
            fails.append(F("A", "pairwise `!=` of %s: Python %s, model pairwiseNeB %s" % (json.dumps(rows)[:200], real_ne, ans["pairwiseNe"]), "A:pairwiseNe"))
        if ans.get("pairwiseNe") and all(ans["wf"]) and not ans["distinct"]:
            fails.append(F("C", "distinct_of_pairwise_ne fails in the model on %s" % json.dumps(rows)[:200], "C:pairwise-ne"))
        for i in range(len(objs)):
            for j in range(len(objs)):
                if ans["denseOnly"][i] and ans["denseOnly"][j] and ans["eq"][i][j] != ans["eq"][j][i]:
                    fails.append(F("C", "pyEq_symm fails in the model on %s / %s" % (json.dumps(rows[i])[:100], json.dumps(rows[j])[:100]), "C:pyEq-symm"))
        self.check_value_variants(rows, fails, tags, driver)

    def check_options(self, mo, fails, tags):
        """(A) phase 6: the model's named constructor defaults and its method dispatch against (1) what the harness expects when it leaves an argument
        out, (2) inspect.signature of the REAL constructors / shortcuts, (3) the source extraction, (4) what a real Densify(method=name) does"""
        import inspect
        import coba.environments.filters as ef
        from coba.environments import Environments
        mine = {("filter", "sparsify"): dict(zip("ca", mo["sparsify"]["filter"])), ("env", "sparsify"): dict(zip("ca", mo["sparsify"]["env"])),
                ("filter", "densify"): dict(zip("ca", mo["densify"]["filter"]), n=mo["densify_n"], m=mo["densify_m"]),
                ("env", "densify"): dict(zip("ca", mo["densify"]["env"])),
                ("filter", "repr"): dict(zip(("cc", "ca"), [None if x == "None" else x for x in mo["repr"]["filter"]])),
                ("env", "repr"): dict(zip(("cc", "ca"), [None if x == "None" else x for x in mo["repr"]["env"]])),
                ("filter", "cycle"): {"after": mo["cycle_after"]}}
        real_fns = {("filter", "sparsify"): ef.Sparsify.__init__, ("filter", "densify"): ef.Densify.__init__, ("filter", "repr"): ef.Repr.__init__,
                    ("filter", "cycle"): ef.Cycle.__init__, ("env", "sparsify"): Environments.sparse, ("env", "densify"): Environments.dense,
                    ("env", "repr"): Environments.repr}
        for (ctor, f), vals in mine.items():
            exp = (ENV_DEFAULTS if ctor == "env" else FILTER_DEFAULTS)[f]
            if exp != vals:
                fails.append(F("A", "defaults of %s (%s constructor): harness expects %s, model %s" % (f, ctor, exp, vals), "A:option-default:%s:%s" % (ctor, f)))
            try:
                sig = inspect.signature(real_fns[(ctor, f)]).parameters
            except (TypeError, ValueError):
                continue
            kw = (ENV_KW if ctor == "env" else FILTER_KW)[f]
            real = {k: sig[kw[k]].default for k in vals if kw[k] in sig and sig[kw[k]].default is not inspect.Parameter.empty}
            if real != vals:
                fails.append(F("A", "defaults of %s (%s constructor): real signature %s, model %s" % (f, ctor, real, vals), "A:option-default:%s:%s" % (ctor, f)))
        ext = getattr(PROPERTY, "_extracted_options", None) or {}
        for key, val in (("sparsify_init", mo["sparsify"]["filter"]), ("env_sparse", mo["sparsify"]["env"]), ("densify_init_flags", mo["densify"]["filter"]),
                         ("env_dense_flags", mo["densify"]["env"]), ("densify_n", mo["densify_n"]), ("densify_m", mo["densify_m"]),
                         ("repr_init", mo["repr"]["filter"]), ("env_repr", mo["repr"]["env"]), ("cycle_after", mo["cycle_after"]),
                         ("method_names", [m for m, _ in mo["methods"][:2]])):
            if key in ext and ext[key] != val:
                fails.append(F("A", "option `%s`: source %s, model %s" % (key, ext[key], val), "A:option-source:" + key))
        # method dispatch: a real Densify(method=name) fills its look-up table exactly when the model says the name takes the look-up branch
        for name, br in mo["methods"]:
            try:
                flt = ef.Densify(n_feats=4, method=name, context=False, action=True)
                list(flt.filter([{"actions": [{"a": 1}, {"b": 2}], "rewards": [1, 2]}]))
                real = "lookup" if len(flt._lookup) else "hashing"
            except Exception as e:
                real = type(e).__name__
            if real != br:
                fails.append(F("A", "Densify(method=%r): real code takes the %s branch, model %s" % (name, real, br), "A:method-dispatch"))
        tags.append("options-checked")

    def check_modes(self, modes, fails, tags):
        """the model's mode table (name, branch for scalar categoricals, branch inside rows) against (1) the chains extracted from the source and
        (2) what the REAL EncodeCatRows does with a scalar categorical and with a list row holding one, per accepted mode name"""
        from coba.pipes.rows import EncodeCatRows
        from coba.primitives import Categorical
        em = getattr(PROPERTY, "_extracted_modes", None) or {}

        def run_chain(chain, name):
            for c, act in chain[:-1]:
                if c == name:
                    return act
            return chain[-1][1]
        names = [m[0] for m in modes]
        for key in ("repr_context", "repr_actions", "encode_modes"):
            if key in em and list(em[key]) != names:
                fails.append(F("A", "mode names: source %s = %s, model %s" % (key, em[key], names), "A:const:modes"))
        real = getattr(self, "_real_modes", None)
        if real is None:
            real = {}
            for name in names:
                try:
                    c = Categorical("b", ["a", "b", "c"])
                    v = list(EncodeCatRows(name).filter([c]))[0]
                    r = list(EncodeCatRows(name).filter([[5, Categorical("b", ["a", "b", "c"])]]))[0]
                    vb = "str" if type(v) is str else "as_onehot" if v == (0, 1, 0) else "?"
                    cb = "str" if list(r) == [5, "b"] and type(list(r)[1]) is str else "flat" if list(r) == [5, 0, 1, 0] else "as_onehot" if list(r) == [5, (0, 1, 0)] else "?"
                    real[name] = [vb, cb]
                except Exception as e:
                    real[name] = ["raised " + type(e).__name__] * 2
            self._real_modes = real
        for name, vb, cb in modes:
            if "values_chain" in em and run_chain(em["values_chain"], name) != vb:
                fails.append(F("A", "EncodeCatRows._encode_values on mode %r: source chain gives %s, model %s" % (name, run_chain(em["values_chain"], name), vb), "A:const:modes"))
            if "coll_chain" in em and run_chain(em["coll_chain"], name) != cb:
                fails.append(F("A", "EncodeCatRows catset on mode %r: source chain gives %s, model %s" % (name, run_chain(em["coll_chain"], name), cb), "A:const:modes"))
            if real.get(name) != [vb, cb]:
                fails.append(F("A", "EncodeCatRows(%r) on a scalar categorical / on a row [5, categorical]: real code %s, model %s" % (name, real.get(name), [vb, cb]), "A:modes-dispatch"))
        tags.append("modes-checked")

    def check_value_variants(self, rows, fails, tags, driver):
        """pyEq_symm_wf / pyEq_symm_rows / sparsedense_eq_elementwise: deterministic variants of the case's own values — dicts with the keys in
        another order, one key dropped, one key renamed, one value changed (keys ⊆ keys with and without equal length), and SparseDense rows
        next to the list / tuple with the same elements — compared with Python's `==` in BOTH operand orders (A) and, where the model calls
        the rows well formed, for symmetry of the model's own answer (C)"""
        from coba.pipes import SparseDense

        def plain(v):
            return v is not None and ("n" in v or "s" in v)
        ext = []
        for v in rows:
            if v is None:
                continue
            if "d" in v and v["d"]:
                kv = [list(e) for e in v["d"]]
                ext.append({"d": kv[::-1]})
                ext.append({"d": kv[1:]})
                ext.append({"d": kv[:-1] + [[kv[-1][0] + "_", kv[-1][1]]]})
                ext.append({"d": [[kv[0][0], {"n": [7, 1]}]] + kv[1:]})
                if all(plain(x) for _, x in kv):
                    n = len(kv) + 1
                    ext.append({"z": [[i + 1, x] for i, (_, x) in enumerate(kv)][::-1], "len": n})
                    ext.append({"t": [{"n": [0, 1]}] + [x for _, x in kv]})
                    ext.append({"l": [{"n": [0, 1]}] + [x for _, x in kv]})
            elif ("t" in v or "l" in v) and (v.get("t") or v.get("l")) and all(plain(x) for x in (v.get("t") or v.get("l"))):
                xs = v.get("t") or v.get("l")
                stored = [[i, x] for i, x in enumerate(xs) if not ("n" in x and x["n"][0] == 0)]
                if stored:
                    ext.append({"z": stored, "len": len(xs)})
                    ext.append({"z": stored[::-1], "len": len(xs) + 1})
                    ext.append({"t": list(xs)} if "l" in v else {"l": list(xs)})
            if len(ext) >= 9:
                break
        if not ext:
            return
        rows2 = [v for v in rows if v is not None and ("d" in v or "t" in v or "l" in v)][:3] + ext[:9]
        try:
            ans = driver.ask({"op": "values", "rows": rows2})
        except Exception as e:
            tags.append("skipA:value-variants:" + type(e).__name__)
            return

        def mk2(v):
            if v is not None and "z" in v:
                return SparseDense({int(i): mk(x) for i, x in v["z"]}, int(v["len"]))
            return mk(v)
        objs = [mk2(v) for v in rows2]
        tags.append("pyEq-variants-checked")
        if any("z" in v for v in rows2):
            tags.append("pyEq-variants:sparsedense")
        if any("d" in v for v in rows2):
            tags.append("pyEq-variants:dict")
        for i, a in enumerate(objs):
            for j, b in enumerate(objs):
                if py_eq(a, b) != ans["eq"][i][j]:
                    fails.append(F("A", "Python `==` on %s and %s is %s, the model's pyEq says %s" % (json.dumps(rows2[i])[:150], json.dumps(rows2[j])[:150], py_eq(a, b), ans["eq"][i][j]), "A:pyEq-variants"))
                if ans["wfRow"][i] and ans["wfRow"][j] and ans["eq"][i][j] != ans["eq"][j][i]:
                    fails.append(F("C", "pyEq_symm_rows fails in the model on %s / %s" % (json.dumps(rows2[i])[:100], json.dumps(rows2[j])[:100]), "C:pyEq-symm-rows"))
                if ans["wfRow"][i] and ans["wfRow"][j] and py_eq(a, b) != py_eq(b, a):
                    fails.append(F("A", "Python `==` is not symmetric on the well-formed rows %s / %s (pyEq_symm_rows says it is)" % (json.dumps(rows2[i])[:100], json.dumps(rows2[j])[:100]), "A:pyEq-symm-real"))

    def check_shapes(self, st, before, after, where, fails, tags, driver):
        """the injectivity theorems against the real code: when the model's shape hypothesis (`denseCatShapeB` for Repr,
        `flattenShapeB` for Flatten) holds for the action set of the first interaction, the real filter must keep it a set"""
        if not before or "actions" not in before[0] or not before[0]["actions"] or not after or "actions" not in after[0]:
            return
        if not ((st["f"] == "repr" and st.get("ca")) or st["f"] == "flatten"):
            return
        try:
            ans = driver.ask({"op": "values", "rows": [enc_ordered(a) for a in before[0]["actions"]]})
        except Exception:
            return
        holds = ans["denseCat"] if st["f"] == "repr" else ans["flatten"]
        if holds and ans["distinct"]:
            tags.append("shape-hyp:" + st["f"])
            if not pairwise_distinct(after[0]["actions"]):
                fails.append(F("A", where + "%s: the model's shape hypothesis holds for the actions %s but the real filter merged two of them: %s"
                               % (st["f"], json.dumps([enc(a) for a in before[0]["actions"]])[:300], json.dumps([enc(a) for a in after[0]["actions"]])[:300]),
                               "A:shape-injective:" + st["f"]))

    def check_tables(self, chain, steps, stepw, prior, where, fails, tags, driver):
        """(A) for the one piece of state a filter object keeps: Densify's look-up table after this sequence (model: densifyRun's final
        state / keysAsked; real: the object's `_lookup`)"""
        for i, st in enumerate(chain):
            if not (st["f"] == "densify" and st["m"] == "lookup") or i >= len(steps) or prior.get(i, []) is None:
                continue
            flt = stepw.filters[i]
            flt = getattr(flt, "_filter", flt)
            real = [[str(k), int(v)] for k, v in flt._lookup.items()]
            if len(real) > 150:
                continue
            before = steps[i][1]
            stream = enc_model_stream(before)
            try:
                ans = driver.ask({"op": "table", "stream": stream, "chain": [], "n": st["n"], "c": st["c"], "a": st["a"], "prior": prior.get(i, []), "cfg": detect_cfg()})
            except Exception as e:
                tags.append("skipA:table:" + type(e).__name__)
                continue
            if "error" in ans:
                tags.append("skipA:table-unmodelled")
                continue
            tags.append("table-checked")
            if ans["table"] != real:
                fails.append(F("A", where + "Densify look-up table after the sequence: implementation %s, model %s" % (json.dumps(real)[:300], json.dumps(ans["table"])[:300]), "A:densify-table"))
            if ans["keys"] != densify_keys(st, before):
                fails.append(F("A", where + "keys asked by Densify: harness %s, model keysAsked %s" % (densify_keys(st, before)[:20], ans["keys"][:20]), "A:densify-keys"))
            # phase 6 (densify_history_eq_prior): the same object's table when the model is given the HISTORY of earlier reads itself (complete,
            # aborted and abandoned ones) and folds it with runObjHistory, instead of the harness' list of keys
            hist = prior.get(("hist", i))
            if hist and sum(len(h) for h in hist) <= 200:
                try:
                    ah = driver.ask({"op": "table", "stream": stream, "chain": [], "n": st["n"], "c": st["c"], "a": st["a"], "prior": [], "hist": hist, "cfg": detect_cfg()})
                except Exception as e:
                    tags.append("skipA:history:" + type(e).__name__)
                    continue
                if "error" in ah:
                    tags.append("skipA:history-unmodelled")
                    continue
                tags.append("history-checked:%d" % min(len(hist), 3))
                if ah["table"] != real:
                    fails.append(F("A", where + "Densify look-up table after a history of %d earlier reads: implementation %s, model runObjHistory %s"
                                   % (len(hist), json.dumps(real)[:300], json.dumps(ah["table"])[:300]), "A:densify-history-table"))
                if ah["table"] != ans["table"]:
                    fails.append(F("C", where + "model: table after the history %s differs from the table primed with the history's keys %s (densify_history_eq_prior)"
                                   % (json.dumps(ah["table"])[:200], json.dumps(ans["table"])[:200]), "C:densify-history"))
                if ah["hist_keys"] != prior.get(i, []):
                    fails.append(F("A", where + "keys of the history: harness %s, model historyKeys %s" % (prior.get(i, [])[:20], ah["hist_keys"][:20]), "A:history-keys"))

    def eval_sequence(self, case, seq, si, where, pipe, pipe_err, stepw, chain, lazy, fails, tags):
        wrap = case.get("wrap")
        # stepwise run: per-step (B) with blame, oracles for the model, excuses
        steps, step_err = stepw.run(seq)
        changed = False
        stop = None          # "fail" | "excused": why the per-step checks ended
        collapsed_at = None
        cycled = False
        for st, before, after in steps:
            label = step_label(st)
            if any(json.dumps([enc(a) for a in o.get("actions", [])]) != json.dumps([enc(a) for a in n.get("actions", [])]) for o, n in zip(before, after)):
                changed = True
                tags.append("changed-by:" + st["f"])
            if stop:
                continue
            if st["f"] == "cycle":
                # Cycle moves rewards on purpose: judged against its own documented effect; afterwards only step-local checks make sense
                if not compare_cycle(st, before, after, fails, tags, where + "step"):
                    stop = "fail"
                cycled = True
                continue
            r = compare_step(label, before, after, is_lossy(st, before), fails, tags, where + "step", st)
            if r["ok"] and not r["excused"]:
                check_roundtrips(label, after, fails, tags, where + "step")
            if not r["ok"]:
                stop = "fail"
            elif r["excused"]:
                stop = "excused"
            elif r["collapsed"] and collapsed_at is None:
                collapsed_at = label
        plabel = ("lazy-pipeline" if lazy else "pipeline") if not collapsed_at else "collapse@" + collapsed_at
        if cycled and not stop:
            stop = "cycled"      # the whole-pipeline comparison with the original is meaningless after a Cycle; (A) still compares everything
        has_target = False

        # the real pipeline, lazily composed
        impl_err, final, sizes = pipe_err, None, None
        batch_obs = None
        # representation-is-a-function check: not for pipelines that add action noise (every occurrence differs by design)
        repmap = None if any(st["f"] == "noise" and st.get("a") for st in chain) else {}
        if repmap is not None and levels_vary(seq):
            # phase 6 / round i: categoricals whose LEVEL LISTS differ between the interactions of one stream: Repr's "same action list as before" fast path
            # compares the lists with == (a Categorical is its string), so an equal list under another level order re-uses the earlier one-hots - positions
            # and rewards stay aligned, the cross-interaction "one representation per action value" demand is not applied there (see notes, Phase 6)
            repmap = None
            tags.append("skipB:representation-function:levels-vary")
        if pipe is not None:
            try:
                if lazy:
                    # fed from a generator of fresh objects; each output is judged against a fresh copy of its input and dropped
                    final, t = [], 0
                    for out in pipe.run(source_of(case, seq), si):
                        ms, sz = members([out])
                        if sz:
                            sizes = (sizes or []) + sz
                        for m in ms:
                            if t >= len(seq):
                                fails.append(F("B", "%s%s produced more interactions than it was given (%d)" % (where, plabel, len(seq)), "%s:stream-length" % plabel))
                                break
                            o = members([mk_inter(seq[t], wrap)])[0][0]
                            has_target = has_target or callable(o.get("rewards")) or callable(o.get("feedbacks")) or ("action" in o and "actions" in o)
                            if not stop:
                                compare_step(plabel, [o], [m], False, fails, tags, where + "pipeline, interaction %d" % t)
                                if repmap is not None:
                                    check_representation_function(o, m, repmap, fails, tags, where + "pipeline", plabel, t)
                            final.append(interaction_json(m))
                            t += 1
                        del ms, out
                    if t < len(seq) and not stop:
                        fails.append(F("B", "%s%s turned %d interactions into %d" % (where, plabel, len(seq), t), "%s:stream-length" % plabel))
                else:
                    out = list(pipe.run(source_of(case, seq), si))
                    fin, sizes = members(out)
                    original, _ = members([mk_inter(it, wrap) for it in seq])
                    has_target = any(callable(o.get("rewards")) or callable(o.get("feedbacks")) or ("action" in o and "actions" in o) for o in original)
                    # the whole pipeline against the original, unless a step already explains or excuses it
                    if not stop:
                        compare_step(plabel, original, fin, False, fails, tags, where + "pipeline")
                        if repmap is not None and len(original) == len(fin):
                            for t_, (o_, m_) in enumerate(zip(original, fin)):
                                check_representation_function(o_, m_, repmap, fails, tags, where + "pipeline", plabel, t_)
                    if sizes is not None and not stop and all(pairwise_distinct(m["actions"]) for m in fin if "actions" in m):
                        self.check_batch_call(out, original, fails, tags)
                    final = [interaction_json(it) for it in fin]
                    if sizes is not None:
                        batch_obs = real_batch_obs(out)
            except Exception as e:
                impl_err, final = type(e).__name__, None
        if impl_err:
            tags.append("raises:" + impl_err)
        impl = {"error": impl_err, "sizes": sizes, "stream": final, "batch_obs": batch_obs}
        return {"impl": impl, "steps": steps, "step_err": step_err, "nontrivial": changed and final is not None and has_target}

    def check_batch_call(self, out, original, fails, tags):
        """a batched stream is used through its call protocol: rewards(batch of actions) -> batch of rewards"""
        from coba.primitives import is_batch
        pos = 0
        for it in out:
            bkeys = [k for k, v in it.items() if is_batch(v)]
            if not bkeys:
                pos += 1
                continue
            n = len(it[bkeys[0]])
            orig = original[pos:pos + n]
            pos += n
            if "actions" not in it or "actions" not in bkeys:
                continue
            if any(not pairwise_distinct(o["actions"]) for o in orig):
                continue
            for key in ("rewards", "feedbacks"):
                if key in it and callable(it[key]) and len(set(len(a) for a in it["actions"])) == 1:
                    tags.append("batch-call")
                    for i in range(len(it["actions"][0])):
                        try:
                            got = list(it[key]([acts[i] for acts in it["actions"]]))
                        except Exception as e:
                            got = ["ERR:" + type(e).__name__]
                        exp = [obs_target(o, key)[i] for o in orig]
                        if not obs_eq(got, exp):
                            # only blame the batch protocol when the members themselves are aligned (otherwise a step was blamed already)
                            if not [f for f in fails if f["kind"] == "B"]:
                                fails.append(F("B", "batched %s called with the %d-th action of every member returned %s, the members' own %s are %s"
                                               % (key, i, json.dumps(obs_json(got)), key, json.dumps(obs_json(exp))), "batch-call:%s" % key))

    # ---- (A) correspondence with the Lean model
    def correspond(self, case, seq, chain, steps, impl, prior, where, fails, tags, driver):
        cfg = detect_cfg()
        mchain = []
        for i, st in enumerate(chain):
            ms = {k: v for k, v in st.items() if k not in (st.get("omit") or [])}     # left-out arguments: the model's own defaults apply
            if st["f"] == "noise":
                eff = dict(st)
                if not st.get("c") and not st.get("a"):
                    eff["c"] = {"kind": "g", "m": 0, "s": 1}      # Noise() without any generator: gaussian context noise
                ms["oracle"] = noise_oracle(eff, steps[i][1], steps[i][2]) if i < len(steps) else []
            if st["f"] == "densify" and st["m"] == "hashing":
                keys = collect_keys(steps[i][1]) if i < len(steps) else []
                ms["hash"] = [[k, zlib.crc32(k.encode("ascii")) % st["n"]] for k in keys if k.isascii()]
            if st["f"] == "densify" and st["m"] == "lookup" and i in prior:
                if prior[i] is None:
                    tags.append("skipA:prior-unknown")     # an earlier sequence raised half way: what its look-up table holds is not determined here
                    return None
                ms["prior"] = prior[i]
            mchain.append(ms)
        ans = driver.ask({"stream": seq, "chain": mchain, "cfg": cfg})
        model = ans["model"]
        if model.get("error") == "unmodelled":
            tags.append("skipA:unmodelled")
            return model
        # a SparseDense without stored values cannot be iterated in the real code (IndexError) and is unequal to itself;
        # the model gives it the obvious meaning (all zeros), so such cases are outside the correspondence
        if not cfg.get("fixEmptySparseDense") and any('"z": []' in json.dumps(enc_any(m), sort_keys=True) for _, b, a in steps for m in a):
            tags.append("skipA:empty-sparsedense")
            return model
        if ans.get("hyp") and not ans.get("spec") and not model.get("error"):
            fails.append(F("C", "model: hypotheses of chain_aligned hold but the model's output is not aligned", "C:chain"))
        if ans.get("hyp"):
            tags.append("hyp")
        # noise_scalar_aligned: where its explicit preconditions hold for the stream reaching a Noise step, the model's step is aligned (C)
        # and the real filter must have kept every action list a set and the step aligned (no "merged by design" excuse is possible)
        for nh in ans.get("noise_hyps") or []:
            if not nh.get("hyp"):
                tags.append("noise-scalar-hyp:no")
                continue
            tags.append("noise-scalar-hyp")
            if not nh.get("aligned"):
                fails.append(F("C", where + "model: preconditions of noise_scalar_aligned hold at step %d but the model's step is not aligned" % nh["i"], "C:noise-scalar"))
            i = nh["i"]
            if i < len(steps) and not impl["error"]:
                _, before_, after_ = steps[i]
                for t, (o_, n_) in enumerate(zip(before_, after_)):
                    if "actions" in n_ and not pairwise_distinct(list(n_["actions"])):
                        fails.append(F("A", where + "noise step %d, interaction %d: preconditions of noise_scalar_aligned hold but the real Noise merged two actions: %s -> %s"
                                       % (i, t, json.dumps([enc(a) for a in o_.get("actions", [])])[:200], json.dumps([enc(a) for a in n_["actions"]])[:200]), "A:noise-scalar-injective"))
        # densify_sparse_aligned: where its explicit preconditions (about the INPUT of the step and the slot table) hold, the model's step is
        # aligned (C) and the real Densify must have kept every action list a set (no "merged by design" excuse is possible there)
        for dh in ans.get("densify_hyps") or []:
            if not dh.get("hyp"):
                tags.append("densify-sparse-hyp:no")
                continue
            tags.append("densify-sparse-hyp")
            if not dh.get("aligned"):
                fails.append(F("C", where + "model: preconditions of densify_sparse_aligned hold at step %d but the model's step is not aligned" % dh["i"], "C:densify-sparse"))
            i = dh["i"]
            if i < len(steps) and not impl["error"]:
                _, before_, after_ = steps[i]
                for t, (o_, n_) in enumerate(zip(before_, after_)):
                    if "actions" in n_ and not pairwise_distinct(list(n_["actions"])):
                        fails.append(F("A", where + "densify step %d, interaction %d: preconditions of densify_sparse_aligned hold (distinct slots) but the real Densify merged two actions: %s -> %s"
                                       % (i, t, json.dumps([enc(a) for a in o_.get("actions", [])])[:200], json.dumps([enc(a) for a in n_["actions"]])[:200]), "A:densify-sparse-injective"))
        if impl["error"] or model.get("error"):
            if bool(impl["error"]) != bool(model.get("error")):
                fails.append(F("A", where + "implementation %s, model %s" % ("raised " + impl["error"] if impl["error"] else "returned", "raised " + str(model.get("error")) if model.get("error") else "returned"), "A:error"))
            return model
        if (impl["sizes"] or None) != (model.get("sizes") or None):
            fails.append(F("A", where + "batch sizes: implementation %s, model %s" % (impl["sizes"], model.get("sizes")), "A:batch-sizes"))
        if impl.get("batch_obs") is not None and model.get("batch_obs") is not None:
            tags.append("batch-obs-checked")
            mb = model["batch_obs"]
            if len(mb) != len(impl["batch_obs"]):
                fails.append(F("A", where + "number of batches with a call protocol: implementation %d, model %d" % (len(impl["batch_obs"]), len(mb)), "A:batch-obs"))
            else:
                for bi, (ra, rb) in enumerate(zip(impl["batch_obs"], mb)):
                    for key in ("rewards", "feedbacks"):
                        va, vb = ra.get(key), rb.get(key)
                        if va is None or vb is None:
                            if (va is None) != (vb is None):
                                fails.append(F("A", where + "batch %d: batched %s callable in the %s only" % (bi, key, "model" if va is None else "implementation"), "A:batch-obs"))
                            continue
                        ca = [["ERR" if isinstance(x, str) else Fraction(*x) for x in col] for col in va]
                        cb = [None if col is None else ["ERR" if isinstance(x, str) else Fraction(x[0] / x[1]) for x in col] for col in vb]
                        if not close(ca, cb):
                            fails.append(F("A", where + "batch %d: batched %s called with the i-th action of every member: implementation %s, model %s"
                                           % (bi, key, json.dumps(ca, default=str)[:300], json.dumps(cb, default=str)[:300]), "A:batch-obs"))
        ms = model["stream"]
        if len(ms) != len(impl["stream"]):
            fails.append(F("A", where + "stream length: implementation %d, model %d" % (len(impl["stream"]), len(ms)), "A:length"))
            return model
        for t, (a, b) in enumerate(zip(impl["stream"], ms)):
            b = dict(b)
            for key in ("context", "action"):
                if key in b:
                    b[key] = canon_model_val(b[key])
            if "actions" in b:
                b["actions"] = [canon_model_val(x) for x in b["actions"]]
            for key in sorted(set(a) | set(b)):
                va, vb = a.get(key), b.get(key)
                if key in ("reward", "probability") and va is not None and vb is not None:
                    va, vb = Fraction(*va), Fraction(*vb)
                if key in ("obs_rewards", "obs_feedbacks") and va is not None and vb is not None:
                    # the model computes in exact rationals; Python's int/int division (HammingReward) is the correctly rounded double
                    va = ["ERR" if isinstance(x, str) else Fraction(*x) for x in va]
                    vb = ["ERR" if isinstance(x, str) else Fraction(x[0] / x[1]) for x in vb]
                if not close(va, vb):
                    fails.append(F("A", where + "interaction %d, %s: implementation %s, model %s" % (t, key, json.dumps(va, default=str)[:300], json.dumps(vb, default=str)[:300]), "A:" + key))
        return model

    # ---- shrinking
    def shrink(self, case):
        if case.get("abort") is not None:
            yield {k: v for k, v in case.items() if k not in ("abort", "abort_kind")}
            if case.get("more"):
                yield {k: v for k, v in case.items() if k != "more"}
            if case["abort"] > 1:
                yield dict(case, abort=case["abort"] - 1)
            if len(case["stream"]) > case["abort"] + 1:
                yield dict(case, stream=case["stream"][:-1])
            for key in ("delivery", "wrap"):
                if case.get(key):
                    yield {k: v for k, v in case.items() if k != key}
            return
        st, ch = case["stream"], case["chain"]
        if any(x.get("omit") for x in ch):
            # fewer arguments left out (the step keeps the default's value, now handed over explicitly)
            for i, x in enumerate(ch):
                for k in x.get("omit") or []:
                    y = dict(x, omit=[o for o in x["omit"] if o != k])
                    if not y["omit"]:
                        del y["omit"]
                        y.pop("ctor", None)
                    yield dict(case, chain=ch[:i] + [y] + ch[i + 1:])
        more = case.get("more") or []
        if case.get("collection"):
            ro = case.get("read_order") or list(range(1 + len(more)))
            for i in range(len(ro)):
                if len(ro) > 1:
                    yield dict(case, read_order=ro[:i] + ro[i + 1:])
            for j in range(len(more)):
                # drop member j+1 (indices above it move down)
                ro2 = [m - 1 if m > j + 1 else m for m in ro if m != j + 1]
                if ro2:
                    yield dict(case, more=more[:j] + more[j + 1:], read_order=ro2)
        elif more:
            yield {k: v for k, v in case.items() if k != "more"}
            for i in range(len(more)):
                yield dict(case, more=more[:i] + more[i + 1:])
            yield dict(case, stream=more[0], more=more[1:])
        if case.get("delivery") == "lazy":
            yield {k: v for k, v in case.items() if k != "delivery"}
        if case.get("wrap"):
            yield {k: v for k, v in case.items() if k != "wrap"}
        if any("order" in it for it in st):
            yield dict(case, stream=[{k: v for k, v in it.items() if k != "order"} for it in st])
        if len(st) > 3:
            yield dict(case, stream=st[:len(st) // 2])
            yield dict(case, stream=st[len(st) // 2:])
            yield dict(case, stream=st[:-1])
        for i in range(len(ch)):
            c = dict(case, chain=ch[:i] + ch[i + 1:])
            yield c
        for i in range(len(st)):
            if len(st) > 1:
                yield dict(case, stream=st[:i] + st[i + 1:])
        if case.get("via") != "filters":
            yield dict(case, via="filters")
        for i, it in enumerate(st):
            if it.get("context") is not None:
                yield dict(case, stream=st[:i] + [dict(it, context=None)] + st[i + 1:])
            if "feedbacks" in it:
                yield dict(case, stream=st[:i] + [{k: v for k, v in it.items() if k != "feedbacks"}] + st[i + 1:])
            acts = it.get("actions") or []
            if len(acts) > 1:
                for j in range(len(acts)):
                    if "action" in it and json.dumps(it["action"]) == json.dumps(acts[j]):
                        continue
                    it2 = dict(it, actions=acts[:j] + acts[j + 1:])
                    okay = True
                    for key in ("rewards", "feedbacks"):
                        if key in it:
                            rw = dict(it[key])
                            if rw["k"] in ("list", "tuple"):
                                rw["v"] = rw["v"][:j] + rw["v"][j + 1:]
                            elif rw["k"] == "fn":
                                rw["table"] = [p for p in rw["table"] if json.dumps(p[0]) != json.dumps(acts[j])]
                            elif rw["k"] == "discrete":
                                keep = [x for x in range(len(rw["actions"])) if json.dumps(rw["actions"][x]) != json.dumps(acts[j])]
                                rw["actions"] = [rw["actions"][x] for x in keep]
                                rw["values"] = [rw["values"][x] for x in keep]
                            elif rw["k"] == "binary" and json.dumps(rw["argmax"]) == json.dumps(acts[j]):
                                okay = False
                            it2[key] = rw
                    if okay:
                        yield dict(case, stream=st[:i] + [it2] + st[i + 1:])

    def snippet(self, case):
        return ("import sys, json; sys.path[:0] = [%r, '/verif/harness']\n"
                "from props.c10 import Pipeline, sequences, source_of, aborting_source, members, mk_inter, obs_target, logged_index\n"
                "case = json.loads(%r)\n"
                "pipe = Pipeline(case)          # the filter objects / the Environments collection are built once\n"
                "if case.get('abort') is not None and case.get('abort_kind') == 'abandon':   # the consumer stops after `abort` items and closes the iterator\n"
                "    from props.c10 import counting_source, abandon_after\n"
                "    src, cnt = counting_source(case, case['stream'])\n"
                "    abandon_after(pipe.run(src, 0), case['abort']); print('first read abandoned after', cnt[0], 'items')\n"
                "elif case.get('abort') is not None:   # an aborted first read of the same objects: the source raises at item `abort`\n"
                "    try: list(pipe.run(aborting_source(case, case['stream'], case['abort']), 0))\n"
                "    except ConnectionError: print('first read aborted at item', case['abort'])\n"
                "seqs = sequences(case)\n"
                "order = case.get('read_order') if case.get('collection') else range(len(seqs))\n"
                "for m in order:                # collection: the members of one Environments object, read in this order\n"
                "    seq, t = seqs[m], 0\n"
                "    for out in pipe.run(source_of(case, seq), m if case.get('collection') else 0):\n"
                "        for n in members([out])[0]:\n"
                "            o = members([mk_inter(seq[t], case.get('wrap'))])[0][0]\n"
                "            print('member' if case.get('collection') else 'sequence', m, 'interaction', t, 'rewards', obs_target(o, 'rewards'), '->', obs_target(n, 'rewards'),\n"
                "                  '| feedbacks', obs_target(o, 'feedbacks'), '->', obs_target(n, 'feedbacks'), '| logged action index', logged_index(o), '->', logged_index(n))\n"
                "            t += 1\n"
                % (os.environ.get("COBA_REPO", "/repo"), json.dumps(case)))


PROPERTY = C10()
