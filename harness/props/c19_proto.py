import ast, os

CODES = {"self._acquire_read_lock": 1, "self._release_read_lock": 2, "self._acquire_write_lock": 3, "self._release_write_lock": 4,
         "self._switch_write_to_read_lock": 5, "in": 6, "cache.get_set(None)": 7, "cache.get_set(getter)": 8,
         "self._has_read_lock": 9, "self._has_write_lock": 10, "self._release_read_on_exit": 11, "return": 12, "cache.rmv": 13}
GUARD = {ast.Eq: 0, ast.GtE: 1, ast.Gt: 2, ast.LtE: 3, ast.Lt: 4, ast.NotEq: 5}
ASSIGN = {None: 0, ast.Add: 1, ast.Sub: 2}


class Raised(Exception):
    pass


class Returned(Exception):
    pass


def extract_protocol(src):
    """call order of ConcurrentCacher.get_set / rmv along every path, and the guard / updates of the five lock blocks (ast only)"""
    tree = ast.parse(src)
    cls = next(n for n in ast.walk(tree) if isinstance(n, ast.ClassDef) and n.name == "ConcurrentCacher")
    fns = {f.name: f for f in cls.body if isinstance(f, ast.FunctionDef)}

    def call_name(c):
        f = c.func
        if isinstance(f, ast.Attribute) and isinstance(f.value, ast.Name) and f.value.id == "self":
            return "self." + f.attr
        if isinstance(f, ast.Attribute) and isinstance(f.value, ast.Attribute) and f.value.attr == "_cache":
            if f.attr == "get_set":
                a = c.args[1] if len(c.args) > 1 else None
                return "cache.get_set(None)" if isinstance(a, ast.Constant) and a.value is None else "cache.get_set(getter)"
            return "cache." + f.attr
        return "?" + ast.dump(f)[:30]

    def run(fn, orc):
        out, env = [], {}
        ins = list(orc.get("in", []))

        def expr(e):
            # evaluation order: arguments first, then the call itself
            if isinstance(e, ast.Call):
                for a in e.args:
                    expr(a)
                name = call_name(e)
                out.append(name)
                if name in orc.get("raises", ()):
                    raise Raised()
                return orc.get(name)
            if isinstance(e, ast.Compare) and len(e.ops) == 1 and isinstance(e.ops[0], ast.In):
                out.append("in")
                return ins.pop(0) if ins else False
            if isinstance(e, ast.Compare) and len(e.ops) == 1 and isinstance(e.ops[0], ast.Eq) and isinstance(e.left, ast.Name):
                return env.get(e.left.id) == getattr(e.comparators[0], "value", object())
            if isinstance(e, ast.Constant):
                return e.value
            if isinstance(e, ast.Name):
                return env.get(e.id)
            raise ValueError("expression not understood: " + ast.dump(e)[:60])

        def block(stmts):
            for st in stmts:
                if isinstance(st, ast.Try):
                    try:
                        block(st.body)
                    except Raised:
                        if not st.handlers:
                            raise
                        block(st.handlers[0].body)
                elif isinstance(st, ast.If):
                    block(st.body if expr(st.test) else st.orelse)
                elif isinstance(st, ast.Return):
                    if st.value is not None:
                        expr(st.value)
                    out.append("return")
                    raise Returned()
                elif isinstance(st, ast.Assign) and len(st.targets) == 1 and isinstance(st.targets[0], ast.Name):
                    env[st.targets[0].id] = expr(st.value)
                elif isinstance(st, ast.Expr):
                    if not (isinstance(st.value, ast.Constant) and isinstance(st.value.value, str)):
                        expr(st.value)
                elif isinstance(st, ast.Raise):
                    raise Raised()
                else:
                    raise ValueError("statement not understood: " + ast.dump(st)[:60])
        try:
            block(fn.body)
        except (Raised, Returned):
            pass
        return [CODES[t] for t in out]

    paths = {}
    for in1 in (False, True):
        for in2 in (False, True):
            for fails in (False, True):
                orc = {"in": [in1, in2], "raises": ("cache.get_set(getter)",) if fails else (),
                       "self._has_read_lock": False, "self._has_write_lock": True}
                paths[(in1, in2, fails)] = run(fns["get_set"], orc)
    rmv = {}
    for ins in (False, True):
        for fails in (False, True):
            rmv[(ins, fails)] = run(fns["rmv"], {"in": [ins], "raises": ("cache.rmv",) if fails else ()})

    def lock_block(fn):
        """(guard op, guard const) or None, (array op, const), (_locks op, const) of the `with self._lock:` block"""
        w = next(n for n in ast.walk(fn) if isinstance(n, ast.With))
        guard, body = None, w.body
        if len(body) == 1 and isinstance(body[0], ast.If):
            t = body[0].test
            guard = (GUARD[type(t.ops[0])], ast.literal_eval(t.comparators[0]))
            body = body[0].body
        arr = locks = None
        for st in body:
            if isinstance(st, (ast.Assign, ast.AugAssign)):
                tgt = st.targets[0] if isinstance(st, ast.Assign) else st.target
                if isinstance(tgt, ast.Subscript) and isinstance(tgt.value, ast.Attribute):
                    val = (ASSIGN[type(st.op) if isinstance(st, ast.AugAssign) else None], ast.literal_eval(st.value))
                    if tgt.value.attr == "_array":
                        arr = val
                    elif tgt.value.attr == "_locks":
                        locks = val
        return guard, arr, locks
    # round h: the expression of the key that names the FILE (DiskCacher._cache_name) and the one that is hashed into the lock SLOT
    # (ConcurrentCacher._index): both must be the key itself, or two keys could share a file while holding different locks
    ident = {"name": None, "suffix": None, "index": None}
    dcls = next((n for n in ast.walk(tree) if isinstance(n, ast.ClassDef) and n.name == "DiskCacher"), None)
    if dcls is not None:
        cn = next((f for f in dcls.body if isinstance(f, ast.FunctionDef) and f.name == "_cache_name"), None)
        ret = next((n for n in ast.walk(cn) if isinstance(n, ast.Return)), None) if cn is not None else None
        if ret is not None and isinstance(ret.value, ast.JoinedStr):
            fv = [v for v in ret.value.values if isinstance(v, ast.FormattedValue)]
            cs_ = [v.value for v in ret.value.values if isinstance(v, ast.Constant)]
            if len(fv) == 1 and isinstance(ret.value.values[0], ast.FormattedValue):
                ident["name"] = ast.unparse(fv[0].value) + ("!" + chr(fv[0].conversion) if fv[0].conversion != -1 else "") + (":" + ast.unparse(fv[0].format_spec) if fv[0].format_spec else "")
                ident["suffix"] = "".join(str(c) for c in cs_)
        elif ret is not None:
            ident["name"], ident["suffix"] = ast.unparse(ret.value), ""
    hcall = next((n for n in ast.walk(fns["_index"]) if isinstance(n, ast.Call) and getattr(n.func, "id", getattr(n.func, "attr", "")) == "blake2b"), None)
    if hcall is not None and hcall.args:
        ident["index"] = ast.unparse(hcall.args[0])
    blocks = {n: lock_block(fns[n]) for n in ("_acquire_read_lock", "_release_read_lock", "_acquire_write_lock", "_release_write_lock", "_switch_write_to_read_lock")}
    return paths, rmv, blocks, ident


def render(paths, rmv, blocks, ident, ok):
    def L(xs):
        return "[" + ", ".join(str(x) for x in xs) + "]"

    def B(b):
        return "true" if b else "false"

    def P(p):
        return "(%d, %s)" % (p[0], ("(%d)" % p[1]) if p[1] < 0 else str(p[1]))
    lines = ["-- GENERATED by harness/props/c19.py (pre_build) from coba/context/cachers.py on every run; do not edit.",
             "namespace Coba.C19.Generated",
             "/-! call codes: " + ", ".join("%d %s" % (v, k) for k, v in CODES.items()) + " -/",
             "/-- calls made by `ConcurrentCacher.get_set`, in evaluation order, when the first / the second membership test answer `in1` / `in2`",
             "and the inner `get_set(key, getter)` raises iff `fails` (then the `except:` handler runs with `_locks[key] = -1`) -/",
             "def getSetPath (in1 in2 fails : Bool) : List Nat :=",
             "  match in1, in2, fails with"]
    for k in sorted(paths):
        lines.append("  | %s, %s, %s => %s" % (B(k[0]), B(k[1]), B(k[2]), L(paths[k])))
    lines += ["/-- calls made by `ConcurrentCacher.rmv` -/", "def rmvPath (inSelf fails : Bool) : List Nat :=", "  match inSelf, fails with"]
    for k in sorted(rmv):
        lines.append("  | %s, %s => %s" % (B(k[0]), B(k[1]), L(rmv[k])))
    lines.append("/-! lock blocks: guard (op, constant) with op 0 `==`, 1 `>=`, 2 `>`, 3 `<=`, 4 `<`, 5 `!=`; update (op, constant) with op 0 `=`, 1 `+=`, 2 `-=` -/")
    names = {"_acquire_read_lock": "acqRead", "_release_read_lock": "relRead", "_acquire_write_lock": "acqWrite", "_release_write_lock": "relWrite",
             "_switch_write_to_read_lock": "switch"}
    for n, short in names.items():
        g, a, l = blocks[n]
        if g is not None:
            lines.append("def %sGuard : Nat × Int := %s" % (short, P(g)))
        lines.append("def %sArray : Nat × Int := %s" % (short, P(a)))
        lines.append("def %sLocks : Nat × Int := %s" % (short, P(l)))
    import json
    lines.append("/-! key identity: the expression of `key` that becomes the file name (`DiskCacher._cache_name`, an f-string `{expr}suffix`) and the one hashed into the lock slot (`ConcurrentCacher._index`) -/")
    lines.append("def cacheNameKeyExpr : String := %s" % json.dumps(ident.get("name") or "?", ensure_ascii=True))
    lines.append("def cacheNameSuffix : String := %s" % json.dumps(ident.get("suffix") if ident.get("suffix") is not None else "?", ensure_ascii=True))
    lines.append("def indexKeyExpr : String := %s" % json.dumps(ident.get("index") or "?", ensure_ascii=True))
    lines += ["def protocolExtracted : Bool := %s" % B(ok), "end Coba.C19.Generated", ""]
    return "\n".join(lines)


if __name__ == "__main__":
    src = open(os.path.join(os.environ.get("COBA_REPO", "/repo"), "coba", "context", "cachers.py"), encoding="utf-8").read()
    print(render(*extract_protocol(src), True))


def generate(repo):
    """text of Generated/C19Protocol.lean for the source under `repo`; a fixed fallback (marked not extracted) if the source was reshaped"""
    try:
        src = open(os.path.join(repo, "coba", "context", "cachers.py"), encoding="utf-8").read()
        paths, rmv, blocks, ident = extract_protocol(src)
        if any(v is None for b in blocks.values() for v in b[1:]) or blocks["_acquire_read_lock"][0] is None or blocks["_acquire_write_lock"][0] is None:
            raise ValueError("lock block not understood")
        return render(paths, rmv, blocks, ident, True), "extracted"
    except Exception as e:
        z = {k: [] for k in [(a, b, c) for a in (False, True) for b in (False, True) for c in (False, True)]}
        zr = {(a, b): [] for a in (False, True) for b in (False, True)}
        zb = {n: ((0, 0), (0, 0), (0, 0)) for n in ("_acquire_read_lock", "_release_read_lock", "_acquire_write_lock", "_release_write_lock", "_switch_write_to_read_lock")}
        zb["_release_read_lock"] = zb["_release_write_lock"] = zb["_switch_write_to_read_lock"] = (None, (0, 0), (0, 0))
        return render(z, zr, zb, {}, False), "NOT extracted (%s: %s)" % (type(e).__name__, e)
