"""C14 Supervised data becomes a bandit problem whose best action is the true label.

Case (JSON):
  src        xy | rows | csv | arff | sarff | libsvm | manik
  via        sim (SupervisedSimulation(...)) | env (Environments.from_supervised(...)[0])
  kw         keyword instead of positional arguments
  file       text sources: written to a temp file and passed as a path instead of IterableSource(lines)
  label_type None | c C r R m M
  take       None | int            (never with src=xy: the (X,Y) overload has no take)
  label_col  int | str | None
  header / types / sparse / rows   the data (cells are tagged values, see dec())
  dialect    csv only: csv dialect keywords given to CsvSource (delimiter='\t' ...); eol: line terminator kept on IterableSource lines
  pre        rows/arff only: {"tipe": t}: the source is already labelled (Pipes.join(source, LabelRows(label_col, t)), as
             OpenML sources are) and handed over with label_col=None; an explicit label_type must win over t
  edge       True = outside the property's quantifier (only the correspondence (A) applies)

Checks: (B) the statement itself on what the real code returned (two reads, plus the same data in
reverse order for the "fixed order" clause); (A) implementation = Lean model (driver) on contexts,
action lists, rewards over the offered actions and over probe actions, errors; (C) the monitor of
(B) evaluated on the model's output.
"""
import csv
import io
import json
import os
import shutil
import tempfile
from fractions import Fraction

from core.engine import Property, F
from core import lean
from core.prng import Rng

FOREIGN_S = "~none~"


# ------------------------------------------------------------------ tagged values
def dec(c):
    """tagged JSON value -> Python object"""
    if "s" in c:
        return c["s"]
    if "i" in c:
        return int(c["i"])
    if "f" in c:
        return c["f"][0] / c["f"][1]
    if "b" in c:
        return bool(c["b"])
    if "fr" in c:
        return Fraction(c["fr"][0], c["fr"][1])
    if "x" in c:
        return float(c["x"])          # a double given by its decimal literal (many decimals)
    if "cat" in c:
        from coba.primitives import Categorical
        return Categorical(c["cat"], list(c["levels"]))
    if "l" in c:
        return [dec(x) for x in c["l"]]
    if "t" in c:
        return tuple(dec(x) for x in c["t"])
    if "d" in c:
        return {dec(k): dec(v) for k, v in c["d"]}
    if "n" in c:
        return None
    raise ValueError("bad cell %r" % (c,))


def canon(o):
    """canonical JSON of a Python value (implementation output or expectation)"""
    from coba.primitives import Categorical, Dense, Sparse
    if o is None:
        return None
    if isinstance(o, Categorical):
        return ["cat", str(o), [str(x) for x in o.levels]]
    if isinstance(o, str):
        return ["s", o]
    if isinstance(o, (bool, int, float, Fraction)):
        try:
            fr = Fraction(o)
        except (ValueError, OverflowError):
            return ["x", repr(o)]
        return ["q", fr.numerator, fr.denominator]
    if isinstance(o, dict) or (isinstance(o, Sparse) and hasattr(o, "items")):
        return ["D", sorted(([canon(k), canon(v)] for k, v in o.items()), key=lambda p: json.dumps(p[0]))]
    if isinstance(o, (list, tuple)) or isinstance(o, Dense):
        return ["L", [canon(x) for x in o]]
    return ["?", repr(o)]


def vkey(c):
    """value identity of a canonical atom as Python's == sees it (a Categorical is its string)"""
    if isinstance(c, list) and c and c[0] == "cat":
        return ["s", c[1]]
    return c


def vkey_deep(c):
    return c


def vkey_res(r):
    return ["v", r[1]] if r[0] == "v" else ["err"]


def to_val(c):
    """canonical atom -> model JSON (Val)"""
    c = vkey(c)
    if c[0] == "s":
        return {"s": c[1]}
    if c[0] == "q":
        return {"q": [c[1], c[2]]}
    raise ValueError("not an atom: %r" % (c,))


def to_label(c):
    """canonical value -> model JSON (Label)"""
    if c[0] == "cat":
        return {"cat": c[1], "levels": c[2]}
    if c[0] == "L":
        return {"l": [to_val(x) for x in c[1]]}
    return {"a": to_val(c)}


def from_val(j):
    return ["s", j["s"]] if "s" in j else ["q", j["q"][0], j["q"][1]]


def from_label(j):
    if "a" in j:
        return from_val(j["a"])
    if "cat" in j:
        return ["cat", j["cat"], list(j["levels"])]
    return ["L", [from_val(x) for x in j["l"]]]


def num_res(v):
    if isinstance(v, (bool, int, float, Fraction)):
        try:
            fr = Fraction(v)
        except (ValueError, OverflowError):
            return ["err", "NotFinite"]
        return ["v", fr.numerator, fr.denominator]
    return ["err", "NotANumber:" + type(v).__name__]


def ename(e):
    return type(e).__name__


# ------------------------------------------------------------------ the examples a case denotes
def norm_index(i, n):
    return i + n if i < 0 else i


def label_index(case):
    """position of the label column for dense sources"""
    lc = case["label_col"]
    if isinstance(lc, str):
        h = case["header"]
        # a repeated header name denotes its last column (HeadRows: dict(zip(headers, count())))
        return len(h) - 1 - h[::-1].index(lc)
    return lc


def arff_value(cell, typ):
    """python value an ARFF cell denotes: numeric -> float, string -> str, nominal -> Categorical"""
    if typ == "num":
        return float(dec(cell))
    if typ == "str":
        return dec(cell)
    from coba.primitives import Categorical
    return Categorical(dec(cell), list(typ))


def sarff_levels(typ):
    return ["0"] + list(typ)      # the sparse ARFF reader prepends the implicit level "0"


def examples(case):
    """[(features, label)] as Python objects: what the data says, computed without coba's pipeline
    (only coba.primitives.Categorical is used as a value type)"""
    src = case["src"]
    rows = case["rows"]
    out = []
    if src == "xy":
        for x, y in rows:
            out.append((dec(x), dec(y)))
    elif src == "rows" and not case.get("sparse"):
        for r in rows:
            vals = [dec(c) for c in r]
            i = norm_index(label_index(case), len(vals))
            out.append((vals[:i] + vals[i + 1:], vals[i]))
    elif src == "rows":
        key = dec(case["label_col"]) if isinstance(case["label_col"], dict) else case["label_col"]
        for r in rows:
            d = {dec(k): dec(v) for k, v in r}
            out.append(({k: v for k, v in d.items() if k != key}, d.get(key, 0)))
    elif src == "csv":
        for r in rows:
            vals = [dec(c) for c in r]
            i = norm_index(label_index(case), len(vals))
            out.append((vals[:i] + vals[i + 1:], vals[i]))
    elif src == "arff":
        for r in rows:
            vals = [arff_value(c, t) for c, t in zip(r, case["types"])]
            i = norm_index(label_index(case), len(vals))
            out.append((vals[:i] + vals[i + 1:], vals[i]))
    elif src == "sarff":
        from coba.primitives import Categorical
        li = label_index(case)
        lname = case["header"][li]
        for r in rows:
            d = {}
            for j, c in r:
                t = case["types"][j]
                d[case["header"][j]] = float(dec(c)) if t == "num" else Categorical(dec(c), sarff_levels(t))
            lab = d.get(lname, 0)
            out.append(({k: v for k, v in d.items() if k != lname}, lab))
    elif src in ("libsvm", "manik"):
        for r in rows:
            out.append(({int(k): float(dec(v)) for k, v in r["feats"]}, list(r["labels"])))
    else:
        raise ValueError(src)
    return out


def reservoir_positions(take, n):
    """positions coba's own Reservoir(take) (default seed) selects from n rows, in output order"""
    from coba.pipes import Reservoir
    return list(Reservoir(take).filter(range(n)))


def label_type_in_force(case, exs):
    lt = case.get("label_type")
    if lt:
        return lt.lower()
    if not exs:
        return None
    if case.get("pre") and case["pre"].get("tipe"):
        return case["pre"]["tipe"].lower()      # no explicit type: the type the labelled source attached
    y = exs[0][1]
    return "r" if isinstance(y, (int, float)) else "c"


# ------------------------------------------------------------------ canonical writers
def fmt_num(v):
    return repr(v)


def csv_text(case):
    buf = io.StringIO()
    w = csv.writer(buf, lineterminator="\n", **(case.get("dialect") or {}))
    if case.get("header"):
        w.writerow(case["header"])
    for r in case["rows"]:
        w.writerow([dec(c) for c in r])
    return buf.getvalue().split("\n")[:-1]


def arff_text(case):
    lines = ["@relation verif"]
    for name, t in zip(case["header"], case["types"]):
        if t == "num":
            lines.append("@attribute %s numeric" % name)
        elif t == "str":
            lines.append("@attribute %s string" % name)
        else:
            lines.append("@attribute %s {%s}" % (name, ",".join(t)))
    lines.append("@data")
    if case["src"] == "arff":
        for r in case["rows"]:
            lines.append(",".join(fmt_num(dec(c)) if t == "num" else dec(c) for c, t in zip(r, case["types"])))
    else:
        for r in case["rows"]:
            lines.append("{" + ",".join("%d %s" % (j, fmt_num(dec(c)) if case["types"][j] == "num" else dec(c)) for j, c in r) + "}")
    return lines


def libsvm_text(case):
    lines = []
    if case["src"] == "manik":
        nf = 1 + max([int(k) for r in case["rows"] for k, _ in r["feats"]] + [0])
        nl = len({l for r in case["rows"] for l in r["labels"]})
        lines.append("%d %d %d" % (len(case["rows"]), nf, nl))
    for r in case["rows"]:
        lines.append(" ".join([",".join(r["labels"])] + ["%d:%s" % (int(k), fmt_num(dec(v))) for k, v in r["feats"]]))
    return lines


# ------------------------------------------------------------------ running the real code
def build_env(case, tmp):
    from coba.environments import Environments, SupervisedSimulation, CsvSource, ArffSource, LibSvmSource, ManikSource
    from coba.pipes import IterableSource, ListSource
    src = case["src"]
    lt = case.get("label_type")
    ctor = (lambda *a, **k: Environments.from_supervised(*a, **k)[0]) if case.get("via") == "env" else SupervisedSimulation
    if src == "xy":
        X = [dec(x) for x, _ in case["rows"]]
        Y = [dec(y) for _, y in case["rows"]]
        if case.get("xy_as"):
            X, Y = hand_over(X, case["xy_as"][0]), hand_over(Y, case["xy_as"][1])
        if case.get("kw"):
            return ctor(X, Y, label_type=lt) if lt is not None or case.get("explicit_none") else ctor(X, Y)
        return ctor(X, Y, lt) if lt is not None or case.get("explicit_none") else ctor(X, Y)
    if src == "rows":
        if case.get("sparse"):
            source = ListSource([{dec(k): dec(v) for k, v in r} for r in case["rows"]])
            lc = dec(case["label_col"]) if isinstance(case["label_col"], dict) else case["label_col"]
        else:
            source = ListSource([[dec(c) for c in r] for r in case["rows"]])
            lc = case["label_col"]
    else:
        lines = csv_text(case) if src == "csv" else arff_text(case) if src in ("arff", "sarff") else libsvm_text(case)
        if case.get("file"):
            path = os.path.join(tmp, "data." + src)
            with open(path, "w", encoding="utf-8", newline="") as f:
                f.write("\n".join(lines) + "\n")
            inner = path
            _HANDLES.update(path=path, lines=None)
        else:
            held = [l + case["eol"] for l in lines] if case.get("eol") else lines
            inner = IterableSource(held)
            _HANDLES.update(path=None, lines=held)
        if src == "csv":
            source = CsvSource(inner, has_header=bool(case.get("header")), **(case.get("dialect") or {}))
        elif src in ("arff", "sarff"):
            source = ArffSource(inner)
        elif src == "libsvm":
            source = LibSvmSource(inner)
        else:
            source = ManikSource(inner)
        lc = case.get("label_col")
    if case.get("pre") is not None:
        from coba.pipes import Pipes, LabelRows
        source = Pipes.join(source, LabelRows(lc, case["pre"].get("tipe")))
        lc = None
    take = case.get("take")
    if case.get("kw"):
        kw = {"source": source}
        if lc is not None:
            kw["label_col"] = lc
        if lt is not None:
            kw["label_type"] = lt
        if take is not None:
            kw["take"] = take
        return ctor(**kw)
    if case.get("pos_min"):
        # phase 5: the shortest positional call (trailing Nones left out: the constructor's defaults take their place), or
        # ("mixed") the source positionally and the rest by keyword
        args = [source, lc, lt, take]
        if case["pos_min"] == "mixed":
            return ctor(source, **{k: v for k, v in (("label_col", lc), ("label_type", lt), ("take", take)) if v is not None})
        while len(args) > 1 and args[-1] is None:
            args.pop()
        return ctor(*args)
    return ctor(source, lc, lt, take)


_HANDLES = {}


def permutable(case):
    """a dense text table with a header whose label column is named: its columns can be written in another order without
    changing any example (features are named, the label is found by name)"""
    return (case.get("src") in ("csv", "arff") and case.get("header") and isinstance(case.get("label_col"), str)
            and len(case["header"]) >= 2 and not case.get("edge") and case["header"].count(case["label_col"]) == 1)


def permute_columns(case):
    """the same table with its last column written first"""
    rot = lambda r: r[-1:] + r[:-1]
    c = dict(case, header=rot(case["header"]), rows=[rot(r) for r in case["rows"]])
    if case.get("types"):
        c["types"] = rot(case["types"])
    return c


def rewrite_source(case, handles):
    lines = csv_text(case) if case["src"] == "csv" else arff_text(case)
    if handles.get("path"):
        with open(handles["path"], "w", encoding="utf-8", newline="") as f:
            f.write("\n".join(lines) + "\n")
    elif handles.get("lines") is not None:
        handles["lines"][:] = [l + case["eol"] for l in lines] if case.get("eol") else lines


def hand_over(seq, how):
    """the examples handed to SupervisedSimulation(X, Y) as a list, a tuple, or a one-shot iterable (generator expression,
    map object, list iterator): the simulation is the examples' bandit form on every read, however they were handed over"""
    if how == "tuple":
        return tuple(seq)
    if how == "gen":
        return (v for v in seq)
    if how == "map":
        return map(lambda v: v, seq)
    if how == "iter":
        return iter(seq)
    return list(seq)


ONE_SHOT = ("gen", "map", "iter")


def access_keys(case):
    """how the contexts of this case can be addressed beside iteration: {"names": [feature header names / keys],
    "label": the label column's header name / key, "dense": bool} or None (contexts are the caller's own objects)"""
    src = case["src"]
    if case.get("edge_kind") == "duplicate-header":
        return None
    if src in ("csv", "arff", "sarff") or (src == "rows" and not case.get("sparse")):
        hdr = case.get("header")
        if not hdr:
            return {"names": [], "label": None, "dense": True}
        li = label_index(case)
        li = norm_index(li, len(hdr))
        return {"names": [h for j, h in enumerate(hdr) if j != li], "label": hdr[li], "dense": src != "sarff"}
    if src == "rows":
        key = dec(case["label_col"])
        names = []
        for r in case["rows"]:
            for k, _ in r:
                if dec(k) != key and dec(k) not in names:
                    names.append(dec(k))
        return {"names": names, "label": key, "dense": False}
    return None


def try_get(f):
    try:
        return ["v", canon(f())]
    except Exception as e:
        return ["err", ename(e)]


def observe_access(ctx, keys):
    """the context addressed by position, by every feature name / key, by the label's name / key, and its .headers"""
    acc = {}
    if keys["dense"]:
        n = try_get(lambda: len(ctx))
        acc["len"] = n
        if n[0] == "v":
            acc["pos"] = [try_get(lambda j=j: ctx[j]) for j in range(n[1][1])]
        try:
            h = ctx.headers
            acc["headers"] = sorted(([k, v] for k, v in dict(h).items()), key=lambda p: p[1]) if h else []
        except Exception:
            acc["headers"] = None
    acc["names"] = [[canon(k), try_get(lambda k=k: ctx[k])] for k in keys["names"]]
    if keys["label"] is not None:
        acc["label"] = try_get(lambda: ctx[keys["label"]])
    return acc


def observe(env, probes, keys=None, keep=None):
    """one read of the environment -> canonical observation"""
    try:
        ints = list(env.read())
    except Exception as e:
        return {"err": ename(e)}
    if keep is not None:
        keep[:] = ints
    out = []
    for it in ints:
        o = {"ctx": None, "ctx_err": None}
        try:
            o["ctx"] = canon(it["context"])
        except Exception as e:
            o["ctx_err"] = ename(e)
        if keys is not None and not o["ctx_err"]:
            o["acc"] = observe_access(it["context"], keys)
        acts = list(it["actions"])
        o["actions"] = [canon(a) for a in acts]
        rw = it["rewards"]
        o["on_actions"] = [apply_reward(rw, a) for a in acts]
        o["on_probes"] = [apply_reward(rw, p) for p in probes]
        o["copies"] = observe_copies(rw, acts, probes, o["on_actions"])
        out.append(o)
    return {"ints": out}


def actions_in_other_process(case):
    """the action list of the first interaction as a fresh interpreter with another string-hash seed computes it"""
    import subprocess
    import sys
    code = ("import sys,json,warnings; warnings.filterwarnings('ignore'); sys.path.insert(0,%r); sys.path.insert(0,%r);"
            "from props.c14 import run_impl, vkey; o=run_impl(json.loads(sys.stdin.read()),[],1)[0];"
            "print(json.dumps([vkey(a) for a in o['ints'][0]['actions']] if 'ints' in o and o['ints'] else None))"
            % (os.environ.get("COBA_REPO", "/repo"), os.path.join(lean.VERIF, "harness")))
    env = dict(os.environ, PYTHONHASHSEED="4242", PYTHONWARNINGS="ignore")
    try:
        p = subprocess.run([sys.executable, "-W", "ignore", "-c", code], input=json.dumps(case), capture_output=True, text=True, timeout=50, env=env)
        return json.loads(p.stdout.strip().splitlines()[-1]) if p.returncode == 0 and p.stdout.strip() else None
    except Exception:
        return None


def copy_methods():
    import copy
    import pickle
    from coba.json import dumps, loads
    return [("pickle", lambda x: pickle.loads(pickle.dumps(x))), ("deepcopy", copy.deepcopy), ("json", lambda x: loads(dumps(x)))]


def observe_copies(rw, acts, probes, on_actions):
    """the reward object after a trip through pickle / copy.deepcopy / coba.json (what happens to interactions that are cached,
    sent to worker processes or saved), evaluated on the same actions and probes; and the same for a DiscreteReward that tabulates
    the offered actions"""
    out = {"cls": type(rw).__name__}
    disc = None
    if acts and all(r[0] == "v" for r in on_actions):
        try:
            from coba.primitives import DiscreteReward
            hashable = all(not isinstance(a, (list, dict)) for a in acts)
            vals = [r[1] / r[2] if r[2] != 1 else r[1] for r in on_actions]
            disc = DiscreteReward(list(acts), vals)
            out["disc0"] = [apply_reward(disc, a) for a in acts]
        except Exception as e:
            out["disc0"] = ["ctor-err", ename(e)]
            disc = None
    for name, f in copy_methods():
        try:
            c = f(rw)
            out[name] = {"on_actions": [apply_reward(c, a) for a in acts], "on_probes": [apply_reward(c, p) for p in probes]}
        except Exception as e:
            out[name] = {"err": ename(e)}
        if disc is not None:
            try:
                d = f(disc)
                out[name]["disc"] = [apply_reward(d, a) for a in acts]
            except Exception as e:
                out[name]["disc"] = ["err", ename(e)]
    return out


def apply_reward(rw, a):
    try:
        v = rw(a)
    except Exception as e:
        return ["err", ename(e)]
    return num_res(v)


def run_impl(case, probes, reads=2):
    from coba.context import CobaContext
    tmp = tempfile.mkdtemp(prefix="c14-") if case.get("file") else None
    try:
        try:
            env = build_env(case, tmp)
        except Exception as e:
            return [{"err": "ctor:" + ename(e)}] * reads
        keys = access_keys(case)
        if case.get("abandon"):
            # a history: a first read that is abandoned after `abandon` interactions (a consumer that only peeks, or stops
            # early); the reads observed afterwards must still be the examples' bandit form
            try:
                it = iter(env.read())
                for _ in range(case["abandon"]):
                    next(it, None)
                if hasattr(it, "close"):
                    it.close()
                del it
            except Exception:
                pass
        if case.get("hist") and reads == 2:
            return run_history(case, env, probes, keys)
        return [observe(env, probes, keys) for _ in range(reads)]
    finally:
        if tmp:
            shutil.rmtree(tmp, ignore_errors=True)


# ------------------------------------------------------------------ phase 6: operation histories over an environment and a sibling
HISTORIES = [
    ["R", "S", "R"],                    # read, read a sibling, read again
    ["a1", "S", "R", "Sa", "R"],        # abandon, sibling, read, abandon the sibling, read again
    ["R", "mA", "R"],                   # the consumer edits the action list it was handed, then reads again
    ["f", "f", "R", "a1", "R"],         # the third read, and the fifth after an abandoned fourth
    ["S", "R", "mA", "S", "R"],         # sibling first; the sibling is read again after the consumer's edit
    ["R", "a1", "S", "f", "R"],         # read, abandon, sibling, unobserved read, read
    ["R", "mA", "a2", "S", "mA", "R"],  # edits of handed-out lists of both environments around an abandoned read
]
# round i (C14-im2): the source's text is rewritten between two reads with the columns in another order ("P"); the label is named
P_HISTORIES = [
    ["R", "P", "R"],
    ["R", "a1", "P", "f", "R"],
    ["f", "R", "P", "S", "R"],
    ["R", "P", "P", "a1", "R"],
]
JUNK_ACTION = "~edited-by-the-consumer~"


def sibling_of(case):
    """a second environment of the same kind over other examples (the same examples in reverse order without the first one):
    same source kind, label column, label type, take, call form"""
    rows = list(reversed(case["rows"]))
    if len(rows) >= 2:
        rows = rows[:-1]
    return {k: v for k, v in dict(case, rows=rows).items() if k not in ("hist", "abandon")}


def abandon_read(env, k):
    try:
        it = iter(env.read())
        for _ in range(k):
            next(it, None)
        if hasattr(it, "close"):
            it.close()
        del it
    except Exception:
        pass


def edit_handed_out(ints):
    """what a careless consumer may do with the data of a finished read: it edits the action list it was handed"""
    done = set()
    for it in ints:
        acts = it.get("actions") if isinstance(it, dict) else None
        if isinstance(acts, list) and id(acts) not in done:
            done.add(id(acts))
            acts.append(JUNK_ACTION)
            acts.reverse()


def run_history(case, env, probes, keys):
    """the two observed reads of `env` ("R") inside a history of other operations: f = unobserved full read, a<k> = read abandoned after k
    interactions, S = observed full read of the sibling, Sa = abandoned read of the sibling, mA = the consumer edits the action lists handed
    out by the last finished observed read. Whatever happened before, a read is the bandit form of that environment's examples."""
    sib_case = sibling_of(case)
    sib_tmp = tempfile.mkdtemp(prefix="c14-") if sib_case.get("file") else None
    out, sib_obs = [], []
    handles = dict(_HANDLES)
    cur, at = case, []
    try:
        sib = None
        last = []
        for op in case["hist"]:
            if op == "P":
                if permutable(cur):
                    cur = permute_columns(cur)
                    rewrite_source(cur, handles)
                    keys = access_keys(cur)
                continue
            if op.startswith("S") and sib is None:
                try:
                    sib = build_env(sib_case, sib_tmp)
                except Exception as e:
                    sib = e
            if op == "R":
                last = []
                at.append(cur)
                out.append(observe(env, probes, keys, keep=last))
            elif op == "f":
                try:
                    list(env.read())
                except Exception:
                    pass
            elif op.startswith("a"):
                abandon_read(env, int(op[1:]))
            elif op == "S":
                if isinstance(sib, Exception):
                    sib_obs.append({"err": "ctor:" + ename(sib)})
                else:
                    last = []
                    sib_obs.append(observe(sib, [], access_keys(sib_case), keep=last))
            elif op == "Sa":
                if not isinstance(sib, Exception):
                    abandon_read(sib, 1)
            elif op == "mA":
                edit_handed_out(last)
        while len(out) < 2:
            at.append(cur)
            out.append(observe(env, probes, keys))
        out[0]["sibling"] = sib_obs
        out[0]["cases_at"] = at
        return out
    finally:
        if sib_tmp:
            shutil.rmtree(sib_tmp, ignore_errors=True)


# ------------------------------------------------------------------ expectation (the statement, directly)
def delist(y):
    return y[0] if isinstance(y, list) else y


def expectation(case):
    """what the statement demands for this case: selected examples, label type, per-example label info"""
    exs = examples(case)
    take = case.get("take")
    idxs = None
    if take is not None and case["src"] != "xy":
        idxs = reservoir_positions(take, len(exs))
        exs = [exs[i] for i in idxs]
    lt = label_type_in_force(case, exs)
    e = {"lt": lt, "idxs": idxs, "feats": [canon(x) for x, _ in exs], "labels": [canon(y) for _, y in exs], "n": len(exs)}
    if lt == "c" and not case.get("edge"):
        e["lab"] = [vkey(canon(delist(y))) for _, y in exs]
        first = exs[0][1] if exs else None
        e["levels"] = canon(first)[2] if exs and canon(first)[0] == "cat" else None
    elif lt == "r" and not case.get("edge"):
        e["y"] = [y for _, y in exs]
    elif lt == "m" and not case.get("edge"):
        e["set"] = [[vkey(canon(v)) for v in y] for _, y in exs]
    return e


def make_probes(case, exp, rng):
    """actions the reward functions are evaluated on (beside every offered action): Python objects"""
    lt = exp["lt"]
    if lt == "c":
        labs = [delist(dec_canon(l)) if l[0] != "L" or l[1] else None for l in exp["labels"]]
        if any(isinstance(v, (int, float)) for v in labs):
            nums = [v for v in labs if isinstance(v, (int, float))]
            return [max(nums) + 1, FOREIGN_S]
        return [FOREIGN_S, 7]
    if lt == "r":
        ys = [dec_canon(l) for l in exp["labels"] if l[0] == "q"]
        exact_only = any(isinstance(y, Fraction) or (isinstance(y, int) and abs(y) >= 2 ** 52) for y in ys)
        if exact_only:
            # int/Fraction arithmetic is exact in Python: every reward is compared exactly, at small distances from the target
            ps = [0, 1, -3]
            for y in ys[:4]:
                ps += [y, y + 1, y - 1, y + 3] if not isinstance(y, float) else [int(y)]
            return ps[:16]
        ps = [0, 1, -3, 2.5]
        for y in ys[:4]:
            ps += [y, y + 1, y - 0.5]
        return ps[:12]
    if lt == "m":
        uni = []
        for l in exp["labels"]:
            if l[0] == "L":
                for v in l[1]:
                    pv = dec_canon(v)
                    if pv not in uni:
                        uni.append(pv)
        foreign = FOREIGN_S if not uni or isinstance(uni[0], str) else max(uni) + 1
        ps = [[], list(uni), list(reversed(uni)), [foreign], list(uni) + [foreign]]
        for l in exp["labels"][:4]:
            if l[0] == "L":
                own = [dec_canon(v) for v in l[1]]
                ps.append(list(own))
                ps.append(list(reversed(own)) + [foreign])
                if own:
                    ps.append(own[:-1] + [foreign])                     # same size, one member swapped
                    others = [v for v in uni if v not in own]
                    if others:
                        ps.append(own[1:] + [others[0]])
        for _ in range(3):
            ps.append([v for v in uni if rng.chance(0.5)])
        # drop duplicates inside a probe (an action is a label *set*); keep order
        out = []
        for p in ps:
            q = []
            for v in p:
                if v not in q:
                    q.append(v)
            if q not in out:
                out.append(q)
        return out[:16]
    return []


def dec_canon(c):
    """canonical atom/list -> plain Python value (Categorical becomes its string)"""
    if c is None:
        return None
    if c[0] == "s":
        return c[1]
    if c[0] == "cat":
        return c[1]
    if c[0] == "q":
        if c[2] == 1:
            return c[1]
        return c[1] / c[2] if c[2] & (c[2] - 1) == 0 and abs(c[1]) < 2 ** 53 else Fraction(c[1], c[2])
    if c[0] == "L":
        return [dec_canon(x) for x in c[1]]
    raise ValueError(c)


def probe_json(p):
    if isinstance(p, list):
        return {"many": [to_val(canon(v)) for v in p]}
    return {"one": to_val(canon(p))}


def jaccard(a, l):
    a = [json.dumps(x) for x in a]
    l = [json.dumps(x) for x in l]
    inter = len(set(a) & set(l))
    union = len(set(a) | set(l))
    return None if union == 0 else inter / union


def res_is(res, value):
    """res (canonical reward result) is the number `value` (float/int, compared exactly)"""
    if res[0] != "v":
        return False
    # exact; for values in [0,1] (Jaccard: the model gives the exact rational, the statement's formula a double) equal after rounding to double
    if Fraction(res[1], res[2]) == Fraction(value):
        return True
    return abs(Fraction(value)) < 2 ** 50 and abs(Fraction(res[1], res[2])) < 2 ** 50 and res[1] / res[2] == float(value)


def monitor(obs, exp, probes, case, readno, who="impl"):
    """the statement of C14 evaluated on one observation.  Returns [(sig, what, skip)] where skip
    names the observables of this read whose correspondence is covered by the same finding."""
    fails = []
    src = case["src"]
    tag = "read%d" % readno

    def fail(sig, what, skip=()):
        fails.append((sig, "%s (%s, %s of %s)" % (what, who, tag, describe(case)), tuple(skip)))

    if "err" in obs:
        if obs["err"] == "ValueError" and isinstance(case.get("label_col"), int) and case["label_col"] < 0 and case.get("via") == "env":
            # the same defect as context-raises below: Finalize materialises the context while reading
            fail("context-raises:ValueError:negative-label-index", "reading the environment raised ValueError while materialising a context (label_col=%r)" % case["label_col"], ["all"])
        else:
            fail("read-raises:%s:%s" % (obs["err"], src), "reading the environment raised %s" % obs["err"], ["all"])
        return fails
    ints = obs["ints"]
    n = exp["n"]
    if len(ints) != n:
        if src == "xy" and (case.get("abandon") or any(h in ONE_SHOT for h in case.get("xy_as") or [])) and (readno == 1 or case.get("abandon")):
            fail("xy-reread-length:%s" % ("after-abandoned-read" if case.get("abandon") and readno == 0 else "later-read"),
                 "SupervisedSimulation(X,Y) with X,Y handed over as %s yields %d interactions for %d examples on read #%d%s"
                 % (case.get("xy_as") or "lists", len(ints), n, readno + 1 + (1 if case.get("abandon") else 0),
                    " (the first read was abandoned after %d interaction(s))" % case["abandon"] if case.get("abandon") else ""), ["all"])
        elif src == "xy" and readno == 1 and len(ints) == 0 and n > 0:
            fail("xy-second-read-empty", "SupervisedSimulation(X,Y) yields %d interactions on the first read and 0 on the second" % n, ["all"])
        else:
            fail("length%s" % (":take" if case.get("take") is not None else ""),
                 "%d interactions for %d examples%s" % (len(ints), n, " (reservoir positions %s)" % exp["idxs"] if exp["idxs"] is not None else ""), ["all"])
        return fails
    lt = exp["lt"]
    # contexts: exactly the features without the label, in the examples' order
    for i, it in enumerate(ints):
        if it["ctx_err"]:
            neg = isinstance(case.get("label_col"), int) and case["label_col"] < 0
            fail("context-raises:%s%s" % (it["ctx_err"], ":negative-label-index" if neg else ":" + src),
                 "reading the context of interaction %d raised %s (label_col=%r)" % (i, it["ctx_err"], case.get("label_col")), ["ctx"])
            break
        if it["ctx"] != exp["feats"][i]:
            sig = "context:" + src
            if src == "sarff" and isinstance(case.get("label_col"), int) and it["ctx"] == with_label(exp, i, case):
                sig = "context-keeps-label:sarff-int-label"
            elif any(it["ctx"] == f for f in exp["feats"]):
                sig = "order" + (":take" if case.get("take") is not None else "")
            fail(sig, "context of interaction %d is %s, the example's features are %s" % (i, short(it["ctx"]), short(exp["feats"][i])), ["ctx"])
            break
    # the context addressed in other ways than iteration: by position and by feature name it gives the features,
    # by the label column's name / key it gives nothing (the true label cannot be read out of the context)
    if not case.get("edge") and not any("ctx" in f[2] for f in fails):
        for i, it in enumerate(ints):
            acc = it.get("acc")
            if not acc:
                continue
            f = exp["feats"][i]
            if "label" in acc and acc["label"][0] == "v":
                fail("context-leaks-label:" + src, "context[%r] of interaction %d gives %s; the label column must not be readable from the context (true label %s)"
                     % (access_keys(case)["label"], i, short(acc["label"][1]), short(exp["labels"][i])), ["acc"])
                break
            if f[0] == "L":
                if acc.get("len") != ["v", ["q", len(f[1]), 1]]:
                    fail("context-length:" + src, "len(context) of interaction %d is %s for %d features" % (i, short(acc.get("len")), len(f[1])), ["acc"])
                    break
                if [p[1] if p[0] == "v" else p for p in acc.get("pos", [])] != f[1]:
                    fail("context-by-position:" + src, "context[j] of interaction %d gives %s, the features are %s" % (i, short(acc.get("pos")), short(f[1])), ["acc"])
                    break
                if acc.get("headers"):
                    names = access_keys(case)["names"]
                    if [h[0] for h in acc["headers"]] != names or [h[1] for h in acc["headers"]] != list(range(len(names))):
                        fail("context-headers:" + src, "context.headers of interaction %d is %s, the feature columns are %s" % (i, short(acc["headers"]), short(names)), ["acc"])
                        break
                    got = [r[1] if r[0] == "v" else r for _, r in acc["names"]]
                    if got != f[1]:
                        fail("context-by-name:" + src, "context[name] for the feature names %s of interaction %d gives %s, the features are %s" % (short(names), i, short(got), short(f[1])), ["acc"])
                        break
            elif f[0] == "D":
                want = {json.dumps(k): v for k, v in f[1]}
                bad = [(k, r) for k, r in acc["names"] if json.dumps(k) in want and r != ["v", want[json.dumps(k)]]]
                bad += [(k, r) for k, r in acc["names"] if json.dumps(k) not in want and r[0] == "v" and r[1] != ["q", 0, 1]]
                if bad:
                    fail("context-by-key:" + src, "context[%s] of interaction %d gives %s, the features are %s" % (short(bad[0][0]), i, short(bad[0][1]), short(f)), ["acc"])
                    break
    # the reward clause must still hold after the reward object went through pickle / deepcopy / coba.json: the copy must give
    # what the original gives (the original itself is checked against the statement below)
    if not case.get("edge"):
        fraction_labels = any(l and l[0] == "q" and l[2] & (l[2] - 1) for l in exp["labels"])
        for i, it in enumerate(ints):
            cp = it.get("copies")
            if not cp:
                continue
            bad = None
            for name in ("pickle", "deepcopy", "json"):
                c = cp.get(name)
                if c is None:
                    continue
                if "err" in c:
                    if name == "json" and fraction_labels:
                        continue        # coba.json carries literal types only; a Fraction target is not supported by the unchanged code either
                    bad = (name, cp["cls"], "copying raised %s" % c["err"])
                    break
                if c["on_actions"] != it["on_actions"] or c["on_probes"] != it["on_probes"]:
                    k = next((k for k, (x, y) in enumerate(zip(c["on_actions"] + c["on_probes"], it["on_actions"] + it["on_probes"])) if x != y), 0)
                    allv = (it["actions"] + [canon(p) for p in probes])
                    bad = (name, cp["cls"], "the copy rewards %s with %s, the original with %s" % (short(allv[k]) if k < len(allv) else k,
                           short((c["on_actions"] + c["on_probes"])[k]), short((it["on_actions"] + it["on_probes"])[k])))
                    break
                if "disc" in c and isinstance(cp.get("disc0"), list) and cp["disc0"] and cp["disc0"][0] != "ctor-err" and c["disc"] != cp["disc0"]:
                    bad = (name, "DiscreteReward", "a DiscreteReward over the offered actions gives %s before and %s after the copy" % (short(cp["disc0"]), short(c["disc"])))
                    break
            if bad:
                fail("reward-copy:%s:%s" % (bad[0], bad[1]), "interaction %d (label %s): after %s of the reward object %s" % (i, short(exp["labels"][i]), bad[0], bad[2]), ["copies"])
                break
    if case.get("edge") or lt is None:
        return fails
    # the same action list everywhere
    acts = ints[0]["actions"] if ints else []
    for i, it in enumerate(ints):
        if it["actions"] != acts:
            fail("actions-differ", "interaction %d offers %s, interaction 0 offers %s" % (i, short(it["actions"]), short(acts)), ["actions"])
            break
    akeys = [vkey(a) for a in acts]
    if lt == "c":
        distinct = []
        for v in exp["lab"]:
            if v not in distinct:
                distinct.append(v)
        dup = len({json.dumps(a) for a in akeys}) != len(akeys)
        missing = [v for v in distinct if v not in akeys]
        extra = [a for a in akeys if a not in distinct]
        if ints and (dup or missing):
            fail("actions-not-distinct-labels:%s" % ("dup" if dup else "missing"),
                 "actions %s; distinct labels of the data %s" % (short(acts), short(distinct)), ["actions"])
        elif ints and extra:
            if exp.get("levels") is not None and all(a[0] == "s" and a[1] in exp["levels"] for a in extra):
                fail("categorical-unused-level-offered",
                     "actions %s include the level(s) %s that no example carries; distinct labels %s" % (short(acts), short(extra), short(distinct)), ["actions"])
            else:
                fail("actions-not-distinct-labels:extra", "actions %s; distinct labels of the data %s" % (short(acts), short(distinct)), ["actions"])
        for i, it in enumerate(ints):
            lab = exp["lab"][i]
            bad = None
            for a, r in zip(akeys, it["on_actions"]):
                if not res_is(r, 1 if a == lab else 0):
                    bad = "reward of action %s is %s, the example's label is %s" % (short(a), short(r), short(lab))
                    break
            if bad is None:
                for p, r in zip(probes, it["on_probes"]):
                    if not res_is(r, 1 if vkey(canon(p)) == lab else 0):
                        bad = "reward of the non-label value %r is %s (label %s)" % (p, short(r), short(lab))
                        break
            if bad:
                fail("reward-c:%s" % ("cat" if exp.get("levels") is not None else "plain"), "interaction %d: %s" % (i, bad), ["rewards"])
                break
    elif lt == "r":
        for i, it in enumerate(ints):
            y = exp["y"][i]
            bad = None
            for p, r in zip(probes, it["on_probes"]):
                want = -abs(p - y)
                if not res_is(r, want):
                    bad = "reward of %r is %s, -|a-y| = %r (y=%r)" % (p, short(r), want, y)
                    break
            if bad:
                fail("reward-r", "interaction %d: %s" % (i, bad), ["rewards"])
                break
    elif lt == "m":
        uni = []
        for s in exp["set"]:
            for v in s:
                if v not in uni:
                    uni.append(v)
        dup = len({json.dumps(a) for a in akeys}) != len(akeys)
        if ints and (dup or sorted(map(json.dumps, akeys)) != sorted(map(json.dumps, uni))):
            fail("actions-not-distinct-labels:m", "actions %s; distinct labels of the data %s" % (short(acts), short(uni)), ["actions"])
        for i, it in enumerate(ints):
            L = exp["set"][i]
            for p, r in zip(probes, it["on_probes"]):
                want = jaccard([vkey(canon(v)) for v in p], L)
                if want is None:
                    continue        # both sets empty: the overlap is undefined
                if not res_is(r, want):
                    if not L and r == ["err", "IndexError"]:
                        sig, sk = "reward-m:empty-label-set-IndexError", ["rewards%d" % i]
                    else:
                        sig, sk = "reward-m:label-set-action", ["rewards"]
                    fail(sig, "interaction %d: reward of the label set %r is %s, Jaccard overlap with %s is %r" % (i, p, short(r), short(L), want), sk)
                    break
            for a, r in zip(akeys, it["on_actions"]):
                want = jaccard([a], L)
                if not res_is(r, want):
                    if not L and r == ["err", "IndexError"]:
                        sig, sk = "reward-m:empty-label-set-IndexError", ["rewards%d" % i]
                    elif r[0] == "err":
                        sig, sk = "reward-m:offered-action-raises-" + r[1], ["on_actions"]
                    elif a[0] == "s" and len(a[1]) != 1:
                        sig, sk = "reward-m:offered-string-action-scored-by-characters", ["on_actions"]
                    else:
                        sig, sk = "reward-m:offered-action", ["on_actions"]
                    fail(sig, "interaction %d: reward of the offered action %s is %s, Jaccard overlap of {%s} with %s is %r" % (i, short(a), short(r), short(a), short(L), want), sk)
                    break
    return fails


def with_label(exp, i, case):
    """features + label item (what a context looks like when the label was not removed)"""
    f = exp["feats"][i]
    if f[0] != "D":
        return None
    name = case["header"][case["label_col"]]
    lab = exp["labels"][i]
    if lab == ["q", 0, 1]:
        return f          # an absent label stays absent
    return ["D", sorted(f[1] + [[["s", name], lab]], key=lambda p: json.dumps(p[0]))]


def short(x):
    s = json.dumps(x, ensure_ascii=False, default=str)
    return s if len(s) < 160 else s[:157] + "..."


def describe(case):
    extra = ""
    if case.get("pre") is not None:
        extra += " pre-labelled tipe=%r" % case["pre"].get("tipe")
    if case.get("dialect"):
        extra += " dialect=%r" % case["dialect"]
    return "src=%s n=%d label_type=%r label_col=%r take=%r via=%s%s" % (case["src"], len(case["rows"]), case.get("label_type"),
                                                                         case.get("label_col"), case.get("take"), case.get("via", "sim"), extra)


# ------------------------------------------------------------------ the Lean model's view
def reservoir_request(k, n):
    """what the model's reservoir (Model/C09, seed 1) needs: the count and the float quantities (skip, slot)
    of the loop iterations, recomputed with the code's own formulas from the LCG uniforms (harness of C09)"""
    from props.c09 import reservoir_steps, lcg
    steps = []
    if 1 <= k <= n:
        state = 1                      # CobaRandom(1)
        for _ in range(max(0, k - 1)):  # the initial shuffle of the k reservoir slots draws k-1 uniforms
            state = lcg(state)
        steps = reservoir_steps(state, k, n - k)[0]
    return {"k": k, "steps": steps}


def text_request(case, probes, req):
    """the model reads the text itself (C12 reader model) when the case is inside what those models cover; with take the
    model also samples the reader's rows itself (C09 reservoir) before LabelRows / read"""
    src = case["src"]
    if case.get("pre") is not None:
        return None
    take = case.get("take")
    lc = case.get("label_col")
    label = {"name": lc} if isinstance(lc, str) else {"i": lc}
    res = {"res": reservoir_request(take, len(case["rows"]))} if take is not None else {}
    if src == "csv":
        delim = (case.get("dialect") or {}).get("delimiter", ",")
        lines = csv_text(case)
        if case.get("eol"):
            lines = [l + case["eol"] for l in lines]
        return dict(req, op="csv_text" if take is None else "csv_take", lines=lines, delim=ord(delim), header=bool(case.get("header")), label=label, **res)
    if src in ("libsvm", "manik"):
        return dict(req, op="svm_text" if take is None else "svm_take", lines=libsvm_text(case), manik=src == "manik", **res)
    if src == "arff" and take is None and len(json.dumps(case, sort_keys=True)) % 2 == 0:
        # the reader's simple path with header lines and data lines handed over separately (phase 2)
        lines = arff_text(case)
        k = lines.index("@data")
        return dict(req, op="arff_text", attr_lines=[l for l in lines[:k] if l.startswith("@attribute")], data_lines=lines[k + 1:], label=label)
    if src in ("arff", "sarff"):
        # the whole file (relation line, attribute lines, @data, dense or sparse data lines) through C12's arffRead
        return dict(req, op="arff_file", lines=arff_text(case), label=label, **res)
    return None


def model_request(case, probes):
    src = case["src"]
    lt = case.get("label_type")
    exs_all = examples(case)
    take = case.get("take")
    tipe = (case.get("pre") or {}).get("tipe")
    # the label-type literal goes to the driver as the caller wrote it ("C", "m" ...): the model's parseLType is `.lower()`
    raw = lambda t: (t if t in LT_LITERALS else t.lower()) if t else None
    req = {"given": raw(lt), "tipe": raw(tipe), "take": None, "probes": [probe_json(p) for p in probes]}
    treq = text_request(case, probes, req)
    if treq is not None:
        return treq
    if take is not None and src != "xy":
        req["res"] = reservoir_request(take, len(exs_all))
    dense = src in ("csv", "arff") or (src == "rows" and not case.get("sparse"))
    if dense:
        rows = []
        for (feats, lab) in exs_all:
            i = norm_index(label_index(case), len(feats) + 1)
            cells = [to_label(canon(v)) for v in feats]
            cells.insert(i, to_label(canon(lab)))
            rows.append(cells)
        req.update(op="dense", ind=label_index(case), rows=rows)
        if case.get("header") and case.get("edge_kind") != "duplicate-header":
            req["header"] = list(case["header"])
        if src in ("csv", "rows") and take is None and case.get("edge_kind") != "duplicate-header":
            req["lazy"] = True      # list-backed rows: the C13 model of the lazy context object is evaluated too
    elif src in ("sarff", "rows"):
        if src == "sarff":
            key = canon(case["header"][label_index(case)])
            li = label_index(case)
            rows = []
            for r in case["rows"]:
                row = []
                for j, c in r:
                    t = case["types"][j]
                    v = canon(float(dec(c))) if t == "num" else ["cat", dec(c), sarff_levels(t)]
                    row.append([to_val(canon(case["header"][j])), to_label(v)])
                rows.append(row)
        else:
            key = canon(dec(case["label_col"]) if isinstance(case["label_col"], dict) else case["label_col"])
            rows = [[[to_val(canon(dec(k))), to_label(canon(dec(v)))] for k, v in r] for r in case["rows"]]
        req.update(op="sparse", key=to_val(key), rows=rows)
    else:
        req.update(op="pairs", rows=[[canon(x), to_label(canon(y))] for x, y in exs_all])
    return req


def model_obs(ans, op):
    m = ans["model"]
    if "err" in m:
        return {"err": m["err"]}
    if op == "arff_file":
        op = "dense" if ans.get("shape") == "dense" else "sparse"
    out = []
    for it in m["ints"]:
        if op == "pairs":
            ctx = it["context"]
        elif op in ("svm_text", "svm_take"):
            ctx = ["D", sorted(([canon(int(k)), canon(float(v))] for k, v in it["context"]), key=lambda p: json.dumps(p[0]))]
        elif op in ("dense", "csv_text", "arff_text", "csv_take"):
            ctx = ["L", [from_label(c) for c in it["context"]]]
        else:
            ctx = ["D", sorted(([from_val(k), from_label(v)] for k, v in it["context"]), key=lambda p: json.dumps(p[0]))]
        res = lambda r: ["v", r["v"][0], r["v"][1]] if "v" in r else ["err", r["err"]]
        out.append({"ctx": ctx, "ctx_err": None, "actions": [from_val(a) for a in it["actions"]], "cls": it.get("reward_class"),
                    "on_actions": [res(r) for r in it["on_actions"]], "on_probes": [res(r) for r in it["on_probes"]]})
    return {"ints": out}


def same_res(a, b):
    if a[0] == "v" and b[0] == "v":
        # the model's value is an exact rational; the implementation's a double: equal after rounding
        # (integers beyond 2^50 are compared exactly: there a double no longer tells neighbours apart)
        x, y = Fraction(a[1], a[2]), Fraction(b[1], b[2])
        return x == y or (abs(x) < 2 ** 50 and abs(y) < 2 ** 50 and a[1] / a[2] == b[1] / b[2])
    return a == b


def compare(impl, model, skip, readno):
    """(A) implementation observation vs model observation -> (sig, what) or None"""
    if "all" in skip:
        return None
    if "err" in impl or "err" in model:
        if model.get("err") == "Upstream" and "err" in impl:
            return None     # the reader / reservoir model failed and so did the real reader: which exception is C12's / C09's subject
        if impl.get("err") != model.get("err"):
            return ("A:error", "read %d: implementation %s, model %s" % (readno, short(impl.get("err", "ok")), short(model.get("err", "ok"))))
        return None
    a, b = impl["ints"], model["ints"]
    if len(a) != len(b):
        return ("A:length", "read %d: implementation yields %d interactions, model %d" % (readno, len(a), len(b)))
    for i, (x, y) in enumerate(zip(a, b)):
        if "ctx" not in skip and (x["ctx_err"] or ctx_key(x["ctx"]) != ctx_key(y["ctx"])):
            return ("A:context", "read %d interaction %d: context %s (err %s), model %s" % (readno, i, short(x["ctx"]), x["ctx_err"], short(y["ctx"])))
        # the statement demands *a* fixed order, not a particular one: the action lists are compared as multisets here; that the
        # order is fixed is decided by (B) (across interactions, reads, example orders, processes); whether it is the modelled
        # order (ascending / declared levels) is reported as a tag, not as a failure
        xa = sorted(json.dumps(vkey(v)) for v in x["actions"])
        ya = sorted(json.dumps(vkey(v)) for v in y["actions"])
        if "actions" not in skip and xa != ya:
            return ("A:actions", "read %d interaction %d: actions %s, model %s" % (readno, i, short(x["actions"]), short(y["actions"])))
        # the reward class the dispatch of read() reaches (Model: rewardClassOf / Reward.className; theorem reward_class_dispatch)
        xc = (x.get("copies") or {}).get("cls")
        if y.get("cls") and xc and xc != y["cls"]:
            return ("A:reward-class", "read %d interaction %d: the reward object is a %s, model %s" % (readno, i, xc, y["cls"]))
        if "rewards" in skip or "rewards%d" % i in skip:
            continue
        if "on_actions" not in skip and "actions" not in skip:
            mine = {json.dumps(vkey(a)): s for a, s in zip(y["actions"], y["on_actions"])}
            for a, r in zip(x["actions"], x["on_actions"]):
                s = mine.get(json.dumps(vkey(a)))
                if s is not None and not same_res(r, s):
                    return ("A:reward-on-action", "read %d interaction %d: reward of offered action %s is %s, model %s" % (readno, i, short(a), short(r), short(s)))
        for k, (r, s) in enumerate(zip(x["on_probes"], y["on_probes"])):
            if not same_res(r, s):
                return ("A:reward-on-probe", "read %d interaction %d: reward of probe #%d is %s, model %s" % (readno, i, k, short(r), short(s)))
    return None


def ctx_key(c):
    """contexts are compared up to the Categorical wrapper of a *feature* keeping its levels"""
    return c


_KNOWN = None


def known_sigs():
    """signatures of the open findings of known/C14.json: for these the model (which mirrors the
    code with the proposed fix applied) is not compared on the affected observable"""
    global _KNOWN
    if _KNOWN is None:
        _KNOWN = set()
        path = os.path.join(lean.VERIF, "known", "C14.json")
        if os.path.exists(path):
            with open(path, encoding="utf-8") as f:
                for k in json.load(f).get("findings", []):
                    if k.get("status", "open") == "open":
                        _KNOWN.add(k["sig"])
    return _KNOWN


# ------------------------------------------------------------------ generators
# strings whose repr a text-level rewrite of a pickled / printed state could damage: separators with padding, brackets with blanks,
# quote-comma-quote sequences, a literal backslash-n / backslash-quote, things that look like Python literals
REPR_POOL = ["Washington, DC", "k: v", "( x", "y )", "a', 'b", 'a", "b', "back\\nslash", "it\\'s", "[1, 2]", "{'a': 1}", "None", "1, 2,  3", "(1, 2)", "x,y", ", "]
STR_POOL = ["a", "b", "c", "ab", "B", "10", "9", "é", "x y", "z9", "", "abc", "中", "it's \"q\"", " a,b ", "back\\slash", "line\nbreak"] + REPR_POOL
FILE_POOL = ["a", "b", "c", "ab", "B", "10", "9", "z9", "Yes", "no", "abc", "b2"]
CSV_POOL = FILE_POOL + ["x y", "p,q", 'say "hi"', "é"]
INT_POOL = [0, 1, 2, 3, 9, 10, -1, -2, 7, 100]
DEC_POOL = ["0.1234567", "-3.00000123", "12.3456789", "0.000001234", "2.7182818284", "-0.1234567", "1e-07", "123456.789012"]
BIG_POOL = [2 ** 60 + 1, 2 ** 53 + 1, -(2 ** 62) - 3, 10 ** 20 + 7, 2 ** 60, 2 ** 64 - 1]
FRAC_POOL = [[1, 3], [-2, 7], [10 ** 18 + 1, 3], [22, 7]]
FLT_POOL = [[1, 2], [3, 2], [-1, 2], [5, 4], [2, 1], [0, 1], [7, 2], [1, 4]]   # n/d, d a power of two


def cs(s):
    return {"s": s}


def ci(i):
    return {"i": i}


def cf(p):
    return {"f": list(p)}


class Gen:
    def __init__(self, rng):
        self.r = rng

    def n_rows(self, lo=0):
        return max(lo, self.r.choice([0, 1, 1, 2, 2, 3, 3, 4, 5, 6, 8, 12, 20, 40]))

    def universe(self, pool, kmax=5):
        k = self.r.randint(1, min(kmax, len(pool)))
        return self.r.sample(pool, k)

    def num_cell(self):
        return ci(self.r.choice(INT_POOL)) if self.r.chance(0.6) else cf(self.r.choice(FLT_POOL))

    def targets(self, n, fractions=False):
        """n regression targets: small ints / dyadic floats, or (a quarter of the cases) exact mode: integers
        beyond 2**53 (no double holds them), small integers and, where the label type is explicit, Fractions —
        no floats then, so every reward is exact and compared exactly at small integer distances"""
        m0 = self.r.below(100)
        if m0 < 20:
            # doubles with many decimals (a compact / rounded state would move the target) among small numbers
            return [{"x": self.r.choice(DEC_POOL)} if self.r.chance(0.6) else self.num_cell() for _ in range(n)]
        if m0 < 65:
            return [self.num_cell() for _ in range(n)]
        out = []
        for _ in range(n):
            m = self.r.below(10)
            if m < 5:
                out.append(ci(self.r.choice(BIG_POOL)))
            elif fractions and m < 8:
                out.append({"fr": list(self.r.choice(FRAC_POOL))})
            else:
                out.append(ci(self.r.choice(INT_POOL)))
        return out

    def num_universe(self):
        k = self.r.randint(1, 5)
        out, seen = [], set()
        for _ in range(k * 3):
            c = self.num_cell()
            v = Fraction(dec(c))
            if v not in seen:
                seen.add(v)
                out.append(c)
            if len(out) == k:
                break
        if self.r.chance(0.25) and out:          # the same number once as int and once as float: one label
            v = Fraction(dec(out[0]))
            if v.denominator == 1:
                out.append(cf([int(v), 1]))
        return out

    def labels_from(self, uni, n):
        """n labels over the universe; boundary-biased: every member used / one member only / random"""
        m = self.r.below(10)
        if not uni:
            return []
        if m < 1:
            return [uni[0]] * n
        if m < 2:
            # one label everywhere, another one only on the very last example
            return [uni[0]] * (n - 1) + [uni[-1]]
        ls = [self.r.choice(uni) for _ in range(n)]
        if m < 7:
            for i, u in enumerate(self.r.shuffle(uni)):
                if i < n:
                    ls[i] = u
            ls = self.r.shuffle(ls)
        return ls

    def feature_obj(self, width, kind):
        r = self.r
        if kind == "tuple":
            return {"t": [self.num_cell() for _ in range(width)]}
        if kind == "list":
            return {"l": [self.num_cell() if r.chance(0.7) else cs(r.choice(STR_POOL)) for _ in range(width)]}
        if kind == "dict":
            ks = r.sample(["a", "b", "c", "d", "e"], r.randint(0, min(5, width + 1)))
            return {"d": [[cs(k), self.num_cell()] for k in ks]}
        if kind == "num":
            return self.num_cell()
        if kind == "str":
            return cs(r.choice(STR_POOL))
        if kind == "none":
            return {"n": 0}
        return {"t": [self.num_cell(), {"t": [ci(0), ci(1)]}]}

    # ---- (X, Y)
    def xy(self, tier):
        r = self.r
        n = self.n_rows()
        kind = r.wchoice([(22, "str"), (14, "int"), (8, "float"), (3, "bool"), (14, "cat"), (8, "list1"), (18, "multi"), (14, "reg"), (3, "tuple")])
        case = {"src": "xy", "via": r.choice(["sim", "sim", "env"]), "kw": r.chance(0.4)}
        fk = r.choice(["tuple", "tuple", "list", "dict", "num", "str", "none", "nested"])
        width = r.randint(1, 4)
        X = [self.feature_obj(width, fk) for _ in range(n)]
        if kind == "str":
            Y = self.labels_from([cs(s) for s in self.universe(STR_POOL)], n)
            lt = r.choice([None, None, "c", "C"])
        elif kind in ("int", "float"):
            uni = self.num_universe() if kind == "float" else [ci(i) for i in self.universe(INT_POOL + ([2 ** 60, 2 ** 60 + 1] if r.chance(0.2) else []))]
            if kind == "float" and r.chance(0.35):
                uni = uni + [{"x": d} for d in r.sample(DEC_POOL, 2)]      # class labels with many decimals
            Y = self.labels_from(uni, n)
            lt = r.choice(["c", "c", "C"])
        elif kind == "tuple":
            # tuple-valued class labels (hashable, ordered): the model has no tuple atoms, so only the statement is checked
            if r.chance(0.5):
                uni = [{"t": [ci(a), ci(b)]} for a, b in r.sample([(1, 2), (1, 3), (0, 5), (2, 1), (10, 9)], r.randint(1, 4))]
            else:
                uni = [{"t": [cs(a), ci(b)]} for a, b in r.sample([("Washington, DC", 1), ("Washington,DC", 1), ("k: v", 2), ("a', 'b", 0), ("( x", 3), ("x", 1)], r.randint(1, 4))]
            Y = self.labels_from(uni, n)
            lt = r.choice([None, "c"])
            case["no_model"] = True
        elif kind == "bool":
            Y = self.labels_from([{"b": True}, {"b": False}], n)
            lt = r.choice(["c", "c", None, "r"])      # None: a bool is an int, so regression is inferred (targets 1/0)
        elif kind == "cat":
            levels = self.universe(STR_POOL[:10], 4)
            if len(levels) < 2:
                levels = levels + ["zz"]
            used = levels if r.chance(0.6) else (r.sample(levels, r.randint(1, len(levels) - 1)))
            Y = self.labels_from([{"cat": s, "levels": levels} for s in used], n)
            lt = r.choice([None, None, "c"])
        elif kind == "list1":
            strs = r.chance(0.6)
            uni = [cs(s) for s in self.universe(STR_POOL)] if strs else [ci(i) for i in self.universe(INT_POOL)]
            Y = [{"l": [y]} if (r.chance(0.8) or not strs) else y for y in self.labels_from(uni, n)]
            lt = r.choice([None, "c"]) if strs else "c"
        elif kind == "multi":
            strs = r.chance(0.55)
            uni = [cs(s) for s in self.universe(STR_POOL, 5)] if strs else [ci(i) for i in self.universe(INT_POOL, 5)]
            Y = []
            for _ in range(n):
                m = r.below(10)
                if m < 1:
                    Y.append({"l": []})
                elif m < 3:
                    Y.append({"l": r.shuffle(uni)})
                elif m < 5:
                    Y.append({"l": [r.choice(uni)]})
                else:
                    Y.append({"l": r.shuffle(r.subset(uni, 0.5))})
            lt = r.choice(["m", "m", "M"])
        else:
            lt = r.choice([None, None, "r", "R"])
            Y = self.targets(n, fractions=lt is not None)
        case["label_type"] = lt
        if lt is None and r.chance(0.3):
            case["explicit_none"] = True
        case["rows"] = [[x, y] for x, y in zip(X, Y)]
        if r.chance(0.35):
            # how the examples are handed over (list / tuple / one-shot iterable) and a history: a first read abandoned early
            hows = ["list", "tuple", "gen", "map", "iter"]
            case["xy_as"] = r.choice([["gen", "gen"], ["map", "gen"], ["list", "iter"], ["map", "list"], ["iter", "iter"], ["tuple", "tuple"],
                                      [r.choice(hows), r.choice(hows)]])
            if r.chance(0.5):
                case["abandon"] = r.choice([1, 1, 1, 2, max(1, n)])
        elif r.chance(0.1):
            case["abandon"] = 1
        return case

    def edge(self, tier):
        """inputs outside the quantifier: only the correspondence applies"""
        r = self.r
        n = max(1, self.n_rows())
        kind = r.choice(["dup-list", "multi-c", "mixed-cat", "mixed-kind", "empty-list-c", "cat-then-str"])
        X = [self.feature_obj(2, "tuple") for _ in range(n)]
        uni = [cs(s) for s in self.universe(STR_POOL[:6], 4)]
        lt = "c"
        if kind == "dup-list":
            Y = []
            for _ in range(n):
                l = [r.choice(uni) for _ in range(r.randint(1, 4))]
                Y.append({"l": l + [l[0]]})
            lt = "m"
        elif kind == "multi-c":
            Y = [{"l": [r.choice(uni) for _ in range(r.randint(1, 3))]} for _ in range(n)]
            lt = r.choice([None, "c"])
        elif kind == "mixed-cat":
            levels = [u["s"] for u in uni] + ["q"]
            Y = [r.choice(uni) for _ in range(n)]
            if n > 1:
                k = r.randint(1, n - 1)
                Y[k] = {"cat": Y[k]["s"], "levels": levels}
        elif kind == "cat-then-str":
            levels = [u["s"] for u in uni] + ["q"]
            Y = [r.choice(uni) for _ in range(n)]
            Y[0] = {"cat": Y[0]["s"], "levels": levels}
        elif kind == "mixed-kind":
            Y = [r.choice(uni) for _ in range(n)]
            Y[r.below(n)] = ci(3)
            if n > 1:
                Y[0] = cs("a")
                Y[n - 1] = ci(3)
        else:
            Y = [{"l": [r.choice(uni)]} for _ in range(n)]
            Y[r.below(n)] = {"l": []}
        return {"src": "xy", "via": "sim", "kw": False, "label_type": lt, "rows": [[x, y] for x, y in zip(X, Y)], "edge": True, "edge_kind": kind}

    def take_for(self, n):
        r = self.r
        if r.chance(0.45):
            return None
        return r.choice([0, 1, 2, max(0, n - 1), n, n + 1, n + 3, r.randint(0, n + 1)])

    def label_setup(self, pool, n, allow_reg=True, big=True):
        """(label cells, label_type, kind) for table-shaped sources with typed cells"""
        r = self.r
        kind = r.wchoice([(5, "str"), (3, "int"), (2, "float"), (3 if allow_reg else 0, "reg")])
        if kind == "str":
            return self.labels_from([cs(s) for s in self.universe(pool)], n), r.choice([None, None, "c", "C"]), kind
        if kind == "int":
            return self.labels_from([ci(i) for i in self.universe(INT_POOL)], n), r.choice(["c", "C"]), kind
        if kind == "float":
            return self.labels_from(self.num_universe(), n), "c", kind
        return (self.targets(n) if big else [self.num_cell() for _ in range(n)]), r.choice([None, None, "r", "R"]), kind

    # ---- in-memory rows through ListSource + label_col
    def rows(self, tier):
        r = self.r
        n = self.n_rows()
        case = {"src": "rows", "via": r.choice(["sim", "sim", "env"]), "kw": r.chance(0.4), "take": self.take_for(n)}
        if r.chance(0.55):
            width = r.randint(1, 4)         # number of feature columns
            li = r.randint(0, width)
            labs, lt, kind = self.label_setup(STR_POOL, n)
            if r.chance(0.25) and n:
                uni = [cs(s) for s in self.universe(STR_POOL, 4)]
                labs, lt = [{"l": r.shuffle(r.subset(uni, 0.6)) or [uni[0]]} for _ in range(n)], "m"
            rows = []
            for y in labs:
                cells = [self.num_cell() if r.chance(0.7) else cs(r.choice(STR_POOL)) for _ in range(width)]
                cells.insert(li, y)
                rows.append(cells)
            case.update(sparse=False, rows=rows, label_col=li if r.chance(0.75) else li - (width + 1), label_type=lt)
            if r.chance(0.3):
                self.prelabel(case, "list" if lt == "m" else "str" if kind == "str" else "num")
        else:
            intkeys = r.chance(0.4)
            keys = [ci(k) for k in (1, 2, 3, 5)] if intkeys else [cs(k) for k in ("a", "b", "c", "d")]
            key = ci(0) if intkeys else cs("y")
            labs, lt, kind = self.label_setup(STR_POOL, n)
            rows = []
            for y in labs:
                row = [[k, self.num_cell()] for k in keys if r.chance(0.5)]
                absent = kind != "str" and r.chance(0.25)      # an absent numeric label is the label 0
                if not absent:
                    row.insert(r.randint(0, len(row)), [key, y])
                rows.append(row)
            case.update(sparse=True, rows=rows, label_col=key, label_type=lt)
            if r.chance(0.25):
                self.prelabel(case, "str" if kind == "str" else "num")
        return case

    # ---- text sources
    def csv(self, tier):
        r = self.r
        n = self.n_rows(1)
        width = r.randint(1, 4)
        li = r.randint(0, width)
        ws = r.chance(0.5)            # white space at the edge of a field and empty fields are data
        names = r.sample(["f1", "f2", "f3", "f4", "y", "label", "class x"] + ([" y", "f5 "] if ws else []), width + 1)
        lpool = CSV_POOL + ([" a", "a ", " 10", "b  ", "  ", ""] if ws else [])
        fpool = CSV_POOL + ["1", "2.5", "-3"] + ([" a", "a ", "", "", "", " "] if ws else [])
        labs = self.labels_from([cs(s) for s in self.universe(lpool)], n)
        rows = []
        for y in labs:
            cells = [cs(r.choice(fpool)) for _ in range(width)]
            cells.insert(li, y)
            rows.append(cells)
        header = names if r.chance(0.6) else None
        m = r.below(10)
        lc = names[li] if header and m < 5 else (li if m < 9 else li - (width + 1))
        case = {"src": "csv", "via": r.choice(["sim", "sim", "env"]), "kw": r.chance(0.4), "file": r.chance(0.25), "header": header, "rows": rows,
                "label_col": lc, "label_type": r.choice([None, None, "c", "C"]), "take": self.take_for(n)}
        if header and isinstance(lc, str) and width >= 1 and r.chance(0.12):
            # a repeated header name: which column "the" label column is, is not defined by the statement ->
            # outside the quantifier, only compared with the model (HeadRows: the last one)
            j = r.choice([k for k in range(width + 1) if k != li])
            header[j] = header[li]
            case["edge"] = True
            case["edge_kind"] = "duplicate-header"
        if r.chance(0.4):
            case["dialect"] = {"delimiter": "\t"}
        if not case["file"] and r.chance(0.4):
            case["eol"] = r.choice(["\n", "\r\n"])
        return case

    def prelabel(self, case, kind):
        """turn a rows/arff case into an already labelled source (rows carry label/feats/tipe, as OpenML sources
        deliver them) that is passed with label_col=None; kind: num | str | list"""
        r = self.r
        if kind == "num":
            tipe, given = r.choice([("r", "c"), ("r", "c"), ("c", "r"), ("c", "r"), ("r", None), ("c", None), ("r", "r"), ("c", "c"),
                                    (None, "c"), (None, None), ("R", "c"), ("c", "R"), ("C", None)])
        elif kind == "str":
            tipe, given = r.choice([("c", None), ("c", "c"), (None, None), ("c", "C"), ("r", "c"), ("m", "c"), (None, "c")])
        else:
            tipe, given = r.choice([("c", "m"), ("c", "m"), ("m", None), ("m", "m"), (None, "m"), ("r", "m"), ("m", "c"), ("c", None)])
            if given == "c" or (given is None and tipe == "c"):
                # classification over list-valued labels: one-element lists
                li = norm_index(label_index(case), len(case["rows"][0])) if case["rows"] else 0
                for row in case["rows"]:
                    row[li] = {"l": row[li]["l"][:1]}
        case["pre"] = {"tipe": tipe}
        case["label_type"] = given
        return case

    def arff(self, tier):
        r = self.r
        n = self.n_rows(1)
        width = r.randint(1, 4)
        li = r.randint(0, width)
        names = r.sample(["f1", "f2", "f3", "f4", "y", "label", "cls"], width + 1)
        types = []
        for j in range(width + 1):
            t = r.wchoice([(5, "num"), (2, "str"), (3, "nom")])
            types.append(self.r.sample(FILE_POOL, r.randint(2, 4)) if t == "nom" else t)
        lt_kind = r.wchoice([(4, "nom"), (2, "str"), (2, "numc"), (3, "reg")])
        if lt_kind == "nom":
            types[li] = r.sample(FILE_POOL, r.randint(2, 4))
            used = types[li] if r.chance(0.6) else r.sample(types[li], r.randint(1, len(types[li]) - 1))
            labs = self.labels_from([cs(s) for s in used], n)
            lt = r.choice([None, None, "c"])
        elif lt_kind == "str":
            types[li] = "str"
            labs = self.labels_from([cs(s) for s in self.universe(FILE_POOL)], n)
            lt = r.choice([None, "c"])
        elif lt_kind == "numc":
            types[li] = "num"
            labs = self.labels_from(self.num_universe(), n)
            lt = r.choice(["c", "C"])
        else:
            types[li] = "num"
            labs = [self.num_cell() for _ in range(n)]
            lt = r.choice([None, None, "r"])
        rows = []
        for y in labs:
            cells = []
            for j, t in enumerate(types):
                if j == li:
                    cells.append(y)
                elif t == "num":
                    cells.append(self.num_cell())
                elif t == "str":
                    cells.append(cs(r.choice(FILE_POOL)))
                else:
                    cells.append(cs(r.choice(t)))
            rows.append(cells)
        m = r.below(10)
        lc = names[li] if m < 5 else (li if m < 9 else li - (width + 1))
        case = {"src": "arff", "via": r.choice(["sim", "sim", "env"]), "kw": r.chance(0.4), "file": r.chance(0.25), "header": names, "types": types,
                "rows": rows, "label_col": lc, "label_type": lt, "take": self.take_for(n)}
        if r.chance(0.3):
            self.prelabel(case, "num" if lt_kind in ("numc", "reg") else "str")
        return case

    def sarff(self, tier):
        r = self.r
        n = self.n_rows(1)
        width = r.randint(1, 4)
        li = r.randint(0, width)
        names = r.sample(["f1", "f2", "f3", "f4", "y", "label", "cls"], width + 1)
        types = ["num"] * (width + 1)
        kind = r.wchoice([(4, "nom"), (3, "numc"), (3, "reg")])
        if kind == "nom":
            types[li] = r.sample(FILE_POOL, r.randint(2, 4))
            labs = self.labels_from([cs(s) for s in types[li]], n)
            lt = r.choice([None, None, "c"])
        elif kind == "numc":
            labs = self.labels_from([c for c in self.num_universe()], n)
            lt = "c"
        else:
            labs = [self.num_cell() for _ in range(n)]
            lt = r.choice([None, "r"])
        rows = []
        for y in labs:
            row = []
            for j in range(width + 1):
                if j == li:
                    if kind == "nom" or Fraction(dec(y)) != 0:
                        row.append([j, y])
                elif r.chance(0.55):
                    c = self.num_cell()
                    if Fraction(dec(c)) != 0:
                        row.append([j, c])
            rows.append(row)
        if n and kind != "nom" and not rows[0]:
            # the very first data line decides dense/sparse: keep it a non-empty sparse row
            j = (li + 1) % (width + 1)
            rows[0] = [[j, ci(4)]]
        lc = names[li] if r.chance(0.6) else li
        return {"src": "sarff", "via": r.choice(["sim", "sim", "env"]), "kw": r.chance(0.4), "file": r.chance(0.25), "header": names, "types": types,
                "rows": rows, "label_col": lc, "label_type": lt, "take": self.take_for(n)}

    def libsvm(self, tier, manik=False):
        r = self.r
        n = self.n_rows(1)
        multi = r.chance(0.5 if manik else 0.3)
        uni = self.universe(["0", "1", "2", "10", "9", "a", "b", "ab", "-1", "3"], 5)
        rows = []
        for y in self.labels_from(uni, n):
            if multi:
                m = r.below(10)
                labels = r.shuffle(uni) if m < 2 else [y] if m < 4 else (r.shuffle(r.subset(uni, 0.5)) or [y])
            else:
                labels = [y]
            feats = [[k, self.num_cell()] for k in (0, 1, 2, 5, 9) if r.chance(0.5)]
            rows.append({"labels": labels, "feats": feats})
        lt = r.choice(["m", "M"]) if multi else r.choice([None, None, "c"])
        return {"src": "manik" if manik else "libsvm", "via": r.choice(["sim", "sim", "env"]), "kw": r.chance(0.4), "file": r.chance(0.25),
                "rows": rows, "label_col": None, "label_type": lt, "take": self.take_for(n)}


def has_categorical(case):
    """Categorical values anywhere in the data: Environments[...] appends Finalize, which re-encodes
    Categoricals as one-hot vectors (that representation change is property C10's subject)"""
    if any(isinstance(t, list) for t in case.get("types") or []):
        return True
    return '"cat"' in json.dumps(case["rows"])


def gen_case(rng, tier, edge_p=0.07):
    g = Gen(rng)
    if rng.chance(edge_p):
        return g.edge(tier)
    k = rng.wchoice([(30, "xy"), (15, "rows"), (12, "csv"), (15, "arff"), (8, "sarff"), (10, "libsvm"), (10, "manik")])
    if k == "libsvm":
        case = g.libsvm(tier)
    elif k == "manik":
        case = g.libsvm(tier, manik=True)
    else:
        case = getattr(g, k)(tier)
    if case.get("via") == "env" and has_categorical(case):
        case["via"] = "sim"
    if case["src"] != "xy" and not case.get("kw"):
        # how a positional call is written is decided from the case itself (no draw from the stream: the other cases stay as they were)
        import zlib
        h = zlib.crc32(json.dumps(case, sort_keys=True).encode()) % 4
        if h < 2:
            case["pos_min"] = "short" if h == 0 else "mixed"
    add_history(case)
    return case


def add_history(case, force=None):
    """phase 6: every 5th case carries an operation history (decided from a CRC of the case, no draw from the stream)"""
    import zlib
    if case.get("edge") or case.get("src") == "tables":
        return case
    h = zlib.crc32(("hist" + json.dumps(case, sort_keys=True)).encode())
    if force is not None or h % 5 == 0:
        case["hist"] = list(HISTORIES[(h // 5) % len(HISTORIES) if force is None else force])
    if force is None and permutable(case) and h % 5 in (0, 1, 2):
        case["hist"] = list(P_HISTORIES[(h // 5) % len(P_HISTORIES)])
    return case


# ------------------------------------------------------------------ snippet
def snippet_for(case):
    if not case.get("hist"):
        return snippet_plain(case)
    # phase 6: the history written out; show(env, tag) is the plain snippet's read-and-print loop
    base = snippet_plain({k: v for k, v in case.items() if k != "hist"}).rstrip("\n").split("\n")
    i_env = max(i for i, l in enumerate(base) if l.startswith("env = "))
    i_for = base.index("for k in range(2):")
    sib = snippet_plain(sibling_of(case)).rstrip("\n").split("\n")
    j_env = max(i for i, l in enumerate(sib) if l.startswith("env = "))
    out = base[:i_env + 1]
    out += ["def make_sibling():   # a second environment of the same kind over other examples"] + ["    " + l for l in sib[5:j_env + 1]] + ["    return env"]
    out += base[i_env + 1:i_for]
    out += ["def show(env, k):"] + base[i_for + 1:] + ["    return ints"]
    out += ["sib = None; last = []", "# the history %s" % "/".join(case["hist"])]
    nr = ns = 0
    for op in case["hist"]:
        if op.startswith("S"):
            out.append("sib = sib or make_sibling()")
        if op == "R":
            nr += 1
            out.append("last = show(env, 'of the environment, #%d')" % nr)
        elif op == "f":
            out.append("list(env.read())   # a full read nobody looks at")
        elif op.startswith("a"):
            out.append("it = iter(env.read()); [next(it, None) for _ in range(%d)]; it.close(); del it   # an abandoned read" % int(op[1:]))
        elif op == "S":
            ns += 1
            out.append("last = show(sib, 'of the sibling, #%d')" % ns)
        elif op == "Sa":
            out.append("it = iter(sib.read()); next(it, None); it.close(); del it   # an abandoned read of the sibling")
        elif op == "P":
            out.append("# (the source's text is rewritten here with its last column first: `lines[:] = <permuted text>` or the file rewritten; label named %r)" % (case.get("label_col"),))
            if permutable(case):
                pc = permute_columns(case)
                out.append("lines[:] = %r" % ((csv_text(pc) if pc["src"] == "csv" else arff_text(pc)),))
                case = pc
        elif op == "mA":
            out += ["for acts in {id(i['actions']): i['actions'] for i in last}.values():   # the consumer edits the action list it was handed",
                    "    if isinstance(acts, list): acts.append(%r); acts.reverse()" % JUNK_ACTION]
    return "\n".join(out) + "\n"


def snippet_plain(case):
    lines = ["import sys, os; sys.path.insert(0, os.environ.get('COBA_REPO', '/repo'))",
             "from coba.environments import Environments, SupervisedSimulation, CsvSource, ArffSource, LibSvmSource, ManikSource",
             "from coba.pipes import IterableSource, ListSource",
             "from coba.primitives import Categorical", "from fractions import Fraction"]
    src = case["src"]
    lt = case.get("label_type")
    ctor = "Environments.from_supervised" if case.get("via") == "env" else "SupervisedSimulation"
    tail = "[0]" if case.get("via") == "env" else ""
    if src == "xy":
        lines.append("X = %r" % ([dec(x) for x, _ in case["rows"]],))
        lines.append("Y = %r" % ([dec(y) for _, y in case["rows"]],))
        forms = {"tuple": "tuple(%s)", "gen": "(v for v in %s)", "map": "map(lambda v: v, %s)", "iter": "iter(%s)", "list": "%s"}
        if case.get("xy_as"):
            lines.append("X, Y = %s, %s   # how the examples are handed over" % (forms[case["xy_as"][0]] % "X", forms[case["xy_as"][1]] % "Y"))
        args = "X, Y" + ((", label_type=%r" if case.get("kw") else ", %r") % lt if lt is not None or case.get("explicit_none") else "")
    else:
        if src == "rows":
            if case.get("sparse"):
                lines.append("source = ListSource(%r)" % ([{dec(k): dec(v) for k, v in r} for r in case["rows"]],))
                lc = dec(case["label_col"]) if isinstance(case["label_col"], dict) else case["label_col"]
            else:
                lines.append("source = ListSource(%r)" % ([[dec(c) for c in r] for r in case["rows"]],))
                lc = case["label_col"]
        else:
            text = csv_text(case) if src == "csv" else arff_text(case) if src in ("arff", "sarff") else libsvm_text(case)
            lines.append("lines = %r" % (text,))
            cls = {"csv": "CsvSource", "arff": "ArffSource", "sarff": "ArffSource", "libsvm": "LibSvmSource", "manik": "ManikSource"}[src]
            extra = ", has_header=%r" % bool(case.get("header")) if src == "csv" else ""
            if src == "csv":
                extra += "".join(", %s=%r" % kv for kv in sorted((case.get("dialect") or {}).items()))
            if case.get("eol"):
                lines[-1] = "lines = %r" % ([l + case["eol"] for l in text],)
            lines.append("source = %s(IterableSource(lines)%s)" % (cls, extra))
            lc = case.get("label_col")
        if case.get("pre") is not None:
            lines.append("from coba.pipes import Pipes, LabelRows")
            lines.append("source = Pipes.join(source, LabelRows(%r, %r))   # an already labelled source" % (lc, case["pre"].get("tipe")))
            lc = None
        if case.get("kw"):
            args = "source=source" + "".join(", %s=%r" % (k, v) for k, v in (("label_col", lc), ("label_type", lt), ("take", case.get("take"))) if v is not None)
        else:
            args = "source, %r, %r, %r" % (lc, lt, case.get("take"))
            if case.get("pos_min") == "mixed":
                args = "source" + "".join(", %s=%r" % (k, v) for k, v in (("label_col", lc), ("label_type", lt), ("take", case.get("take"))) if v is not None)
            elif case.get("pos_min"):
                vals = [lc, lt, case.get("take")]
                while vals and vals[-1] is None:
                    vals.pop()
                args = "source" + "".join(", %r" % (v,) for v in vals)
    lines.append("env = %s(%s)%s" % (ctor, args, tail))
    if case.get("abandon"):
        lines += ["it = iter(env.read())", "for _ in range(%d): next(it, None)   # a first read, abandoned early" % case["abandon"], "it.close(); del it"]
    lines += ["for k in range(2):",
              "    ints = list(env.read())",
              "    print('read', k, len(ints), 'interactions')",
              "    for it in ints:",
              "        ctx = it['context']",
              "        try: ctx = dict(ctx.items()) if hasattr(ctx, 'items') else list(ctx) if hasattr(ctx, '__iter__') and not isinstance(ctx, str) else ctx",
              "        except Exception as e: ctx = repr(e)",
              "        rs = []",
              "        for a in it['actions']:",
              "            try: rs.append(it['rewards'](a))",
              "            except Exception as e: rs.append(repr(e))",
              "        print('  context', ctx, 'actions', list(it['actions']), 'rewards', it['rewards'], 'on actions', rs)"]
    lines += ["        import pickle, copy; from coba.json import dumps, loads",
              "        at = list(it['actions']) + ([it['rewards']._argmax] if type(it['rewards']).__name__ == 'L1Reward' else [])",
              "        for nm, f in (('pickle', lambda x: pickle.loads(pickle.dumps(x))), ('deepcopy', copy.deepcopy), ('json', lambda x: loads(dumps(x)))):",
              "            try: c = f(it['rewards']); print('   after', nm, [(it['rewards'](a), c(a)) for a in at], '(original, copy) rewards')",
              "            except Exception as e: print('   after', nm, repr(e))"]
    keys = access_keys(case)
    if keys and keys["label"] is not None:
        lines += ["        LABEL = %r" % (keys["label"],),
                  "        try: print('  context[LABEL] ->', repr(it['context'][LABEL]), '(the label column must not be readable from the context)')",
                  "        except Exception as e: print('  context[LABEL] raises', repr(e))"]
    if label_type_in_force(case, examples(case)) == "r":
        lines += ["        y = it['rewards']._argmax", "        print('  rewards at y, y+1, y-1:', [it['rewards'](a) for a in (y, y + 1, y - 1)])"]
    return "\n".join(lines) + "\n"


# ------------------------------------------------------------------ the property
# ------------------------------------------------------------------ translator step (phase 5)
ACTION_FEATURES = ["sorted", "set", "chain", "delist", "levels", "present"]
LT_LITERALS = ["r", "c", "m", "R", "C", "M"]


def extract_supervised(repo):
    """`SupervisedSimulation.__init__` / `.read` of the CURRENT source as tables (Python's ast, nothing is imported or run):
    the argument tables of both overloads (name, position, default), the stages joined behind the source, where the label type
    comes from (explicit / tipe / inferred, the numeric types and the two literals of the inference), and - by walking read()'s
    if-chain for every label-type literal (either case) x "first label is a Categorical" - which reward constructor and which
    action computation is reached, and what the interactions are built from"""
    import ast
    import re
    path = os.path.join(repo, "coba", "environments", "supervised.py")
    with open(path, encoding="utf-8") as f:
        tree = ast.parse(f.read())
    cls = next(n for n in tree.body if isinstance(n, ast.ClassDef) and n.name == "SupervisedSimulation")
    fns = [n for n in cls.body if isinstance(n, ast.FunctionDef)]
    init = [f for f in fns if f.name == "__init__" and not f.decorator_list][-1]
    read = next(f for f in fns if f.name == "read")
    un = ast.unparse
    is_none = lambda e: isinstance(e, ast.Constant) and e.value is None

    # ---- __init__: argument tables and joined stages
    def args_at(e):
        if isinstance(e, ast.Subscript) and isinstance(e.value, ast.Name) and e.value.id == "args" and isinstance(e.slice, ast.Constant):
            return e.slice.value
        return None

    def arg_row(st):
        if not (isinstance(st, ast.Assign) and len(st.targets) == 1 and isinstance(st.targets[0], ast.Name)):
            return None
        name, v = st.targets[0].id, st.value
        if isinstance(v, ast.IfExp):
            i = args_at(v.body)
            if i is None:
                return None
            t = v.test
            if not (isinstance(t, ast.Compare) and len(t.ops) == 1 and isinstance(t.ops[0], ast.Gt) and un(t.left) == "len(args)"
                    and isinstance(t.comparators[0], ast.Constant) and t.comparators[0].value == i):
                raise ValueError("argument %s: presence test %s does not fit args[%s]" % (name, un(t), i))
            o = v.orelse
            if isinstance(o, ast.Call) and un(o.func) == "kwargs.get" and o.args and isinstance(o.args[0], ast.Constant):
                kw, d = o.args[0].value, (repr(ast.literal_eval(o.args[1])) if len(o.args) > 1 else "None")
            elif isinstance(o, ast.Subscript) and un(o.value) == "kwargs" and isinstance(o.slice, ast.Constant):
                kw, d = o.slice.value, "<required>"
            else:
                raise ValueError("argument %s: unexpected keyword fallback %s" % (name, un(o)))
            return (kw if kw == name else "%s->%s" % (kw, name), i, d)
        i = args_at(v)
        return (name, i, "<required>") if i is not None else None

    top = next(st for st in init.body if isinstance(st, ast.If))
    source_args = [r for r in map(arg_row, top.body) if r]
    xy_args = [r for r in map(arg_row, top.orelse) if r]
    joins = []
    for st in top.body:
        if (isinstance(st, ast.If) and isinstance(st.test, ast.Compare) and len(st.test.ops) == 1 and isinstance(st.test.ops[0], ast.IsNot)
                and isinstance(st.test.left, ast.Name) and is_none(st.test.comparators[0])):
            for b in st.body:
                if (isinstance(b, ast.Assign) and un(b.targets[0]) == "source" and isinstance(b.value, ast.Call) and un(b.value.func) == "Pipes.join"
                        and len(b.value.args) == 2 and un(b.value.args[0]) == "source" and isinstance(b.value.args[1], ast.Call)):
                    # recorded: the guarding argument, the class, its first argument (the order of the two joins and the `tipe` handed to
                    # LabelRows do not change what read() yields: Reservoir selects by position, `self._label_type or first.tipe`)
                    c = b.value.args[1]
                    joins.append((st.test.left.id, un(c.func), [un(a) for a in c.args[:1]]))
    joins.sort(key=lambda j: j[1])
    source_args.sort(key=lambda r: r[1])
    xy_args.sort(key=lambda r: r[1])

    # ---- read: where the label type comes from
    def type_sources(value):
        if not (isinstance(value, ast.BoolOp) and isinstance(value.op, ast.Or)):
            raise ValueError("label_type is not an `or` chain: %s" % un(value))
        out, inf = [], None
        for e in value.values:
            if un(e) == "self._label_type":
                out.append("explicit")
            elif un(e) == "first_label_type":
                out.append("tipe")
            elif (isinstance(e, ast.IfExp) and isinstance(e.test, ast.Call) and un(e.test.func) == "isinstance" and un(e.test.args[0]) == "first_label"
                  and isinstance(e.body, ast.Constant) and isinstance(e.orelse, ast.Constant)):
                ts = e.test.args[1]
                inf = (sorted(set(un(x) for x in (ts.elts if isinstance(ts, ast.Tuple) else [ts]))), e.body.value, e.orelse.value)
                out.append("inferred")
            else:
                raise ValueError("unknown label-type source %s" % un(e))
        return out, inf

    sel = None
    for st in ast.walk(read):
        if isinstance(st, ast.If) and isinstance(st.test, ast.Compare) and un(st.test.left) == "first_label_type" and is_none(st.test.comparators[0]):
            sel = st
            break
    if sel is None:
        raise ValueError("the `first_label_type is None` selection was not found")
    lt_assign = lambda stmts: next(s.value for s in stmts if isinstance(s, ast.Assign) and un(s.targets[0]) == "label_type")
    a, b = lt_assign(sel.body), lt_assign(sel.orelse)
    if isinstance(sel.test.ops[0], ast.IsNot):
        a, b = b, a
    no_tipe, inf = type_sources(a)
    with_tipe, inf2 = type_sources(b)
    inf = inf or inf2
    if inf is None:
        raise ValueError("no inference expression found")

    # ---- read: the if-chain, walked for one label-type literal and one kind of first label
    def touches(node):
        return any((isinstance(x, ast.Assign) and un(x.targets[0]) in ("reward", "actions")) or (isinstance(x, ast.FunctionDef) and x.name == "reward") for x in ast.walk(node))

    def walk_for(lit, cat):
        env = {"lt": lit}
        got = {"reward": None, "feats": set()}

        def ev(t):
            if isinstance(t, ast.Compare) and len(t.ops) == 1 and isinstance(t.ops[0], (ast.Eq, ast.NotEq)) and un(t.left) == "label_type" \
                    and isinstance(t.comparators[0], ast.Constant):
                r = env["lt"] == t.comparators[0].value
                return r if isinstance(t.ops[0], ast.Eq) else not r
            if isinstance(t, ast.Call) and un(t.func) == "isinstance" and un(t.args[0]) == "first_label" and un(t.args[1]) == "Categorical":
                return cat
            if isinstance(t, ast.UnaryOp) and isinstance(t.op, ast.Not):
                r = ev(t.operand)
                return None if r is None else not r
            if isinstance(t, ast.BoolOp):
                rs = [ev(x) for x in t.values]
                if isinstance(t.op, ast.And):
                    return False if False in rs else (None if None in rs else True)
                return True if True in rs else (None if None in rs else False)
            return None

        def ctor_from(arg, body):
            """`lambda l: Cls(l)` / `lambda l: Cls(f(l))` (or the same as a one-line def) -> "Cls" / "Cls(f)" """
            if isinstance(body, ast.Call) and isinstance(body.func, ast.Name) and len(body.args) == 1 and not body.keywords:
                inner = body.args[0]
                if isinstance(inner, ast.Call) and isinstance(inner.func, ast.Name) and len(inner.args) == 1 and un(inner.args[0]) == arg:
                    return "%s(%s)" % (body.func.id, inner.func.id)
                if un(inner) == arg:
                    return body.func.id
            raise ValueError("reward function %s" % un(body))

        def walk(stmts):
            for st in stmts:
                if isinstance(st, ast.FunctionDef) and st.name == "reward" and len(st.args.args) == 1 and len(st.body) == 1 and isinstance(st.body[0], ast.Return):
                    got["reward"] = ctor_from(st.args.args[0].arg, st.body[0].value)
                elif isinstance(st, ast.If):
                    r = ev(st.test)
                    if r is None:
                        if st is not sel and touches(st):
                            raise ValueError("cannot decide `%s` for label_type=%r" % (un(st.test), lit))
                        continue
                    walk(st.body if r else st.orelse)
                elif isinstance(st, ast.Assign) and len(st.targets) == 1:
                    tg, v = un(st.targets[0]), st.value
                    if tg == "label_type" and isinstance(v, ast.Call) and isinstance(v.func, ast.Attribute) and un(v.func.value) == "label_type" and not v.args:
                        if v.func.attr == "lower":
                            env["lt"] = env["lt"].lower()
                        elif v.func.attr == "upper":
                            env["lt"] = env["lt"].upper()
                        else:
                            raise ValueError("label_type.%s()" % v.func.attr)
                    elif tg == "reward":
                        if isinstance(v, ast.Name):
                            got["reward"] = v.id
                        elif isinstance(v, ast.Lambda) and len(v.args.args) == 1:
                            got["reward"] = ctor_from(v.args.args[0].arg, v.body)
                        else:
                            raise ValueError("reward = %s" % un(v))
                    elif tg == "actions":
                        if isinstance(v, ast.List) and not v.elts:
                            got["feats"] = {"empty"}
                        else:
                            names = {x.id for x in ast.walk(v) if isinstance(x, ast.Name)} | {x.attr for x in ast.walk(v) if isinstance(x, ast.Attribute)}
                            keep = set() if "actions" not in names else set(got["feats"]) - {"empty"}
                            got["feats"] = keep | {n for n in ACTION_FEATURES if n in names}
        walk(read.body)
        if got["reward"] is None:
            raise ValueError("no reward constructor reached for label_type=%r" % lit)
        kind = "empty" if got["feats"] == {"empty"} else "&".join(n for n in ACTION_FEATURES if n in got["feats"])
        return (lit, cat, got["reward"], kind)

    dispatch = [walk_for(lit, cat) for lit in LT_LITERALS for cat in (False, True)]

    # ---- read: what an interaction is built from
    ys = set()
    for st in ast.walk(read):
        if isinstance(st, ast.For) and isinstance(st.target, ast.Name):
            for y in ast.walk(st):
                if isinstance(y, ast.Yield) and isinstance(y.value, ast.Dict):
                    for k, v in zip(y.value.keys, y.value.values):
                        ys.add((ast.literal_eval(k), re.sub(r"\b%s\b" % re.escape(st.target.id), "row", un(v))))
    return {"source_args": source_args, "xy_args": xy_args, "joins": joins, "no_tipe": no_tipe, "with_tipe": with_tipe,
            "numeric": inf[0], "then": inf[1], "else": inf[2], "dispatch": dispatch, "yields": sorted(ys)}


def supervised_lean(t):
    q = lambda x: json.dumps(x)
    lst = lambda xs: "[%s]" % ", ".join(xs)
    b = lambda x: "true" if x else "false"
    return ("-- GENERATED by harness/props/c14.py (pre_build) from coba/environments/supervised.py on every run; do not edit.\n"
            "namespace Coba.Generated.C14\n"
            "def extracted : Bool := true\n"
            "def dispatch : List (String × Bool × String × String) := [\n  %s]\n"
            "def inferNumeric : List String := %s\n"
            "def inferThen : String := %s\n"
            "def inferElse : String := %s\n"
            "def sourcesNoTipe : List String := %s\n"
            "def sourcesTipe : List String := %s\n"
            "def sourceArgs : List (String × Nat × String) := %s\n"
            "def xyArgs : List (String × Nat × String) := %s\n"
            "def joins : List (String × String × List String) := %s\n"
            "def yields : List (String × String) := %s\n"
            "end Coba.Generated.C14\n"
            % (",\n  ".join("(%s, %s, %s, %s)" % (q(l), b(c), q(r), q(k)) for l, c, r, k in t["dispatch"]),
               lst(map(q, t["numeric"])), q(t["then"]), q(t["else"]), lst(map(q, t["no_tipe"])), lst(map(q, t["with_tipe"])),
               lst("(%s, %d, %s)" % (q(n), i, q(d)) for n, i, d in t["source_args"]),
               lst("(%s, %d, %s)" % (q(n), i, q(d)) for n, i, d in t["xy_args"]),
               lst("(%s, %s, %s)" % (q(a), q(c), lst(map(q, xs))) for a, c, xs in t["joins"]),
               lst("(%s, %s)" % (q(k), q(v)) for k, v in t["yields"])))


SUPERVISED_FALLBACK = ("namespace Coba.Generated.C14\ndef extracted : Bool := false\n"
                       "def dispatch : List (String × Bool × String × String) := []\ndef inferNumeric : List String := []\n"
                       "def inferThen : String := \"\"\ndef inferElse : String := \"\"\ndef sourcesNoTipe : List String := []\n"
                       "def sourcesTipe : List String := []\ndef sourceArgs : List (String × Nat × String) := []\n"
                       "def xyArgs : List (String × Nat × String) := []\ndef joins : List (String × String × List String) := []\n"
                       "def yields : List (String × String) := []\nend Coba.Generated.C14\n")


class C14(Property):
    id = "C14"
    prop_modules = ["CobaVerif.Props.C14"]
    quick_n = 4000
    thorough_n = 60000
    search_n = 3000
    case_timeout = 60
    workers = 8
    rule = ("example sets of 0-12 examples from 7 source kinds (in-memory (X,Y); ListSource rows dense/sparse with label_col; CSV, dense ARFF, "
            "sparse ARFF, LibSVM, Manik text written by canonical writers and read through coba's readers, from IterableSource or a temp file), "
            "labels string / int / float / bool / Categorical / one-element list / label sets, label_type given (c C r R m M) or inferred, label column by "
            "index (also negative) or header, take absent or around n, via SupervisedSimulation or Environments.from_supervised, positional or keyword; "
            "CSV with tab delimiter / edge white space / empty edge fields / kept line terminators; already labelled sources (rows carrying their own tipe) with an explicit label_type that agrees, differs or is absent; "
            "text sources with and without take are parsed by the model itself (C12 reader models: CSV, LibSVM, Manik, whole-file dense and sparse ARFF through arffRead), take is sampled by the model itself (C09 reservoir) between reader and LabelRows; "
            "(X,Y) handed over as lists, tuples or one-shot iterables (generator, map, iterator), optionally after a first read that was abandoned after 1..n interactions; "
            "every 5th case (chosen by a CRC of the case) carries an operation history of 3-6 operations around the two observed reads of one environment: unobserved full reads, abandoned reads, "
            "observed and abandoned reads of a sibling environment (same kind, other examples), the consumer editing the action list handed out by a finished read, and - for a text table whose label "
            "column is named - the source text rewritten with its columns in another order between the reads (the later read is held against the rewritten table); "
            "7% of the cases lie outside the quantifier (duplicate label lists, mixed label kinds, repeated CSV header names ...) and are only compared with the model; "
            "non-trivial = at least 2 examples after selection and at least 2 distinct labels (classification / multi-label) or 2 distinct targets (regression)")
    trusted_base = [
        "text sources: the model reads the text itself with C12's reader models, without take (csvSim, libsvmSim, manikSim, arffDenseSim for half of the dense ARFF cases) and with take (csvSimT, libsvmSimT, manikSimT: reader, then the C09 reservoir, then LabelRows/read); dense ARFF (other half, and all with take) and sparse ARFF go as whole files through C12.arffRead (arffFileSim); only already labelled sources (pre) still hand the model the table the harness wrote",
        "take: the model runs C09's reservoir (Algorithm L, seed 1) itself; only the float quantities (skip count, slot) of its loop iterations are recomputed by the harness with the code's formulas from the LCG uniforms (as in C09) and handed in; the statement-level monitor (B) takes the sample positions from coba's own Reservoir",
        "the lazy context object (C13's DRow model: plain list / HeadDense under LabelDense.feats = DropOne) is evaluated by the driver for list-backed tables (CSV, ListSource rows) without take and compared on iteration, len, ctx[j], ctx[name]; ARFF rows (LazyDense) and sparse rows are compared through the C14-level featureByName / context checks only",
        "action order: (A) compares action lists as multisets; that the order is fixed is decided by (B) (same list in every interaction, on both reads, for reversed and shuffled examples, and - 2% of the cases - in a fresh interpreter with another hash seed); agreement with the modelled order (ascending / declared levels) is counted in the tag action-order:as-modelled",
        "ARFF numeric tokens are converted by the model only when they are exact decimals (the writer emits small integers and dyadic fractions); float(token) in general is CPython's",
        "translator step (pre_build): the argument tables of SupervisedSimulation.__init__, the label-type sources / inference rule and the reward / action dispatch of SupervisedSimulation.read are read off the source under test with Python's ast (the if-chain is walked symbolically for every label-type literal x kind of first label; nothing is imported or run) and written to Generated/C14Supervised.lean; theorem supervised_source_as_modelled proves them equal to the model's tables; the extractor itself is trusted (its output is also compared with the driver's tables at run time, corpus case src=tables)",
        "float arithmetic: generated numbers are small integers or dyadic rationals with few bits, so -|a-y| is exact in doubles; Jaccard values are compared as the double nearest to the model's rational",
    ]
    assumptions = [
        "a list-valued label under label type m is a label *set* (no repeated member); repeated members are outside the statement (only compared with the model)",
        "the Jaccard overlap of two empty sets is undefined and not demanded (the code raises ZeroDivisionError, as the model does)",
        "take with the (X,Y) overload is not part of the documented signature and is not generated",
        "'the distinct labels of the data' of a simulation with take are read as the labels of the sampled examples (the simulation's own examples): that is what the code computes and what take_sample_spec states",
        "regression from CSV / LibSVM / Manik text is not generated: these readers deliver labels as strings / lists of strings",
    ]
    partial_theorems = {"Coba.C14.end_to_end_arff_file_sparse_under": "kept from phase 4 (stated under the named hypothesis SparseFileRoundTrip); since phase 5 the hypothesis is discharged for every whole sparse file of the canonical writer by sparse_file_roundtrip / sparse_file_roundtrip_relation (C12's arff_sparse_table_roundtrip), and end_to_end_arff_file_sparse / end_to_end_arff_sparse_xy state the result without it",
                        "Coba.C14.end_to_end_arff_file_sparse": "carries the hypotheses of C12's arff_sparse_table_roundtrip (forced by C12-F8/F9/F10/F12/F13: header tokens, bare sparse values, cells that fit their column)",
                        "Coba.C14.end_to_end_arff_file_dense": "carries the hypotheses of C12's arff_dense_table_roundtrip (forced by C12-F8/F9/F11/F12/F13/F15/F17)",
                        "Coba.C14.end_to_end_arff_dense": "carries C12's forced hypotheses (AttrW.ok: C12-F8/F9, arffRowOk: C12-F11) and covers the reader's simple path with header lines and data lines given separately; sparse ARFF has no end-to-end theorem (C12 proves the sparse round trip per row only)",
                        "Coba.C14.end_to_end_arff_dense_xy_partial": "ARFF = (X,Y) form only for dense files inside C12's AttrW.ok / arffRowOk with header and data lines handed over separately (no whole-file arffRead round trip in C12); sparse data lines not proved (C12 has the row-level arff_sparse_roundtrip_partial only, not sparseRows over a file)"}

    def pre_build(self):
        """translator step: the argument tables of `SupervisedSimulation.__init__`, the label-type sources / inference rule and the
        reward / action dispatch of `SupervisedSimulation.read`, read off the CURRENT source with `ast` and written to
        lean/CobaVerif/Generated/C14Supervised.lean; `supervised_source_as_modelled` (Props/C14.lean) proves them equal to the
        tables the model assumes (Model/C14: dispatchTable, inferNumericTypes, typeSources, ctorSourceArgs, ctorXYArgs, pipelineJoins, yieldTable)"""
        repo = os.environ.get("COBA_REPO", "/repo")
        try:
            t = extract_supervised(repo)
            body = supervised_lean(t)
            notes = ["SupervisedSimulation extracted: %d dispatch rows, inference %s -> %r else %r, sources %s / %s, %d+%d constructor arguments, joins %s"
                     % (len(t["dispatch"]), t["numeric"], t["then"], t["else"], t["no_tipe"], t["with_tipe"], len(t["source_args"]), len(t["xy_args"]),
                        [j[1] for j in t["joins"]])]
        except Exception as e:  # noqa: BLE001
            body = ("-- GENERATED: SupervisedSimulation could not be extracted (%s)\n" % str(e).replace("\n", " ")[:150]) + SUPERVISED_FALLBACK
            notes = ["SupervisedSimulation could NOT be extracted (%s): supervised_source_as_modelled fails" % e]
        path = os.path.join(lean.LEAN_DIR, "CobaVerif", "Generated", "C14Supervised.lean")
        old = open(path, encoding="utf-8").read() if os.path.exists(path) else None
        if old != body:
            os.makedirs(os.path.dirname(path), exist_ok=True)
            with open(path, "w", encoding="utf-8") as f:
                f.write(body)
        return notes

    def corpus(self):
        cat = lambda s, L: {"cat": s, "levels": L}
        t = lambda *xs: {"t": [ci(x) for x in xs]}
        base = {"via": "sim", "kw": False}
        cs_ = []
        # (X,Y): the pinned tests' shapes and the boundary cases
        cs_.append(dict(base, src="xy", label_type="C", rows=[[t(1, 2), ci(2)], [t(3, 4), ci(2)], [t(5, 6), ci(1)]]))
        cs_.append(dict(base, src="xy", label_type=None, rows=[[t(1), cs("10")], [t(2), cs("9")], [t(3), cs("10")]]))
        cs_.append(dict(base, src="xy", label_type="c", rows=[[t(1), ci(10)], [t(2), ci(9)], [t(3), cf([9, 1])]]))
        cs_.append(dict(base, src="xy", label_type=None, rows=[]))
        cs_.append(dict(base, src="xy", label_type="m", rows=[[t(1), {"l": [ci(1), ci(2), ci(3)]}], [t(2), {"l": [ci(2)]}], [t(3), {"l": [ci(3), ci(1)]}]]))
        cs_.append(dict(base, src="xy", label_type="m", rows=[[t(1), {"l": [cs("ab"), cs("c")]}], [t(2), {"l": [cs("ab")]}]]))
        cs_.append(dict(base, src="xy", label_type="m", rows=[[t(1), {"l": [ci(1)]}], [t(2), {"l": []}]]))
        cs_.append(dict(base, src="xy", label_type=None, rows=[[t(1), cat("y", ["y", "x"])], [t(2), cat("x", ["y", "x"])]]))
        cs_.append(dict(base, src="xy", label_type=None, rows=[[t(1), cat("a", ["a", "b"])]]))
        cs_.append(dict(base, src="xy", label_type=None, rows=[[ci(0), cf([3, 2])], [ci(1), ci(2)], [ci(2), ci(-1)]]))
        cs_.append(dict(base, src="xy", via="env", label_type=None, rows=[[ci(1), cs("a")], [ci(2), cs("b")], [ci(3), cs("a")]]))
        cs_.append(dict(base, src="xy", label_type=None, rows=[[t(1), {"l": [cs("b")]}], [t(2), {"l": [cs("a")]}]]))
        # rows + label_col (index, negative index, sparse key, absent sparse label)
        cs_.append(dict(base, src="rows", sparse=False, label_col=1, label_type=None, take=None, rows=[[ci(1), cs("u"), ci(2)], [ci(3), cs("v"), ci(4)]]))
        cs_.append(dict(base, src="rows", sparse=False, label_col=-1, label_type=None, take=None, rows=[[ci(1), ci(2), cs("u")], [ci(3), ci(4), cs("v")]]))
        cs_.append(dict(base, src="rows", sparse=False, label_col=0, label_type="c", take=2, rows=[[ci(k % 3), ci(k)] for k in range(6)]))
        cs_.append(dict(base, src="rows", sparse=True, label_col=cs("y"), label_type="c", take=None,
                        rows=[[[cs("a"), ci(1)], [cs("y"), ci(2)]], [[cs("b"), ci(2)]], [[cs("y"), ci(2)], [cs("a"), ci(3)]]]))
        # text sources
        cs_.append(dict(base, src="csv", header=["a", "b", "c"], label_col="b", label_type=None, take=None, file=False,
                        rows=[[cs("1"), cs("x"), cs("3")], [cs("4"), cs("y"), cs("6")], [cs("7"), cs("x"), cs("9")]]))
        cs_.append(dict(base, src="csv", header=None, label_col=-1, label_type=None, take=None, file=False,
                        rows=[[cs("1"), cs("x")], [cs("4"), cs("y")]]))
        cs_.append(dict(base, src="csv", header=None, label_col=0, label_type="c", take=2, file=True,
                        rows=[[cs("x"), cs("1")], [cs("y"), cs("4")], [cs("x"), cs("7")], [cs("z"), cs("8")]]))
        cs_.append(dict(base, src="arff", header=["a", "b", "c"], types=["num", ["x", "y", "z"], "str"], label_col="b", label_type=None, take=None, file=False,
                        rows=[[ci(1), cs("x"), cs("foo")], [ci(2), cs("y"), cs("bar")], [ci(3), cs("x"), cs("baz")]]))
        cs_.append(dict(base, src="arff", header=["a", "b"], types=["num", ["y", "x"]], label_col=1, label_type=None, take=None, file=False,
                        rows=[[ci(1), cs("x")], [ci(2), cs("y")]]))
        cs_.append(dict(base, src="arff", header=["a", "b", "c"], types=["num", ["x", "y"], "str"], label_col="a", label_type=None, take=None, file=False,
                        rows=[[cf([3, 2]), cs("x"), cs("foo")], [ci(2), cs("y"), cs("bar")]]))
        cs_.append(dict(base, src="sarff", header=["a", "b", "c"], types=["num", "num", ["x", "y"]], label_col="c", label_type=None, take=None, file=False,
                        rows=[[[0, ci(1)], [1, ci(2)], [2, cs("x")]], [[1, ci(3)], [2, cs("y")]]]))
        cs_.append(dict(base, src="sarff", header=["a", "b", "c"], types=["num", "num", "num"], label_col=1, label_type=None, take=None, file=False,
                        rows=[[[0, ci(1)], [1, ci(2)]], [[1, ci(3)], [2, ci(5)]], [[0, ci(2)]]]))
        cs_.append(dict(base, src="libsvm", label_col=None, label_type=None, take=None, file=False,
                        rows=[{"labels": ["0"], "feats": [[1, ci(2)], [2, ci(3)]]}, {"labels": ["1"], "feats": [[1, ci(1)]]}, {"labels": ["10"], "feats": []}, {"labels": ["9"], "feats": [[2, ci(1)]]}]))
        cs_.append(dict(base, src="manik", label_col=None, label_type="m", take=None, file=False,
                        rows=[{"labels": ["0", "1"], "feats": [[1, ci(2)]]}, {"labels": ["1"], "feats": [[1, ci(1)]]}, {"labels": ["2", "0"], "feats": [[2, ci(1)]]}]))
        cs_.append(dict(base, src="manik", label_col=None, label_type="m", take=2, file=True,
                        rows=[{"labels": ["ab", "b"], "feats": [[1, ci(2)]]}, {"labels": ["b"], "feats": [[1, ci(1)]]}, {"labels": ["ab"], "feats": [[2, ci(1)]]}]))
        # CSV where white space at the edge of a line is data (tab separated with an empty first/last field; ' a' vs 'a')
        cs_.append(dict(base, src="csv", header=["y", "f1", "f2"], label_col=0, label_type="c", take=None, file=False, dialect={"delimiter": "\t"}, eol="\n",
                        rows=[[cs("a"), cs("1"), cs("5")], [cs("b"), cs("2"), cs("")], [cs("a"), cs("3"), cs("7")], [cs("c"), cs("4"), cs("")]]))
        cs_.append(dict(base, src="csv", header=None, label_col=2, label_type="c", take=None, file=False, dialect={"delimiter": "\t"},
                        rows=[[cs(""), cs("5"), cs("a")], [cs("1"), cs("6"), cs("b")], [cs(""), cs("7"), cs("b")]]))
        cs_.append(dict(base, src="csv", header=None, label_col=0, label_type=None, take=None, file=False,
                        rows=[[cs(" a"), cs("1")], [cs("a"), cs("2")], [cs(" a"), cs("3")]]))
        cs_.append(dict(base, src="csv", header=None, label_col=-1, label_type=None, take=None, file=True,
                        rows=[[cs("1"), cs("a ")], [cs("2"), cs("a")], [cs("3"), cs("")]]))
        # already labelled sources: the explicit label_type wins over the rows' own tipe; without one the tipe decides
        num_rows = [[ci(1), ci(2), ci(3)], [ci(4), ci(5), ci(1)], [ci(7), ci(8), ci(3)], [ci(9), ci(9), ci(2)]]
        for tipe, given in (("r", "c"), ("c", "r"), ("c", None), ("r", None), (None, "c")):
            cs_.append(dict(base, src="rows", sparse=False, label_col=2, label_type=given, take=None, pre={"tipe": tipe}, rows=num_rows))
        cs_.append(dict(base, src="arff", header=["a", "b", "y"], types=["num", "num", "num"], label_col="y", label_type="c", take=None, file=False, pre={"tipe": "r"}, rows=num_rows))
        cs_.append(dict(base, src="arff", header=["a", "b", "y"], types=["num", "num", "num"], label_col="y", label_type="r", take=2, file=False, pre={"tipe": "c"}, rows=num_rows))
        cs_.append(dict(base, src="rows", sparse=False, label_col=1, label_type="m", take=None, pre={"tipe": "c"},
                        rows=[[ci(1), {"l": [cs("x"), cs("y")]}], [ci(2), {"l": [cs("y")]}], [ci(3), {"l": [cs("z"), cs("x")]}]]))
        cs_.append(dict(base, src="rows", sparse=True, label_col=cs("y"), label_type="c", take=None, pre={"tipe": "r"},
                        rows=[[[cs("a"), ci(1)], [cs("y"), ci(2)]], [[cs("b"), ci(2)]], [[cs("y"), ci(3)]]]))
        # regression targets no double holds: rewards at distance 0, 1, 3 are compared exactly
        cs_.append(dict(base, src="xy", label_type=None, rows=[[t(1), ci(2 ** 60 + 1)], [t(2), ci(2 ** 53 + 1)], [t(3), ci(5)]]))
        cs_.append(dict(base, src="xy", label_type="r", rows=[[t(1), {"fr": [1, 3]}], [t(2), {"fr": [10 ** 18 + 1, 3]}], [t(3), ci(-(2 ** 62) - 3)]]))
        cs_.append(dict(base, src="rows", sparse=False, label_col=0, label_type="r", take=None, rows=[[ci(2 ** 64 - 1), ci(1)], [ci(10 ** 20 + 7), ci(2)]]))
        cs_.append(dict(base, src="xy", label_type="c", rows=[[t(1), ci(2 ** 60)], [t(2), ci(2 ** 60 + 1)], [t(3), ci(2 ** 60)]]))
        # reward objects must survive pickle / deepcopy / coba.json unchanged: targets with many decimals, strings with blanks and quotes, tuples
        cs_.append(dict(base, src="xy", label_type=None, rows=[[t(1), {"x": "0.1234567"}], [t(2), {"x": "-3.00000123"}], [t(3), {"x": "1e-07"}]]))
        cs_.append(dict(base, src="xy", label_type="c", rows=[[t(1), {"x": "0.1234567"}], [t(2), {"x": "0.1234568"}], [t(3), cf([1, 2])]]))
        cs_.append(dict(base, src="xy", label_type=None, rows=[[t(1), cs("it's \"q\"")], [t(2), cs(" a,b ")], [t(3), cs("x y")]]))
        cs_.append(dict(base, src="xy", label_type="m", rows=[[t(1), {"l": [cs("a b"), cs("c\"d")]}], [t(2), {"l": [cs("a b")]}]]))
        cs_.append(dict(base, src="xy", label_type="c", no_model=True, rows=[[t(1), {"t": [ci(1), ci(2)]}], [t(2), {"t": [ci(1), ci(3)]}]]))
        # labels whose repr contains separator sequences (", " etc.): one case per reward class that carries such a state
        cs_.append(dict(base, src="xy", label_type=None, rows=[[t(1), cs("Washington, DC")], [t(2), cs("Washington,DC")], [t(3), cs("k: v")], [t(4), cs("a', 'b")]]))    # BinaryReward (+ DiscreteReward over the actions)
        cs_.append(dict(base, src="xy", label_type="m", rows=[[t(1), {"l": [cs("Washington, DC"), cs("x")]}], [t(2), {"l": [cs("Washington,DC")]}], [t(3), {"l": [cs('a", "b'), cs("( x"), cs("y )")]}]]))   # HammingReward
        cs_.append(dict(base, src="xy", label_type="c", no_model=True, rows=[[t(1), {"t": [cs("Washington, DC"), ci(1)]}], [t(2), {"t": [cs("Washington,DC"), ci(1)]}]]))   # BinaryReward with a tuple state
        cs_.append(dict(base, src="rows", sparse=False, label_col=1, label_type=None, take=None, rows=[[ci(1), cs("back\\nslash")], [ci(2), cs("it\\'s")], [ci(3), cs(", ")]]))
        # (X,Y) handed over as one-shot iterables (generator / map / iterator) and a first read that is abandoned after one interaction:
        # every later read is still one interaction per example (classification materialises the rows, regression streams them,
        # multi-label; through SupervisedSimulation and Environments.from_supervised)
        xs = [[t(1), cs("b")], [t(2), cs("a")], [t(3), cs("c")], [t(4), cs("a")]]
        cs_.append(dict(base, src="xy", label_type="c", rows=xs, xy_as=["map", "gen"], abandon=1))
        cs_.append(dict(base, src="xy", label_type=None, rows=xs, xy_as=["gen", "gen"]))
        cs_.append(dict(base, src="xy", label_type=None, rows=[[t(1), ci(3)], [t(2), cf([5, 2])], [t(3), ci(-1)], [t(4), ci(7)]], xy_as=["iter", "list"], abandon=1))
        cs_.append(dict(base, src="xy", label_type="r", kw=True, rows=[[t(1), ci(3)], [t(2), ci(4)], [t(3), ci(-1)]], xy_as=["list", "map"], abandon=2))
        cs_.append(dict(base, src="xy", label_type="m", rows=[[t(1), {"l": [ci(1), ci(2)]}], [t(2), {"l": [ci(2)]}], [t(3), {"l": []}]], xy_as=["gen", "iter"], abandon=1))
        cs_.append(dict(base, src="xy", via="env", label_type="c", rows=xs, xy_as=["iter", "iter"], abandon=1))
        cs_.append(dict(base, src="xy", label_type=None, rows=[[t(1), cat("y", ["y", "x"])], [t(2), cat("x", ["y", "x"])]], xy_as=["map", "map"]))
        cs_.append(dict(base, src="xy", label_type="c", rows=xs, abandon=1))
        # phase 5: the dispatch of read() for every label-type literal (either case) x kind of first label, positional and keyword,
        # and the tables the model assumes about the constructor / read() against the source under test
        nums = [[t(1), ci(3)], [t(2), cf([1, 2])], [t(3), ci(-2)]]
        sets = [[t(1), {"l": [cs("a"), cs("b")]}], [t(2), {"l": [cs("b")]}], [t(3), {"l": []}]]
        cats = [[t(1), cat("y", ["z", "y", "x"])], [t(2), cat("x", ["z", "y", "x"])], [t(3), cat("y", ["z", "y", "x"])]]
        for lit, rows_ in (("r", nums), ("R", nums), ("c", nums), ("C", nums), ("m", sets), ("M", sets), ("c", cats), ("C", cats), (None, nums), (None, cats),
                           (None, [[t(1), cf([1, 2])], [t(2), ci(1)]]), (None, [[t(1), {"b": True}], [t(2), {"b": False}]])):
            for kw in (False, True):
                cs_.append(dict(base, src="xy", kw=kw, label_type=lit, rows=rows_))
        # the source overload called with 1, 2, 3, 4 positional arguments and source + keywords
        tab = [[ci(1), cs("a"), ci(5)], [ci(2), cs("b"), ci(6)], [ci(3), cs("a"), ci(7)], [ci(4), cs("c"), ci(8)]]
        for pm in ("short", "mixed", None):
            for lc_, lt_, tk in ((1, None, None), (1, "c", None), (2, "c", None), (2, "r", None), (2, None, 2), (1, "C", 3), (0, "R", None)):
                cs_.append(dict(base, src="rows", sparse=False, label_col=lc_, label_type=lt_, take=tk, rows=tab, **({"pos_min": pm} if pm else {})))
        cs_.append({"src": "tables", "rows": [], "via": "sim", "kw": False})
        # phase 6: every operation history (HISTORIES) over an (X,Y) classification / Categorical / multi-label / regression
        # environment, an in-memory table with take, and a CSV text with a header; the sibling (sibling_of) has other labels
        hx = [[t(1), cs("b")], [t(2), cs("a")], [t(3), cs("b")], [t(4), cs("c")], [t(5), cs("d")]]
        hc = [[t(1), cat("y", ["z", "y", "x"])], [t(2), cat("x", ["z", "y", "x"])], [t(3), cat("x", ["z", "y", "x"])], [t(4), cat("z", ["z", "y", "x"])]]
        hm = [[t(1), {"l": [cs("a"), cs("b")]}], [t(2), {"l": [cs("b")]}], [t(3), {"l": []}], [t(4), {"l": [cs("q")]}]]
        htab = [[ci(1), cs("a"), ci(5)], [ci(2), cs("b"), ci(6)], [ci(3), cs("a"), ci(7)], [ci(4), cs("c"), ci(8)], [ci(5), cs("d"), ci(9)]]
        for hi, h in enumerate(HISTORIES):
            cs_.append(dict(base, src="xy", label_type="c", rows=hx, hist=list(h)))
            cs_.append(dict(base, src="xy", label_type=None, rows=hc, hist=list(h), kw=bool(hi % 2)))
            cs_.append(dict(base, src="xy", label_type="m", rows=hm, hist=list(h)))
            cs_.append(dict(base, src="xy", label_type=None, rows=nums + [[t(4), ci(9)]], hist=list(h), via="env" if hi % 2 else "sim"))
            cs_.append(dict(base, src="rows", sparse=False, label_col=1, label_type="c", take=3 if hi % 2 else None, rows=htab, hist=list(h)))
            cs_.append(dict(base, src="csv", header=["a", "b", "c"], label_col="b", label_type=None, take=None, file=bool(hi % 2), hist=list(h),
                            rows=[[cs("1"), cs("x"), cs("3")], [cs("4"), cs("y"), cs("6")], [cs("7"), cs("x"), cs("9")], [cs("8"), cs("w"), cs("2")]]))
        # round i (C14-im2): a named label column, the text rewritten with permuted columns between reads of one environment
        for hi, h in enumerate(P_HISTORIES):
            for file_ in (False, True):
                cs_.append(dict(base, src="csv", header=["x1", "x2", "y"], label_col="y", label_type="c" if hi % 2 else None, take=None, file=file_, hist=list(h),
                                rows=[[cs("1"), cs("2"), cs("a")], [cs("3"), cs("4"), cs("b")], [cs("5"), cs("6"), cs("a")]]))
            cs_.append(dict(base, src="csv", header=["y", "x1"], label_col="y", label_type=None, take=2, file=False, hist=list(h), kw=True,
                            rows=[[cs("a"), cs("1")], [cs("b"), cs("3")], [cs("c"), cs("5")]]))
            cs_.append(dict(base, src="arff", header=["f", "y", "g"], types=["num", ["u", "v", "w"], "str"], label_col="y", label_type=None, take=None, file=bool(hi % 2),
                            hist=list(h), rows=[[ci(1), cs("u"), cs("p")], [ci(2), cs("v"), cs("q")], [ci(3), cs("u"), cs("r")]]))
        for c in cs_:
            c.setdefault("take", None)
        return cs_

    def generate(self, rng, tier):
        return gen_case(rng, tier)

    def exhaustive(self, tier):
        """small-scope sweep (thorough tier): every label assignment of up to 3 examples over small universes,
        every pair of label sets over {1,2,3}, every label position x take for 3 dense rows"""
        out = []
        base = {"src": "xy", "via": "sim", "kw": False, "take": None}
        ctx = lambda k: {"t": [ci(k)]}
        import itertools
        for uni, lts in (([cs("a"), cs("B"), cs("10")], (None, "c")), ([ci(9), ci(10), ci(-1)], ("c", "r", None)),
                         ([{"cat": "x", "levels": ["y", "x"]}, {"cat": "y", "levels": ["y", "x"]}], (None,))):
            for n in range(0, 4):
                for ys in itertools.product(uni, repeat=n):
                    for lt in lts:
                        out.append(dict(base, label_type=lt, rows=[[ctx(k), y] for k, y in enumerate(ys)]))
        subsets = [[ci(v) for v in (1, 2, 3) if m >> (v - 1) & 1] for m in range(8)]
        for a in subsets:
            for b in subsets:
                out.append(dict(base, label_type="m", rows=[[ctx(0), {"l": a}], [ctx(1), {"l": b}]]))
        for width in (1, 2):
            for li in range(-(width + 1), width + 1):
                for take in (None, 0, 1, 2, 3, 4):
                    rows = []
                    for k in range(3):
                        cells = [ci(10 * k + j) for j in range(width)]
                        cells.insert(norm_index(li, width + 1), cs("ab"[k % 2]))
                        rows.append(cells)
                    out.append({"src": "rows", "via": "sim", "kw": False, "sparse": False, "label_col": li, "label_type": None, "take": take, "rows": rows})
        return out

    def search(self, rng, tier):
        return gen_case(rng, tier, edge_p=0.0)

    # ---- evaluation
    def evaluate_tables(self, case, driver):
        """the tables the model assumes about SupervisedSimulation.__init__ / .read (as the driver holds them) against the ones
        read off the source under test (the run-time twin of theorem supervised_source_as_modelled), and - statement level - the
        constructor's defaults observed on the real code: leaving out label_col / label_type / take is giving None"""
        fails, tags = [], ["src:tables"]
        repo = os.environ.get("COBA_REPO", "/repo")
        try:
            t = extract_supervised(repo)
        except Exception as e:  # noqa: BLE001
            t = None
            fails.append(F("A", "SupervisedSimulation could not be read off the source: %s" % e, "A:source-tables:extract"))
        if driver is not None and t is not None:
            m = driver.ask({"op": "tables"})["tables"]
            mine = {"dispatch": [list(r) for r in t["dispatch"]], "numeric": t["numeric"], "no_tipe": t["no_tipe"], "with_tipe": t["with_tipe"],
                    "source_args": [list(r) for r in t["source_args"]], "xy_args": [list(r) for r in t["xy_args"]],
                    "joins": [[a, c, list(xs)] for a, c, xs in t["joins"]], "yields": [list(r) for r in t["yields"]]}
            for k in sorted(mine):
                tags.append("tables:" + k)
                if mine[k] != m.get(k):
                    fails.append(F("A", "SupervisedSimulation %s: the source has %s, the model assumes %s" % (k, short(mine[k]), short(m.get(k))), "A:source-tables:" + k))
                    break
        return {"fails": fails, "nontrivial": False, "tags": tags, "impl": None, "model": None}

    def evaluate(self, case, driver):
        fails, tags = [], []
        src = case["src"]
        if src == "tables":
            return self.evaluate_tables(case, driver)
        exp = expectation(case)
        prng = Rng(json.dumps(case, sort_keys=True), "probes")
        probes = make_probes(case, exp, prng)
        impl = run_impl(case, probes, reads=2)
        known = known_sigs()
        skips = [set(), set()]
        seen = set()
        cases_at = (impl[0].pop("cases_at", None) if isinstance(impl[0], dict) else None) or [case, case]
        rewritten = [c is not case and c != case for c in cases_at[:2]]
        for k in (0, 1):
            exp_k = expectation(cases_at[k]) if rewritten[k] else exp
            for sig, what, sk in monitor(impl[k], exp_k, probes, cases_at[k], k):
                if rewritten[k]:
                    what = "after the source was rewritten with its columns in another order (history %s): %s" % ("/".join(case["hist"]), what)
                if case.get("edge") and not sig.startswith("xy-second-read"):
                    continue
                if case.get("edge_kind") == "duplicate-header":
                    continue
                if sig in known:
                    skips[k].update(sk)
                if sig not in seen:
                    seen.add(sig)
                    fails.append(F("B", what, sig))
        if case.get("hist"):
            # phase 6: the sibling's observed reads are held against the statement for the sibling's own examples
            sib_case = sibling_of(case)
            sib_exp = expectation(sib_case)
            for j, so in enumerate((impl[0].pop("sibling", None) if isinstance(impl[0], dict) else None) or []):
                for sig, what, sk in monitor(so, sib_exp, [], sib_case, j):
                    if sig in known:
                        continue
                    if "sibling-read:" + sig not in seen:
                        seen.add("sibling-read:" + sig)
                        fails.append(F("B", "history %s, read #%d of the sibling environment: %s" % ("/".join(case["hist"]), j + 1, what), "sibling-read:" + sig))
        if case.get("edge") and exp["lt"] == "m" and any(x.startswith("reward-m:offered") for x in known):
            # outside the quantifier the monitor does not run; while the scalar-action finding is open the
            # model (fixed behaviour) is not compared on the rewards of the offered (scalar) actions
            skips[0].add("on_actions")
            skips[1].add("on_actions")
        if case.get("edge") and "categorical-unused-level-offered" in known and exp["labels"] and exp["labels"][0][0] == "cat":
            # the same for the unused-level finding: the model mirrors the repaired shortcut
            skips[0].add("actions")
            skips[1].add("actions")
        # the "fixed order" clause: the same examples in reverse order are offered the same action list
        lt = exp["lt"]
        if not case.get("edge") and case.get("take") is None and lt in ("c", "m") and len(case["rows"]) >= 2 and "ints" in impl[0] and impl[0]["ints"]:
            rev = run_impl(dict(case, rows=list(reversed(case["rows"]))), [], reads=1)[0]
            if "ints" in rev and rev["ints"] and [vkey(a) for a in rev["ints"][0]["actions"]] != [vkey(a) for a in impl[0]["ints"][0]["actions"]]:
                if sorted(map(json.dumps, map(vkey, rev["ints"][0]["actions"]))) == sorted(map(json.dumps, map(vkey, impl[0]["ints"][0]["actions"]))):
                    fails.append(F("B", "the action order is not fixed: %s for the examples as given, %s for the same examples in reverse order (%s)"
                                   % (short(impl[0]["ints"][0]["actions"]), short(rev["ints"][0]["actions"]), describe(case)), "actions-order-depends-on-example-order"))
        first_actions = lambda o: [vkey(a) for a in o["ints"][0]["actions"]] if "ints" in o and o["ints"] else None
        same_set = lambda a, b: sorted(map(json.dumps, a)) == sorted(map(json.dumps, b))
        a0 = first_actions(impl[0])
        if not case.get("edge") and lt in ("c", "m") and a0 is not None:
            a1 = first_actions(impl[1])
            if a1 is not None and a1 != a0 and same_set(a0, a1):
                fails.append(F("B", "the action order is not fixed: %s on the first read, %s on the second (%s)" % (short(a0), short(a1), describe(case)),
                               "actions-order-differs-between-reads"))
            orng = Rng(json.dumps(case, sort_keys=True), "order")
            if case.get("take") is None and len(case["rows"]) >= 3:
                shuf = run_impl(dict(case, rows=orng.shuffle(case["rows"])), [], reads=1)[0]
                a2 = first_actions(shuf)
                if a2 is not None and a2 != a0 and same_set(a0, a2):
                    fails.append(F("B", "the action order is not fixed: %s for the examples as given, %s for the same examples in another order (%s)"
                                   % (short(a0), short(a2), describe(case)), "actions-order-depends-on-example-order"))
            if len(a0) >= 2 and not case.get("file") and orng.chance(0.02):
                tags.append("other-process")
                a3 = actions_in_other_process(case)
                if a3 is not None and a3 != a0 and same_set(a0, a3):
                    fails.append(F("B", "the action order is not fixed: %s in this process, %s in a process with another hash seed (%s)"
                                   % (short(a0), short(a3), describe(case)), "actions-order-depends-on-process"))
        # tags
        tags += ["src:" + src, "lt:%s" % lt, "given:%s" % case.get("label_type"), "via:" + case.get("via", "sim")]
        tags.append("n:%s" % (exp["n"] if exp["n"] < 4 else "4+"))
        if case.get("take") is not None:
            nall = len(case["rows"])
            tags.append("take:%s" % ("0" if case["take"] == 0 else "<n" if case["take"] < nall else "=n" if case["take"] == nall else ">n"))
        if case.get("xy_as"):
            tags.append("xy-handed-as:" + "/".join(case["xy_as"]))
            if any(h in ONE_SHOT for h in case["xy_as"]):
                tags.append("xy:one-shot-iterable")
        if case.get("abandon"):
            tags.append("history:abandoned-first-read")
        if case.get("hist"):
            tags.append("history:" + "/".join(case["hist"]))
            tags.append("history:%d-operations" % len(case["hist"]))
        if case.get("edge"):
            tags.append("edge:" + case.get("edge_kind", "?"))
        if case.get("file"):
            tags.append("file")
        if src == "sarff" and not case.get("edge"):
            # the writer's sparse files: `@relation` line, attribute lines with distinct bare names / distinct levels (none is '0'),
            # `@data`, one `{i v,...}` line per row with bare values - the files of sparse_file_roundtrip_relation
            tags.append("sarff:file-of-end_to_end_arff_file_sparse" + (":take" if case.get("take") is not None else ""))
        if src == "arff" and not case.get("edge") and case.get("take") is not None and case.get("pre") is None:
            tags.append("arff:file-of-end_to_end_arff_file_dense_take")
        if src != "xy":
            tags.append("call:" + ("keyword" if case.get("kw") else "positional-" + (case.get("pos_min") or "all-four")))
        if case.get("label_type") in LT_LITERALS:
            tags.append("label-type-literal:" + ("upper" if case["label_type"].isupper() else "lower"))
        if case.get("pre") is not None:
            t, g = case["pre"].get("tipe"), case.get("label_type")
            tags.append("pre:%s" % ("same" if (t or "").lower() == (g or "").lower() else "tipe-only" if g is None else "given-only" if t is None else "conflict:%s>%s" % (t.lower(), g.lower())))
        if src == "csv":
            if (case.get("dialect") or {}).get("delimiter") == "\t":
                tags.append("csv:tab")
            allrows = case["rows"] + ([[{"s": h} for h in case["header"]]] if case.get("header") else [])
            if any(r[0]["s"] == "" or r[-1]["s"] == "" for r in allrows):
                tags.append("csv:empty-edge-field")
            if any(r[0]["s"] != r[0]["s"].strip() or r[-1]["s"] != r[-1]["s"].strip() for r in allrows):
                tags.append("csv:edge-white-space")
        if isinstance(case.get("label_col"), int):
            tags.append("label_col:neg-index" if case["label_col"] < 0 else "label_col:index")
        elif isinstance(case.get("label_col"), str):
            tags.append("label_col:header")
        elif isinstance(case.get("label_col"), dict):
            tags.append("label_col:key")
        if exp["labels"]:
            l0 = exp["labels"][0]
            tags.append("label:" + ("cat" if l0[0] == "cat" else "list" if l0[0] == "L" else "str" if l0[0] == "s" else "num"))
        if any(l[0] == "q" and l[2] == 1 and abs(l[1]) >= 2 ** 53 for l in exp["labels"]):
            tags.append("label:int-beyond-2^53")
        if any(l[0] == "q" and l[2] & (l[2] - 1) for l in exp["labels"]):
            tags.append("label:fraction")
        if any(l[0] == "q" and l[2] > 2 ** 20 and l[2] & (l[2] - 1) == 0 for l in exp["labels"]):
            tags.append("label:many-decimals")
        if case.get("no_model"):
            tags.append("label:tuple(no-model)")
        if "ints" in impl[0] and impl[0]["ints"] and impl[0]["ints"][0].get("copies"):
            tags.append("copies:" + impl[0]["ints"][0]["copies"]["cls"])
        if exp.get("levels") is not None:
            used = {v[1] for v in exp["lab"]}
            tags.append("cat:all-levels-used" if used >= set(exp["levels"]) else "cat:unused-level")
        if lt == "m" and any(not s for s in exp.get("set", [])):
            tags.append("m:empty-label-set")
        for f in fails:
            tags.append("B:" + f["sig"])
        distinct = len({json.dumps(vkey(l)) for l in exp["labels"]})
        nontrivial = exp["n"] >= 2 and distinct >= 2 and not case.get("edge")
        # (A) + (C)
        model = None
        if driver is not None and not case.get("no_model"):
            req = model_request(case, probes)
            ans = driver.ask(req)
            mobs = model_obs(ans, req["op"])
            model = mobs
            tags.append("model-op:" + req["op"] + (":" + ans["shape"] if ans.get("shape") else "") + (":reservoir" if req.get("res") else ""))
            if a0 is not None and "ints" in mobs and mobs["ints"] and len(a0) >= 2:
                tags.append("action-order:as-modelled" if a0 == [vkey(a) for a in mobs["ints"][0]["actions"]] else "action-order:OTHER-than-modelled")
            if mobs.get("err") == "OutOfModel":
                tags.append("out-of-model")
            else:
                for k in (0, 1):
                    if rewritten[k]:
                        continue    # the model was given the table as first written
                    d = compare(impl[k], mobs, skips[k], k)
                    if d:
                        fails.append(F("A", d[1] + " (%s)" % describe(case), d[0]))
                        break
                look = ans.get("lookup")
                if look and "ints" in impl[0] and len(look) == len(impl[0]["ints"]) and not any(f["kind"] == "A" for f in fails) and "acc" not in skips[0]:
                    hdr = case["header"]
                    for i, (it, lk) in enumerate(zip(impl[0]["ints"], look)):
                        acc = it.get("acc")
                        if not acc or not acc.get("headers") or lk is None:
                            continue
                        mine = {json.dumps(canon(h)): (["v", from_label(r["v"])] if "v" in r else ["err", r["err"]]) for h, r in zip(hdr, lk["by_name"])}
                        got = {json.dumps(k): r for k, r in acc["names"]}
                        got[json.dumps(canon(access_keys(case)["label"]))] = acc.get("label")
                        d = None
                        if [h[0] for h in acc["headers"]] != lk["headers"]:
                            d = "context.headers %s, model %s" % (short(acc["headers"]), short(lk["headers"]))
                        else:
                            for k, r in got.items():
                                m = mine.get(k)
                                if m is None or (r[0] != m[0]) or (r[0] == "v" and vkey_deep(r[1]) != vkey_deep(m[1])):
                                    d = "context[%s] gives %s, model %s" % (k, short(r), short(m))
                                    break
                        if d:
                            fails.append(F("A", "interaction %d: %s (%s)" % (i, d, describe(case)), "A:context-lookup"))
                            break
                    tags.append("lookup-compared")
                lazy = ans.get("lazy")
                if lazy and src in ("csv", "rows") and case.get("via") != "env" and "ints" in impl[0] and len(lazy) == len(impl[0]["ints"]) \
                        and not any(f["kind"] == "A" for f in fails) and case.get("edge_kind") != "duplicate-header":
                    # the context object itself (C13's DropOne/HeadDense model inside the C14 model): iteration, len, ctx[j], ctx[name]
                    resj = lambda r: ["v", from_label(r["v"])] if "v" in r and r["v"] is not None else ["err", r.get("err")]
                    keys = access_keys(case) or {"names": [], "label": None}
                    hdr = case.get("header") or []
                    for i, (it, lz) in enumerate(zip(impl[0]["ints"], lazy)):
                        acc = it.get("acc")
                        if lz is None or not acc:
                            continue
                        d = None
                        if it["ctx"] != ["L", [from_label(v) for v in lz["iter"]]]:
                            d = "list(context) %s, model %s" % (short(it["ctx"]), short(lz["iter"]))
                        elif acc.get("len") != ["v", ["q", lz["len"], 1]]:
                            d = "len(context) %s, model %s" % (short(acc.get("len")), lz["len"])
                        elif [vkey_res(p) for p in acc.get("pos", [])] != [vkey_res(resj(r)) for r in lz["pos"]]:
                            d = "context[j] %s, model %s" % (short(acc.get("pos")), short(lz["pos"]))
                        elif acc.get("headers") is not None and hdr:
                            mine = {h: resj(r) for h, r in zip(hdr, lz["by_name"])}
                            got = {k[1]: r for k, r in acc["names"]}
                            if keys["label"] is not None:
                                got[keys["label"]] = acc.get("label")
                            for k, r in got.items():
                                m = mine.get(k)
                                if m is None or r is None or r[0] != m[0] or (r[0] == "v" and r[1] != m[1]):
                                    d = "context[%r] %s, model %s" % (k, short(r), short(m))
                                    break
                        if d:
                            fails.append(F("A", "interaction %d, the lazy context object: %s (%s)" % (i, d, describe(case)), "A:lazy-context"))
                            break
                    tags.append("lazy-context-compared")
                if not case.get("edge"):
                    for sig, what, _ in monitor(mobs, exp, probes, case, 0, who="model"):
                        if sig != "categorical-unused-level-offered":
                            fails.append(F("C", what, "C:" + sig))
        return {"fails": fails, "nontrivial": nontrivial, "tags": tags, "impl": impl[0] if len(json.dumps(impl[0])) < 4000 else {"ints": len(impl[0].get("ints", []))}, "model": model if model is None or len(json.dumps(model)) < 4000 else None}

    # ---- shrinking
    def shrink(self, case):
        rows = case["rows"]
        for k in range(len(rows)):
            yield dict(case, rows=rows[:k] + rows[k + 1:])
        if case.get("take") is not None:
            yield dict(case, take=None)
            if case["take"] > 0:
                yield dict(case, take=case["take"] - 1)
        for key, val in (("via", "sim"), ("kw", False), ("file", False)):
            if case.get(key) not in (val, None):
                yield dict(case, **{key: val})
        if case.get("explicit_none"):
            c = dict(case)
            c.pop("explicit_none")
            yield c
        if case.get("pos_min"):
            yield {k: v for k, v in case.items() if k != "pos_min"}
        if case.get("abandon"):
            yield dict(case, abandon=0)
        if case.get("hist"):
            yield {k: v for k, v in case.items() if k != "hist"}
            for k, op in enumerate(case["hist"]):
                if op != "R":
                    yield dict(case, hist=case["hist"][:k] + case["hist"][k + 1:])
        if case.get("xy_as") and case["xy_as"] != ["list", "list"]:
            yield dict(case, xy_as=["list", case["xy_as"][1]])
            yield dict(case, xy_as=[case["xy_as"][0], "list"])
        if case["src"] == "xy":
            for k, (x, y) in enumerate(rows):
                if x != {"i": 0}:
                    yield dict(case, rows=rows[:k] + [[{"i": 0}, y]] + rows[k + 1:])
                if "l" in y and len(y["l"]) > 1:
                    for j in range(len(y["l"])):
                        yield dict(case, rows=rows[:k] + [[x, {"l": y["l"][:j] + y["l"][j + 1:]}]] + rows[k + 1:])
        if case["src"] in ("libsvm", "manik"):
            for k, r in enumerate(rows):
                if r["feats"]:
                    yield dict(case, rows=rows[:k] + [dict(r, feats=r["feats"][1:])] + rows[k + 1:])
                if len(r["labels"]) > 1:
                    yield dict(case, rows=rows[:k] + [dict(r, labels=r["labels"][1:])] + rows[k + 1:])
        if case["src"] in ("csv", "arff") or (case["src"] == "rows" and not case.get("sparse")):
            # drop a feature column
            if rows:
                w = len(rows[0])
                li = norm_index(label_index(case), w)
                for j in range(w):
                    if j == li:
                        continue
                    c = dict(case, rows=[r[:j] + r[j + 1:] for r in rows])
                    if case.get("header"):
                        c["header"] = case["header"][:j] + case["header"][j + 1:]
                    if case.get("types"):
                        c["types"] = case["types"][:j] + case["types"][j + 1:]
                    if isinstance(case["label_col"], int):
                        if case["label_col"] >= 0 and j < li:
                            c["label_col"] = case["label_col"] - 1
                        elif case["label_col"] < 0 and j > li:
                            c["label_col"] = case["label_col"] + 1
                    yield c

    def snippet(self, case):
        try:
            return snippet_for(case)
        except Exception as e:
            return "# snippet generation failed: %r\n# case: %s" % (e, json.dumps(case))


PROPERTY = C14()
